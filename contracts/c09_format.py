"""C09: small joining / tuple helpers of the formatter."""
from pv.decl import contract

FH = "pint.delegates.formatter._format_helpers"
CU = "pint.delegates.formatter._compound_unit_helpers"

contract(f"{FH}:join_mu", params={"joint_fstring": "Str", "mstr": "Str", "ustr": "Str"}, returns="Str",
         ensures={"join": "result == (mstr if ustr == '' else fmt(joint_fstring, mstr, "
                          "(ustr[2:] if startswith(ustr, '1 / ') else ustr)))"},
         modifies=[], props=["C09"],
         note="only the leading '1' of '1 / unit' is dropped; an empty unit string renders the magnitude alone")

contract(f"{FH}:join_unc", params={"joint_fstring": "Str", "lpar": "Str", "rpar": "Str", "mstr": "Str", "ustr": "Str"},
         returns="Str",
         ensures={"join": "result == fmt(joint_fstring, (mstr if (startswith(mstr, lpar) or endswith(mstr, rpar)) "
                          "else lpar + mstr + rpar), ustr)"},
         modifies=[], props=["C09", "C19"])

contract(f"{CU}:extract2", params={"element": "Tuple[Str,Num,Str]"}, returns="Tuple[Str,Num]",
         ensures={"first_two": "result[0] == element[0] and result[1] == element[1]"}, modifies=[], props=["C09"])

contract(f"{CU}:to_name_exponent_name", params={"element": "Tuple[Str,Num]"}, returns="Tuple[Str,Num,Str]",
         ensures={"name_as_display": "result[0] == element[0] and result[1] == element[1] and result[2] == element[0]"},
         modifies=[], props=["C09"])
