"""C15: the unit-rewriting helpers return exactly quantity.to(X) / perform quantity.ito(X) for some X, or
return the input unchanged -- so, by the contract of to/ito (C01/C02), dimensionality and physical value are
preserved for EVERY X, independently of how X was chosen."""
from pv.decl import cls, contract, lemma, predicate

Q = "pint.facets.plain.quantity:PlainQuantity"
QTO = "pint.facets.plain.qto"

_mods = ["contents(self._REGISTRY._cache.dimensionality)", "contents(self._REGISTRY._cache.root_units)",
         "contents(self._REGISTRY._cache.conversion_factor)", "allof(UnitsContainer._hash)"]

_other_ok = ("wf(other) and names_ok(other) and exact_class(other, 'UnitsContainer') and dims_ok(other, self._REGISTRY) "
             "and AllMult(self._REGISTRY, other) and FacOf(other, 1) > 0")
_to_exc = ("UndefinedUnitError", "OffsetUnitCalculusError", "KeyError", "TypeError", "ArithmeticError")

contract(f"{Q}.to",
         params={"self": "Ref[PlainQuantity]", "other": "Ref[UnitsContainer]", "contexts": "Seq[Str]", "ctx_kwargs": "None"},
         returns="Ref[PlainQuantity]",
         requires={"q": "QWF(self)", "noctx": "len(contexts) == 0"},
         cases=[
             {"_name": "uc", "other": "Ref[UnitsContainer]", "_requires": [_other_ok],
              "_raises": {"DimensionalityError": "exists[Str](lambda b: b != '[]' and DimOf(b, self._units) != DimOf(b, other))"},
              "_add_ensures": {"units": "result._units == other"}},
             {"_name": "empty_dict", "other": "Opaque",
              "_raises": {"DimensionalityError": "exists[Str](lambda b: b != '[]' and DimOf(b, self._units) != 0)"}},
         ],
         allow_exc=_to_exc,
         ensures={"fresh": "fresh(result) and result != self", "registry": "result._REGISTRY == self._REGISTRY",
                  "same_value": "Phys(result) == Phys(self)", "same_dim": "SameDim(result, self)",
                  "q": "QWF(result)", "hashes": "HashesKept()",
                  "self_untouched": "self._magnitude == old(self._magnitude) and self._units == old(self._units)"},
         modifies=_mods,
         theories=("lin", "fac", "facdiff"),
         chain=("fresh", "registry", "units", "same_value", "same_dim"),
         note="to_units_container (identity on a UnitsContainer) + _convert_magnitude_not_inplace (verified) + the Quantity "
              "constructor (assumed: stores magnitude and units)",
         props=["C15", "C01", "C02"])

contract(f"{Q}._convert_magnitude",
         params={"self": "Ref[PlainQuantity]", "other": "Ref[UnitsContainer]", "contexts": "Seq[Str]", "ctx_kwargs": "None"},
         returns="Num",
         requires={"q": "QWF(self)", "other": _other_ok, "noctx": "len(contexts) == 0"},
         raises={"DimensionalityError": "exists[Str](lambda b: b != '[]' and DimOf(b, self._units) != DimOf(b, other))"},
         allow_exc=_to_exc,
         ensures={"value_scaled": "result * FacOf(other, 1) == self._magnitude * FacOf(self._units, 1)",
                  "q": "QWF(self)", "reg": "RegAll(self._REGISTRY)", "hashes": "HashesKept()"},
         modifies=_mods, theories=("lin", "fac", "facdiff"),
         note="scalar magnitudes: inplace=False", props=["C15"])

contract(f"{Q}.ito",
         params={"self": "Ref[PlainQuantity]", "other": "Ref[UnitsContainer]", "contexts": "Seq[Str]", "ctx_kwargs": "None"},
         returns="None",
         requires={"q": "QWF(self)", "noctx": "len(contexts) == 0"},
         cases=[
             {"_name": "uc", "other": "Ref[UnitsContainer]", "_requires": [_other_ok],
              "_raises": {"DimensionalityError": "exists[Str](lambda b: b != '[]' and DimOf(b, self._units) != DimOf(b, other))"},
              "_add_ensures": {"units": "self._units == other"}},
             {"_name": "empty_dict", "other": "Opaque",
              "_raises": {"DimensionalityError": "exists[Str](lambda b: b != '[]' and DimOf(b, self._units) != 0)"}},
         ],
         allow_exc=_to_exc,
         ensures={"same_value": "Phys(self) == old(Phys(self))",
                  "q": "QWF(self)", "hashes": "HashesKept()"},
         modifies=_mods + ["self._magnitude", "self._units"],
         theories=("lin", "fac", "facdiff"),
         note="in-place twin of to(); the per-object dimensionality memo stays valid because the dimensionality does not change",
         props=["C15"])

contract(f"{Q}.dimensionless", params={"self": "Ref[PlainQuantity]"}, returns="Bool",
         requires={"q": "QWF(self)"},
         ensures={"def": "result == forall[Str](lambda b: implies(b != '[]', DimOf(b, self._units) == 0))", "q": "QWF(self)",
                  "hashes": "HashesKept()"},
         modifies=_mods + ["self._dimensionality", "self._dimensionality_units"], trusted=True,
         note="to_root_units().dimensionality is empty", props=["C15", "C05"])

contract(f"{QTO}:_get_reduced_units",
         params={"quantity": "Ref[PlainQuantity]", "units": "Ref[UnitsContainer]"}, returns="Ref[UnitsContainer]",
         requires={"q": "QWF(quantity)"},
         ensures={"wf": "wf(result) and names_ok(result) and exact_class(result, 'UnitsContainer') and dims_ok(result, quantity._REGISTRY) "
                        "and AllMult(quantity._REGISTRY, result) and FacOf(result, 1) > 0",
                  "q": "QWF(quantity)", "hashes": "HashesKept()"},
         modifies=["contents(quantity._REGISTRY._cache.dimensionality)", "contents(quantity._REGISTRY._cache.root_units)",
                   "contents(quantity._REGISTRY._cache.conversion_factor)", "allof(UnitsContainer._hash)"],
         trusted=True,
         note="which units are chosen is irrelevant for value preservation; 'no two mergeable units remain' is bounded (c15_rewrite)",
         props=["C15"])

contract(f"{QTO}:to_reduced_units",
         params={"quantity": "Ref[PlainQuantity]"}, returns="Ref[PlainQuantity]",
         requires={"q": "QWF(quantity)"},
         allow_exc=("DimensionalityError",) + _to_exc,
         ensures={"same_value": "Phys(result) == Phys(quantity)", "same_dim": "SameDim(result, quantity)",
                  "input_untouched": "quantity._magnitude == old(quantity._magnitude) and quantity._units == old(quantity._units)"},
         modifies=["contents(quantity._REGISTRY._cache.dimensionality)", "contents(quantity._REGISTRY._cache.root_units)",
                   "contents(quantity._REGISTRY._cache.conversion_factor)", "allof(UnitsContainer._hash)",
                   "quantity._dimensionality", "quantity._dimensionality_units"],
         props=["C15"])

contract(f"{QTO}:ito_reduced_units",
         params={"quantity": "Ref[PlainQuantity]"}, returns="None",
         requires={"q": "QWF(quantity)"},
         allow_exc=("DimensionalityError",) + _to_exc,
         ensures={"same_value": "Phys(quantity) == old(Phys(quantity))"},
         modifies=["contents(quantity._REGISTRY._cache.dimensionality)", "contents(quantity._REGISTRY._cache.root_units)",
                   "contents(quantity._REGISTRY._cache.conversion_factor)", "allof(UnitsContainer._hash)",
                   "quantity._magnitude", "quantity._units", "quantity._dimensionality", "quantity._dimensionality_units"],
         props=["C15"])
