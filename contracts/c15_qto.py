"""C15: the unit-rewriting helpers return exactly quantity.to(X) / perform quantity.ito(X) for some X, or
return the input unchanged -- so, by the contract of to/ito (C01/C02), dimensionality and physical value are
preserved for EVERY X, independently of how X was chosen."""
from pv.decl import cls, contract, lemma, predicate

Q = "pint.facets.plain.quantity:PlainQuantity"
QTO = "pint.facets.plain.qto"

_mods = ["contents(self._REGISTRY._cache.dimensionality)", "contents(self._REGISTRY._cache.root_units)",
         "contents(self._REGISTRY._cache.conversion_factor)", "allof(UnitsContainer._hash)"]

contract(f"{Q}.to",
         params={"self": "Ref[PlainQuantity]", "other": "Ref[UnitsContainer]", "contexts": "Seq[Str]", "ctx_kwargs": "None"},
         returns="Ref[PlainQuantity]",
         requires={"q": "QWF(self)", "noctx": "len(contexts) == 0"},
         cases=[
             {"_name": "uc", "other": "Ref[UnitsContainer]",
              "_requires": ["wf(other) and names_ok(other) and exact_class(other, 'UnitsContainer') and dims_ok(other, self._REGISTRY) "
                            "and AllMult(self._REGISTRY, other) and FacOf(other, 1) > 0"],
              "_raises": {"DimensionalityError": "exists[Str](lambda b: b != '[]' and DimOf(b, self._units) != DimOf(b, other))"}},
             {"_name": "empty_dict", "other": "Opaque",
              "_raises": {"DimensionalityError": "exists[Str](lambda b: b != '[]' and DimOf(b, self._units) != 0)"}},
         ],
         ensures={"fresh": "fresh(result) and result != self", "registry": "result._REGISTRY == self._REGISTRY",
                  "same_value": "Phys(result) == Phys(self)", "same_dim": "SameDim(result, self)",
                  "q": "QWF(self) and QWF(result)", "hashes": "HashesKept()",
                  "self_untouched": "self._magnitude == old(self._magnitude) and self._units == old(self._units)"},
         modifies=_mods, trusted=True,
         note="to_units_container + registry.convert (-> _convert, verified) + the Quantity constructor (not modelled)",
         props=["C15", "C01", "C02"])

contract(f"{Q}.ito",
         params={"self": "Ref[PlainQuantity]", "other": "Ref[UnitsContainer]", "contexts": "Seq[Str]", "ctx_kwargs": "None"},
         returns="None",
         requires={"q": "QWF(self)", "noctx": "len(contexts) == 0"},
         cases=[
             {"_name": "uc", "other": "Ref[UnitsContainer]",
              "_requires": ["wf(other) and names_ok(other) and exact_class(other, 'UnitsContainer') and dims_ok(other, self._REGISTRY) "
                            "and AllMult(self._REGISTRY, other) and FacOf(other, 1) > 0"],
              "_raises": {"DimensionalityError": "exists[Str](lambda b: b != '[]' and DimOf(b, self._units) != DimOf(b, other))"}},
             {"_name": "empty_dict", "other": "Opaque",
              "_raises": {"DimensionalityError": "exists[Str](lambda b: b != '[]' and DimOf(b, self._units) != 0)"}},
         ],
         ensures={"same_value": "Phys(self) == old(Phys(self))", "q": "QWF(self)", "hashes": "HashesKept()"},
         modifies=_mods + ["self._magnitude", "self._units", "self._dimensionality"], trusted=True,
         note="in-place twin of to()", props=["C15"])

contract(f"{Q}.dimensionless", params={"self": "Ref[PlainQuantity]"}, returns="Bool",
         requires={"q": "QWF(self)"},
         ensures={"def": "result == forall[Str](lambda b: implies(b != '[]', DimOf(b, self._units) == 0))", "q": "QWF(self)",
                  "hashes": "HashesKept()"},
         modifies=_mods + ["self._dimensionality"], trusted=True,
         note="to_root_units().dimensionality is empty", props=["C15", "C05"])

contract(f"{QTO}:_get_reduced_units",
         params={"quantity": "Ref[PlainQuantity]", "units": "Ref[UnitsContainer]"}, returns="Ref[UnitsContainer]",
         requires={"q": "QWF(quantity)"},
         ensures={"wf": "wf(result) and names_ok(result) and exact_class(result, 'UnitsContainer') and dims_ok(result, quantity._REGISTRY) "
                        "and AllMult(quantity._REGISTRY, result) and FacOf(result, 1) > 0",
                  "q": "QWF(quantity)", "hashes": "HashesKept()"},
         modifies=["contents(quantity._REGISTRY._cache.dimensionality)", "contents(quantity._REGISTRY._cache.root_units)",
                   "contents(quantity._REGISTRY._cache.conversion_factor)", "allof(UnitsContainer._hash)"],
         trusted=True,
         note="which units are chosen is irrelevant for value preservation; 'no two mergeable units remain' is bounded (c15_rewrite)",
         props=["C15"])

contract(f"{QTO}:to_reduced_units",
         params={"quantity": "Ref[PlainQuantity]"}, returns="Ref[PlainQuantity]",
         requires={"q": "QWF(quantity)"},
         allow_exc=("DimensionalityError",),
         ensures={"same_value": "Phys(result) == Phys(quantity)", "same_dim": "SameDim(result, quantity)",
                  "input_untouched": "quantity._magnitude == old(quantity._magnitude) and quantity._units == old(quantity._units)"},
         modifies=["contents(quantity._REGISTRY._cache.dimensionality)", "contents(quantity._REGISTRY._cache.root_units)",
                   "contents(quantity._REGISTRY._cache.conversion_factor)", "allof(UnitsContainer._hash)",
                   "quantity._dimensionality"],
         props=["C15"])

contract(f"{QTO}:ito_reduced_units",
         params={"quantity": "Ref[PlainQuantity]"}, returns="None",
         requires={"q": "QWF(quantity)"},
         allow_exc=("DimensionalityError",),
         ensures={"same_value": "Phys(quantity) == old(Phys(quantity))"},
         modifies=["contents(quantity._REGISTRY._cache.dimensionality)", "contents(quantity._REGISTRY._cache.root_units)",
                   "contents(quantity._REGISTRY._cache.conversion_factor)", "allof(UnitsContainer._hash)",
                   "quantity._magnitude", "quantity._units", "quantity._dimensionality"],
         props=["C15"])
