"""C01/C02/C15: the conversion chain from Quantity down to the plain registry's _convert.

registry.convert -> self._convert is dispatched dynamically: UnitRegistry stacks the context facet and the
non-multiplicative facet on the plain registry, each overriding _convert and ending in super()._convert(...).
Behavioural subtyping: under the premises of this module (no active context; only multiplicative units) every
override is verified against the SAME contract as the plain _convert (c01_registry), so whichever override a call
reaches, the plain contract holds."""
from pv.decl import CONTRACTS, cls, contract, predicate, specfn

REG = "pint.facets.plain.registry:GenericPlainRegistry"
NM = "pint.facets.nonmultiplicative.registry:GenericNonMultiplicativeRegistry"
CR = "pint.facets.context.registry:GenericContextRegistry"
Q = "pint.facets.plain.quantity:PlainQuantity"

# every unit named by the container is multiplicative in this registry (a fixed property of the definitions)
specfn("uc_mult", ["Ref[GenericPlainRegistry]", "SetV[Str]", "Arr[Str,Num]"], "Bool")
predicate("AllMult", ["r: Ref[GenericPlainRegistry]", "u: Ref[UnitsContainer]"], "uc_mult(r, keys(u._d), vals(view(u)))")

_plain = CONTRACTS[f"{REG}._convert"]
_params = {"value": "Num", "src": "Ref[UnitsContainer]", "dst": "Ref[UnitsContainer]", "inplace": "Bool"}

contract(f"{NM}._validate_and_extract",
         params={"self": "Ref[GenericNonMultiplicativeRegistry]", "units": "Ref[UnitsContainer]"}, returns="Opt[Str]",
         requires={"mult": "AllMult(self, units)"},
         ensures={"none": "is_none(result)"}, modifies=[], trusted=True,
         note="returns None when no unit of the container is an offset / logarithmic unit (the other branches are bounded: c06_offset)",
         props=["C01", "C02"])

contract(f"{NM}._convert",
         params={"self": "Ref[GenericNonMultiplicativeRegistry]", **_params}, returns="Num",
         requires={**_plain.requires, "mult": "AllMult(self, src) and AllMult(self, dst)"},
         raises=dict(_plain.raises), allow_exc=_plain.allow_exc, ensures=dict(_plain.ensures), modifies=list(_plain.modifies),
         props=["C01", "C02"],
         note="multiplicative units only: defers to the next _convert in the MRO")

contract(f"{CR}._convert",
         params={"self": "Ref[GenericContextRegistry]", **_params}, returns="Num",
         requires={**_plain.requires, "no_active_context": "not truthy(self._active_ctx)"},
         raises=dict(_plain.raises), allow_exc=_plain.allow_exc, ensures=dict(_plain.ensures), modifies=list(_plain.modifies),
         props=["C01", "C02"],
         note="no active context: defers to the next _convert in the MRO")

_chain_pre = {**_plain.requires, "mult": "AllMult(self, src) and AllMult(self, dst)",
              "no_active_context": "not truthy(self._active_ctx)", "positive": "FacOf(dst, 1) > 0"}

contract(f"{REG}.convert",
         params={"self": "Ref[GenericPlainRegistry]", **_params}, returns="Num",
         requires=_chain_pre,
         raises=dict(_plain.raises), allow_exc=_plain.allow_exc, ensures=dict(_plain.ensures), modifies=list(_plain.modifies),
         theories=("fac", "facdiff"),
         props=["C01", "C02"],
         note="public entry: identical containers are returned unchanged (factor 1), everything else goes to _convert")
