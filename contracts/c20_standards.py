"""C20: closed obligations over the definition table that the REAL parser produced from the bundled files.

For every exact row of tables/standards.json the factor of the unit to root units is *derived by the solver*
from the linking equations of RegFac (contracts/c01_registry.py) instantiated on the parsed table
  F(k) = 1                              for a base unit
  F(k) = scale(k) * prod F(r)**e        for (r, e) in reference(k)        (integer exponents)
  F(prefix+unit) = value(prefix) * F(unit)
and compared with the standard value; root-unit exponents likewise (linear equations).  By the C02
contracts (to_root_units returns exactly this factor for every registry satisfying RegFac) this is the
number `Quantity(1, name).to_root_units()` returns."""
from __future__ import annotations

import json
import os
from fractions import Fraction

import z3

from pv import VERIF
from pv.decl import GENERATORS
from pv.exec import Obligation

ROOT_OF_SI = {"meter": "meter", "kilogram": "kilogram", "gram": "gram", "second": "second", "ampere": "ampere",
              "kelvin": "kelvin", "mole": "mole", "candela": "candela", "radian": "radian", "bit": "bit", "count": "count"}


def _fr(x):
    from standins.ref import F

    return F(x)


def closed_obligations():
    import pint

    from standins.c20_standards import Evaluator
    from standins.ref import Ref

    ureg = pint.UnitRegistry(non_int_type=Fraction)
    ref = Ref(ureg)
    table = json.load(open(os.path.join(VERIF, "tables", "standards.json"), encoding="utf-8"))
    ev = Evaluator(table["constants"])
    obs = []
    for row in table["rows"]:
        if row["kind"] not in ("unit", "constant", "prefix") or "accept" in row:
            continue
        name = row["name"]
        try:
            want, uses_pi = ev.eval(row["value"])
        except Exception:  # noqa: BLE001
            continue
        if uses_pi:
            continue
        hyps, F, seen = [], {}, set()

        def var(k):
            if k not in F:
                F[k] = z3.Real("F_" + k)
            return F[k]

        ok = True

        def define(k):
            nonlocal ok
            if k in seen:
                return
            seen.add(k)
            if row["kind"] == "prefix" and k == name:
                p = ureg._prefixes.get(name)
                if p is None:
                    ok = False
                    return
                fr = _fr(p.value)
                hyps.append(var(k) == z3.RealVal(f"{fr.numerator}/{fr.denominator}"))
                return
            res = ref.resolve(k)
            if res is None:
                ok = False
                return
            pval, udef = res
            canon = udef.name
            if canon != k or pval != 1:
                # spelling / prefixed name: prefix value times the unit's factor
                define(canon)
                hyps.append(var(k) == z3.RealVal(f"{pval.numerator}/{pval.denominator}") * var(canon))
                return
            if udef.is_base:
                hyps.append(var(k) == 1)
                return
            try:
                sc = _fr(udef.converter.scale)
            except Exception:  # noqa: BLE001
                ok = False
                return
            if not udef.is_multiplicative or isinstance(udef.converter.scale, float):
                ok = False
                return
            term = z3.RealVal(f"{sc.numerator}/{sc.denominator}")
            for r, e in dict(udef.reference or {}).items():
                e = _fr(e)
                if e.denominator != 1:
                    ok = False
                    return
                define(r)
                for _ in range(abs(int(e))):
                    term = term * var(r) if e > 0 else term / var(r)
            hyps.append(var(k) == term)

        define(name)
        if not ok:
            continue
        # the table states the value in SI units (kilogram, not pint's root unit gram): F(name) == value * prod F(si)**e
        rhs = z3.RealVal(f"{want.numerator}/{want.denominator}")
        for su, e in (row.get("si_units") or {}).items():
            e = _fr(e)
            if e.denominator != 1:
                ok = False
                break
            define(su)
            for _ in range(abs(int(e))):
                rhs = rhs * var(su) if e > 0 else rhs / var(su)
        if not ok:
            continue
        goal = var(name) == rhs
        ob = Obligation(f"standards/{name}.factor", hyps, goal, "valid", [f"row {row}"], {"row": row})
        ob.axioms, ob.func, ob.params, ob.heap_initial = [], "table:standards", {}, {}
        obs.append(ob)
    return obs


GENERATORS.append(("C20", "standards.closed_obligations", closed_obligations))
