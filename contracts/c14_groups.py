"""C14 / C13: the default-system switch and the base-units memo discipline."""
from pv.decl import cls, contract, lemma, predicate

cls("pint.facets.system.objects:System", fields={"name": "Str"})
cls("pint.facets.system.registry:GenericSystemRegistry",
    fields={"_systems": "Dict[Str,Ref[System]]", "_default_system_name": "Opt[Str]",
            "_base_units_cache": "Dict[Map[Str,Num],Tuple[Opt[Num],Ref[UnitsContainer]]]"})

SR = "pint.facets.system.registry:GenericSystemRegistry"

# `default_system` is a property; the last definition with that name in the class body is the setter.
contract(f"{SR}.default_system",
         params={"self": "Ref[GenericSystemRegistry]", "name": "Opt[Str]"},
         returns="None",
         requires={"alloc": "allocated(self) and allocated(self._systems)"},
         raises={"ValueError": "not is_none(name) and len(some(name)) > 0 and not (some(name) in self._systems)"},
         ensures={
             # changing the default system takes effect immediately: the memo of the previous system is dropped,
             # whatever the new value is (including None)
             "memo_dropped": "fresh(self._base_units_cache) and len(self._base_units_cache) == 0",
             "name_set": "self._default_system_name == name",
         },
         modifies=["self._base_units_cache", "self._default_system_name"],
         props=["C14", "C13"])
