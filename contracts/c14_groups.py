"""C14 / C13: the default-system switch and the base-units memo discipline."""
from pv.decl import cls, contract, lemma, predicate

cls("pint.facets.system.objects:System",
    fields={"name": "Str", "_used_groups": "Set[Str]", "_computed_members": "Opt[Set[Str]]"})
# (GenericSystemRegistry inherits GenericGroupRegistry: the group table `_groups` is declared here, so that no further registry
#  class enters the closed world of the registry-typed parameters of the other properties' contracts)
cls("pint.facets.system.registry:GenericSystemRegistry",
    fields={"_systems": "Dict[Str,Ref[System]]", "_default_system_name": "Opt[Str]", "_groups": "Dict[Str,Ref[Group]]",
            "_base_units_cache": "Dict[Map[Str,Num],Tuple[Opt[Num],Ref[UnitsContainer]]]"})

SR = "pint.facets.system.registry:GenericSystemRegistry"

# `default_system` is a property; the last definition with that name in the class body is the setter.
contract(f"{SR}.default_system",
         params={"self": "Ref[GenericSystemRegistry]", "name": "Opt[Str]"},
         returns="None",
         requires={"alloc": "allocated(self) and allocated(self._systems)"},
         raises={"ValueError": "not is_none(name) and len(some(name)) > 0 and not (some(name) in self._systems)"},
         ensures={
             # changing the default system takes effect immediately: the memo of the previous system is dropped,
             # whatever the new value is (including None)
             "memo_dropped": "fresh(self._base_units_cache) and len(self._base_units_cache) == 0",
             "name_set": "self._default_system_name == name",
         },
         modifies=["self._base_units_cache", "self._default_system_name"],
         props=["C14", "C13"])

# --------------------------------------------------------------------------- membership memo discipline (System)
# A System memoises the union of its groups' members in `_computed_members` (None = not computed).  Every edit of the
# set of used groups must drop the memo, otherwise `members` keeps answering with the old union.
SY = "pint.facets.system.objects:System"
GR = "pint.facets.group.objects:Group"

contract(f"{SY}.invalidate_members", params={"self": "Ref[System]"}, returns="None",
         requires={"alloc": "allocated(self)"},
         ensures={"memo_dropped": "is_none(self._computed_members)"},
         modifies=["self._computed_members"], props=["C14", "C13"])

contract(f"{SY}.add_groups", params={"self": "Ref[System]", "group_names": "Seq[Str]"}, returns="None",
         requires={"alloc": "allocated(self) and allocated(self._used_groups)"},
         ensures={"memo_dropped": "is_none(self._computed_members)",
                  "used_groups": "forall[Str](lambda g: (g in self._used_groups) == (old(g in self._used_groups) or g in group_names))"},
         modifies=["self._computed_members", "self._used_groups", "contents(self._used_groups)"], props=["C14", "C13"])

contract(f"{SY}.remove_groups", params={"self": "Ref[System]", "group_names": "Seq[Str]"}, returns="None",
         requires={"alloc": "allocated(self) and allocated(self._used_groups)"},
         ensures={"memo_dropped": "is_none(self._computed_members)",
                  "used_groups": "forall[Str](lambda g: (g in self._used_groups) == (old(g in self._used_groups) and not (g in group_names)))"},
         modifies=["self._computed_members", "self._used_groups", "contents(self._used_groups)"], props=["C14", "C13"])

