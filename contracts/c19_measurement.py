"""C19: accessors of Measurement (relative error)."""
from pv.decl import cls, contract, lemma, predicate

# the uncertain magnitude (uncertainties.core.AffineScalarFunc / Variable): only its two accessors are modelled
cls("uncertainties.core:AffineScalarFunc", fields={"nominal_value": "Num", "std_dev": "Num"})
cls("pint.facets.measurement.objects:Measurement", fields={"_magnitude": "Ref[AffineScalarFunc]"})
M = "pint.facets.measurement.objects:Measurement"

contract(f"{M}.rel", params={"self": "Ref[Measurement]"}, returns="Num",
         raises={"ZeroDivisionError": "self._magnitude.nominal_value == 0"},
         ensures={"relative_error": "result == abs(self._magnitude.std_dev / self._magnitude.nominal_value)"},
         modifies=[], props=["C19"],
         note="assumed: uncertainties' nominal_value / std_dev accessors; first-order propagation itself is the dependency's")

# the relative error is unchanged when value and error are scaled by the same non-zero factor (what a
# multiplicative conversion does to a ufloat under the assumed linearity of uncertainties)
lemma("C19.rel_invariant_under_scaling", {"m": "Ref[Measurement]", "m2": "Ref[Measurement]", "f": "Num"}, """
def lemma(m, m2, f):
    a = m.rel
    b = m2.rel
    check("same_relative_error", "a == b")
""", requires=["f != 0", "m._magnitude.nominal_value != 0",
               "m2._magnitude.nominal_value == f * m._magnitude.nominal_value",
               "m2._magnitude.std_dev == abs(f) * m._magnitude.std_dev"], props=["C19"])
