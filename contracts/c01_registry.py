"""Contracts for the registry core: dimensionality / root-unit recursion, conversion factor, convert
(properties C01, C02, C13)."""
from pv.decl import cls, contract, lemma, predicate, specfn

REG = "pint.facets.plain.registry:GenericPlainRegistry"

cls("pint.converters:Converter", fields={})
cls("pint.facets.plain.definitions:ScaleConverter", fields={"scale": "Num"})
cls("pint.facets.plain.definitions:UnitDefinition",
    fields={"name": "Str", "reference": "Opt[Ref[UnitsContainer]]", "converter": "Ref[ScaleConverter]",
            "_is_base": "Bool", "defined_symbol": "Opt[Str]"})
cls("pint.facets.plain.definitions:DimensionDefinition", fields={"name": "Str"})
cls("pint.facets.plain.definitions:DerivedDimensionDefinition", fields={"reference": "Ref[UnitsContainer]"})
cls("pint.facets.plain.registry:RegistryCache",
    fields={"dimensionality": "Dict[Map[Str,Num],Ref[UnitsContainer]]",
            "root_units": "Dict[Map[Str,Num],Tuple[Opt[Num],Ref[UnitsContainer]]]",
            "conversion_factor": "Dict[Tuple[Map[Str,Num],Map[Str,Num]],Opt[Num]]"})
cls("pint.facets.plain.registry:GenericPlainRegistry",
    fields={"_units": "Dict[Str,Ref[UnitDefinition]]", "_dimensions": "Dict[Str,Ref[DimensionDefinition]]",
            "_cache": "Ref[RegistryCache]", "_non_int_type": "NumType", "_on_redefinition": "Str",
            "_prefixes": "Dict[Str,Ref[PrefixDefinition]]", "_units_casei": "DDict[Str,Set[Str]]", "Unit": "UnitClass"})

# ---- spec functions (theory/axioms.py)
specfn("d1", ["Str", "Str"], "Num")
specfn("DimS", ["Str", "SetV[Str]", "Arr[Str,Num]"], "Num")
specfn("r1", ["Str", "Str"], "Num")
specfn("RootS", ["Str", "SetV[Str]", "Arr[Str,Num]"], "Num")
specfn("f1", ["Str"], "Num")
specfn("FacS", ["SetV[Str]", "Arr[Str,Num]", "Num"], "Num")
specfn("is_dim_name", ["Str"], "Bool")
specfn("FacDiff", ["SetV[Str]", "Arr[Str,Num]", "SetV[Str]", "Arr[Str,Num]"], "Num")

# Dim_b(u) for a container u
predicate("names_ok", ["u: Ref[UnitsContainer]"], "forall[Str](lambda k: implies(k in u._d, len(k) > 0))")
predicate("dims_ok", ["u: Ref[UnitsContainer]", "r: Ref[GenericPlainRegistry]"],
          "forall[Str](lambda k: implies(k in u._d and startswith(k, '[') and endswith(k, ']'), k in r._dimensions), 'k in u._d')")
predicate("DimOf", ["b: Str", "u: Ref[UnitsContainer]"], "DimS(b, keys(u._d), vals(view(u)))")

# ---- registry well-formedness (the part the dimensionality chain needs)
predicate("RegDim", ["r: Ref[GenericPlainRegistry]"], """
    allocated(r) and allocated(r._units) and allocated(r._dimensions)
    and forall[Str](lambda k: implies(k in r._dimensions,
            allocated(r._dimensions[k])
            and implies(is_a(r._dimensions[k], 'DerivedDimensionDefinition'),
                        wf(r._dimensions[k].reference) and names_ok(r._dimensions[k].reference)
                        and dims_ok(r._dimensions[k].reference, r))))
    and forall[Str, Str](lambda k, b: implies(k in r._dimensions and is_a(r._dimensions[k], 'DerivedDimensionDefinition'),
            d1(b, k) == DimOf(b, r._dimensions[k].reference)), "d1(b, k)")
    and forall[Str, Str](lambda k, b: implies(k in r._dimensions and not is_a(r._dimensions[k], 'DerivedDimensionDefinition'),
            d1(b, k) == (1 if b == k else 0)), "d1(b, k)")
    and forall[Str](lambda k: implies(k in r._units,
            allocated(r._units[k])
            and implies(not is_none(r._units[k].reference),
                        wf(some(r._units[k].reference)) and names_ok(some(r._units[k].reference))
                        and dims_ok(some(r._units[k].reference), r))))
    and forall[Str, Str](lambda k, b: implies(k in r._units and is_none(r._units[k].reference),
            d1(b, k) == 0), "d1(b, k)")
    and forall[Str, Str](lambda k, b: implies(k in r._units and not is_none(r._units[k].reference),
            d1(b, k) == DimOf(b, some(r._units[k].reference))), "d1(b, k)")
""")

contract("pint.util:_is_dim",
         params={"name": "Str"}, returns="Bool",
         raises={"IndexError": "len(name) == 0"},
         ensures={"def": "result == (startswith(name, '[') and endswith(name, ']'))"},
         modifies=[], props=["C01", "C02"])

contract("pint.facets.plain.definitions:UnitDefinition.is_base",
         params={"self": "Ref[UnitDefinition]"}, returns="Bool",
         ensures={"def": "result == self._is_base"}, modifies=[], props=["C02"])

# get_name: assumed here (its own contract is the subject of C08); what the recursion needs from it
contract(f"{REG}.get_name",
         params={"self": "Ref[GenericPlainRegistry]", "name_or_alias": "Str", "case_sensitive": "Opt[Bool]"},
         returns="Str",
         requires={"alloc": "allocated(self) and allocated(self._units)"},
         allow_exc=("UndefinedUnitError", "OffsetUnitCalculusError"),
         ensures={
             "present": "result in self._units",
             "canonical": "self._units[result].name == result",
             "same_dim": "forall[Str](lambda b: d1(b, result) == d1(b, name_or_alias))",
             "same_root": "forall[Str](lambda q: r1(q, result) == r1(q, name_or_alias))",
             "same_factor": "f1(result) == f1(name_or_alias)",
         },
         modifies=[],
         trusted=True,
         note="canonical-name resolution (decided under C08).  A7: the lazily materialised entries of prefixed units are "
              "modelled as already present in the unit table (the table of the model is the limit of lazy "
              "registration), so get_name has no observable effect on it; reads of self._units[name] happen only "
              "after get_name(name) in the verified code",
         props=["C01", "C02"])

contract(f"{REG}._get_dimensionality_recurse",
         params={"self": "Ref[GenericPlainRegistry]", "ref": "Ref[UnitsContainer]", "exp": "Num",
                 "accumulator": "DDict[Str,Num]"},
         returns="None",
         requires={"reg": "RegDim(self)", "ref": "wf(ref) and names_ok(ref) and dims_ok(ref, self)",
                   "acc": "allocated(accumulator)"},
         allow_exc=("UndefinedUnitError", "OffsetUnitCalculusError"),
         ensures={
             "accumulates": "forall[Str](lambda b: contents(accumulator)[b] == "
                            "old(contents(accumulator))[b] + exp * DimOf(b, ref))",
         },
         loops={0: dict(
             invariant={
                 "acc": "forall[Str](lambda b: contents(accumulator)[b] == old(contents(accumulator))[b] "
                        "+ exp * DimS(b, processed, vals(view(ref))))",
                 "ref": "iterated == keys(ref._d)",
             },
             modifies=["contents(accumulator)"])},
         modifies=["contents(accumulator)"],
         theories=("lin",),
         props=["C01", "C13"])

# ---- registry.UnitsContainer(...) factory: assumed (star-args forwarding to UnitsContainer.__init__)
contract(f"{REG}.UnitsContainer",
         params={"self": "Ref[GenericPlainRegistry]", "args": "Seq[Dict[Str,Num]]", "kwargs": "None"},
         returns="Ref[UnitsContainer]",
         requires={"arity": "len(args) <= 1"},
         ensures={
             "fresh": "fresh(result) and fresh(result._d)",
             "hash": "is_none(result._hash)",
             "class": "exact_class(result, 'UnitsContainer')",
             "empty": "implies(len(args) == 0, view(result) == empty_map[Str, Num]())",
             "items": "implies(len(args) == 1, view(result) == contents(args[0]))",
         },
         modifies=[], trusted=True,
         note="forwards *args/**kwargs to UnitsContainer.__init__ (value types are normalised, values unchanged: A1)",
         props=["C01", "C02"])

predicate("CacheDimOK", ["r: Ref[GenericPlainRegistry]"], """
    allocated(r._cache) and allocated(r._cache.dimensionality)
    and forall[Map[Str,Num]](lambda m: implies(m in r._cache.dimensionality,
            wf(r._cache.dimensionality[m])), "r._cache.dimensionality[m]")
    and forall[Map[Str,Num], Str](lambda m, b: implies(m in r._cache.dimensionality,
            view(r._cache.dimensionality[m])[b] == (0 if b == "[]" else DimS(b, keys(m), vals(m)))),
            "view(r._cache.dimensionality[m])[b]")
""")

contract(f"{REG}._get_dimensionality",
         params={"self": "Ref[GenericPlainRegistry]", "input_units": "Ref[UnitsContainer]"},
         returns="Ref[UnitsContainer]",
         requires={"reg": "RegDim(self)", "cache": "CacheDimOK(self)"},
         cases=[
             {"_name": "uc", "input_units": "Ref[UnitsContainer]",
              "_requires": ["wf(input_units) and names_ok(input_units) and dims_ok(input_units, self)"]},
             {"_name": "none", "input_units": "None",
              "_ensures": {"empty": "view(result) == empty_map[Str, Num]()",
                           "cache": "CacheDimOK(self)", "wf": "wf(result)"}},
         ],
         allow_exc=("UndefinedUnitError", "OffsetUnitCalculusError"),
         ensures={
             "wf": "wf(result)",
             "dim": "forall[Str](lambda b: view(result)[b] == (0 if b == '[]' else DimOf(b, input_units)))",
             "cache": "CacheDimOK(self)",
         },
         modifies=["contents(self._cache.dimensionality)"],
         theories=("lin",),
         props=["C01", "C13"])

# =========================================================================== root units / factors (C02)
predicate("FacOf", ["u: Ref[UnitsContainer]", "e: Num"], "FacS(keys(u._d), vals(view(u)), e)")
predicate("RootOf", ["q: Str", "u: Ref[UnitsContainer]"], "RootS(q, keys(u._d), vals(view(u)))")

# Linking of the spec functions f1 / r1 to the definition table.  The "for all exponents e" form of the
# scale equation follows from its e == 1 form (f1(k) == scale * Fac(reference)) and positivity of all
# scales by rpow laws (theory: Lean lemma regfac_all_exponents); the concrete registries are checked
# against the e == 1 form.
predicate("RegFac", ["r: Ref[GenericPlainRegistry]"], """
    allocated(r) and allocated(r._units)
    and forall[Str](lambda k: implies(k in r._units,
            allocated(r._units[k])
            and implies(not is_none(r._units[k].reference),
                        wf(some(r._units[k].reference)) and names_ok(some(r._units[k].reference)))),
            "r._units[k]")
    and forall[Str](lambda k: f1(k) > 0, "f1(k)")
    and forall[Str](lambda k: implies(k in r._units, allocated(r._units[k].converter)
                                      and r._units[k].converter.scale > 0))
    and forall[Str, Num](lambda k, e: implies(k in r._units and r._units[k]._is_base, pw(f1(k), e) == 1), "pw(f1(k), e)")
    and forall[Str, Str](lambda k, q: implies(k in r._units and r._units[k]._is_base and r._units[k].name == k,
                                              r1(q, k) == (1 if q == k else 0)), "r1(q, k)")
    and forall[Str, Num](lambda k, e: implies(k in r._units and not r._units[k]._is_base and is_none(r._units[k].reference),
                                              pw(f1(k), e) == pw(r._units[k].converter.scale, e)), "pw(f1(k), e)")
    and forall[Str, Str](lambda k, q: implies(k in r._units and not r._units[k]._is_base and is_none(r._units[k].reference),
                                              r1(q, k) == 0), "r1(q, k)")
    and forall[Str, Num](lambda k, e: implies(k in r._units and not r._units[k]._is_base and not is_none(r._units[k].reference),
                                              pw(f1(k), e) == pw(r._units[k].converter.scale, e) * FacOf(some(r._units[k].reference), e)),
                         "pw(f1(k), e)")
    and forall[Str, Str](lambda k, q: implies(k in r._units and not r._units[k]._is_base and not is_none(r._units[k].reference),
                                              r1(q, k) == RootOf(q, some(r._units[k].reference))), "r1(q, k)")
""")

contract(f"{REG}._get_root_units_recurse",
         params={"self": "Ref[GenericPlainRegistry]", "ref": "Ref[UnitsContainer]", "exp": "Num",
                 "accumulators": "DDict[Opt[Str],Num]"},
         returns="None",
         requires={"fac": "RegFac(self)", "ref": "wf(ref) and names_ok(ref)",
                   "acc": "allocated(accumulators) and allocated(self) and allocated(self._units)"},
         allow_exc=("UndefinedUnitError", "OffsetUnitCalculusError"),
         ensures={
             "factor": "contents(accumulators)[None] == old(contents(accumulators))[None] * FacOf(ref, exp)",
             "units": "forall[Str](lambda q: contents(accumulators)[q] == old(contents(accumulators))[q] "
                      "+ exp * RootOf(q, ref))",
         },
         loops={0: dict(
             invariant={
                 "factor": "contents(accumulators)[None] == old(contents(accumulators))[None] "
                           "* FacS(processed, vals(view(ref)), exp)",
                 "units": "forall[Str](lambda q: contents(accumulators)[q] == old(contents(accumulators))[q] "
                          "+ exp * RootS(q, processed, vals(view(ref))))",
                 "ref": "iterated == keys(ref._d)",
             },
             hints={
                 # the unit's own factor, from its definition (RegFac after get_name)
                 "unit_def": "implies(not $reg._is_base and not is_none($reg.reference), "
                             "pw(f1(elem_key), exp * view(ref)[elem_key]) == "
                             "pw($reg.converter.scale, exp * view(ref)[elem_key]) "
                             "* FacOf(some($reg.reference), exp * view(ref)[elem_key]))",
                 # one unit contributes pw(f1(unit), exp * exponent) to the factor
                 "unit_factor": "contents(accumulators)[None] == at_head(contents(accumulators)[None]) "
                                "* pw(f1(elem_key), exp * view(ref)[elem_key])",
                 "insert": "FacS(store(processed, elem_key, True), vals(view(ref)), exp) == "
                           "FacS(processed, vals(view(ref)), exp) * pw(f1(elem_key), exp * view(ref)[elem_key])",
             },
             modifies=["contents(accumulators)"])},
         modifies=["contents(accumulators)"],
         bind={"reg": "self._units[key]"},
         theories=("root", "fac"),
         props=["C02", "C13"])


# =========================================================================== _get_root_units / conversion factor / convert
specfn("conv_mult", ["Ref[Converter]"], "Bool")

contract("pint.converters:Converter.is_multiplicative",
         params={"self": "Ref[Converter]"}, returns="Bool", pure=True,
         ensures={"def": "result == conv_mult(self)"}, modifies=[], trusted=True,
         note="dispatches over the converter classes (Scale: True, Offset: offset == 0, Logarithmic: False); "
              "the subclass bodies are the subject of C06",
         props=["C02"])

predicate("CacheRootOK", ["r: Ref[GenericPlainRegistry]"], """
    allocated(r._cache) and allocated(r._cache.root_units)
    and forall[Map[Str,Num]](lambda m: implies(m in r._cache.root_units,
            wf(r._cache.root_units[m][1]) and exact_class(r._cache.root_units[m][1], 'UnitsContainer')),
            "r._cache.root_units[m][1]")
    and forall[Map[Str,Num]](lambda m: implies(m in r._cache.root_units and not is_none(r._cache.root_units[m][0]),
            some(r._cache.root_units[m][0]) == FacS(keys(m), vals(m), 1)), "r._cache.root_units[m][0]")
    and forall[Map[Str,Num], Str](lambda m, q: implies(m in r._cache.root_units,
            view(r._cache.root_units[m][1])[q] == RootS(q, keys(m), vals(m))), "view(r._cache.root_units[m][1])[q]")
""")

contract(f"{REG}._get_root_units",
         params={"self": "Ref[GenericPlainRegistry]", "input_units": "Ref[UnitsContainer]", "check_nonmult": "Bool"},
         returns="Tuple[Opt[Num],Ref[UnitsContainer]]",
         requires={"fac": "RegFac(self)", "cache": "CacheRootOK(self)",
                   "in": "wf(input_units) and names_ok(input_units)"},
         allow_exc=("UndefinedUnitError", "OffsetUnitCalculusError", "KeyError"),
         ensures={
             "factor": "implies(not is_none(result[0]), some(result[0]) == FacOf(input_units, 1))",
             "units": "forall[Str](lambda q: view(result[1])[q] == RootOf(q, input_units))",
             "wf": "wf(result[1]) and exact_class(result[1], 'UnitsContainer')",
             "cache": "CacheRootOK(self)",
         },
         local_types={"accumulators": "DDict[Opt[Str],Num]"},
         modifies=["contents(self._cache.root_units)"],
         theories=("root", "fac"),
         props=["C02", "C13"])


predicate("CacheFacOK", ["r: Ref[GenericPlainRegistry]"], """
    allocated(r._cache) and allocated(r._cache.conversion_factor)
    and forall[Map[Str,Num], Map[Str,Num], Str](lambda m, n, b: implies((m, n) in r._cache.conversion_factor and b != "[]",
            DimS(b, keys(m), vals(m)) == DimS(b, keys(n), vals(n))), ("DimS(b, keys(m), vals(m))", "DimS(b, keys(n), vals(n))"))
    and forall[Map[Str,Num], Map[Str,Num]](lambda m, n: implies((m, n) in r._cache.conversion_factor
            and not is_none(r._cache.conversion_factor[(m, n)]),
            some(r._cache.conversion_factor[(m, n)]) == FacDiff(keys(m), vals(m), keys(n), vals(n))),
            "r._cache.conversion_factor[(m, n)]")
""")

contract(f"{REG}._get_conversion_factor",
         params={"self": "Ref[GenericPlainRegistry]", "src": "Ref[UnitsContainer]", "dst": "Ref[UnitsContainer]"},
         returns="Union[Opt[Num],Exc[DimensionalityError]]",
         requires={"reg": "RegDim(self)", "fac": "RegFac(self)", "cdim": "CacheDimOK(self)", "croot": "CacheRootOK(self)",
                   "cfac": "CacheFacOK(self)",
                   "in": "wf(src) and names_ok(src) and wf(dst) and names_ok(dst) and same_class(src, dst) "
                         "and dims_ok(src, self) and dims_ok(dst, self)"},
         allow_exc=("UndefinedUnitError", "OffsetUnitCalculusError", "KeyError"),
         ensures={
             # the central clause of C01: an error object is returned exactly when some base dimension differs
             "error_iff_dim_differs": "is_exc(result) == exists[Str](lambda b: b != '[]' and DimOf(b, src) != DimOf(b, dst))",
             # C02: the factor is the ratio Factor(src) / Factor(dst) (FacDiff, theory/axioms.py)
             "factor_is_ratio": "implies(not is_exc(result) and not is_none(alt(result, 0)), "
                                "some(alt(result, 0)) == FacDiff(keys(src._d), vals(view(src)), keys(dst._d), vals(view(dst))))",
             "cdim": "CacheDimOK(self)",
             "croot": "CacheRootOK(self)",
             "cfac": "CacheFacOK(self)",
             "hashes": "HashesKept()",
         },
         modifies=["contents(self._cache.dimensionality)", "contents(self._cache.root_units)",
                   "contents(self._cache.conversion_factor)", "allof(UnitsContainer._hash)"],
         theories=("lin", "fac", "facdiff"),
         props=["C01", "C02", "C13"])

contract(f"{REG}._convert",
         params={"self": "Ref[GenericPlainRegistry]", "value": "Num", "src": "Ref[UnitsContainer]",
                 "dst": "Ref[UnitsContainer]", "inplace": "Bool", "check_dimensionality": "Bool"},
         returns="Num",
         requires={"reg": "RegDim(self)", "fac": "RegFac(self)", "cdim": "CacheDimOK(self)", "croot": "CacheRootOK(self)",
                   "cfac": "CacheFacOK(self)",
                   "in": "wf(src) and names_ok(src) and wf(dst) and names_ok(dst) and same_class(src, dst) "
                         "and dims_ok(src, self) and dims_ok(dst, self)"},
         # C01: DimensionalityError is raised exactly when some base dimension differs -- and then no number is returned
         raises={"DimensionalityError": "exists[Str](lambda b: b != '[]' and DimOf(b, src) != DimOf(b, dst))"},
         allow_exc=("UndefinedUnitError", "OffsetUnitCalculusError", "KeyError", "TypeError", "ArithmeticError"),
         ensures={
             # C02: the result is the value times the ratio of the two factors
             "value_times_ratio": "result == value * FacDiff(keys(src._d), vals(view(src)), keys(dst._d), vals(view(dst)))",
             "cdim": "CacheDimOK(self)", "croot": "CacheRootOK(self)", "cfac": "CacheFacOK(self)",
             "hashes": "HashesKept()",
         },
         modifies=["contents(self._cache.dimensionality)", "contents(self._cache.root_units)",
                   "contents(self._cache.conversion_factor)", "allof(UnitsContainer._hash)"],
         props=["C01", "C02"])
