"""Contracts for the context stack (C11, C12): ContextChain, Context.from_context, context()/disable_contexts."""
from pv.decl import cls, contract, lemma, predicate

cls("pint.facets.context.objects:Context",
    fields={"name": "Opt[Str]", "aliases": "Seq[Str]", "funcs": "Dict[Tuple[Map[Str,Num],Map[Str,Num]],Fn]",
            "defaults": "Dict[Str,Opaque]", "redefinitions": "List[Opaque]", "checked": "Bool",
            "relation_to_context": "RelMap"})
cls("pint.facets.context.objects:ContextChain",
    fields={"contexts": "List[Ref[Context]]", "maps": "List[RelMap]", "_graph": "Opt[Opaque]"},
    truthy="fields:maps")  # ChainMap.__bool__ is any(self.maps)

CC = "pint.facets.context.objects:ContextChain"

predicate("chain_ok", ["c: Ref[ContextChain]"],
          "allocated(c) and allocated(c.contexts) and allocated(c.maps) and c.contexts != c.maps")

contract(f"{CC}.insert_contexts",
         params={"self": "Ref[ContextChain]", "contexts": "Seq[Ref[Context]]"},
         returns="None",
         requires={"ok": "chain_ok(self)"},
         ensures={
             "stack": "contents(self.contexts) == rev(contexts) + old(contents(self.contexts))",
             "maps": "contents(self.maps) == mapf(rev(contexts), 'relation_to_context') + old(contents(self.maps))",
             "graph_reset": "is_none(self._graph)",
             "ok": "chain_ok(self)",
             "fresh_lists": "fresh(self.contexts) and fresh(self.maps)",
         },
         modifies=["self.contexts", "self.maps", "self._graph"],
         props=["C11", "C12"])

contract(f"{CC}.remove_contexts",
         params={"self": "Ref[ContextChain]", "n": "Opt[Int]"},
         returns="None",
         requires={"ok": "chain_ok(self)", "nonneg": "is_none(n) or some(n) >= 0"},
         ensures={
             "stack": "contents(self.contexts) == (old(contents(self.contexts))[len(old(contents(self.contexts))):] "
                      "if is_none(n) else old(contents(self.contexts))[some(n):])",
             "maps": "contents(self.maps) == (old(contents(self.maps))[len(old(contents(self.maps))):] "
                     "if is_none(n) else old(contents(self.maps))[some(n):])",
             "graph_reset": "is_none(self._graph)",
             "ok": "chain_ok(self)",
         },
         modifies=["contents(self.contexts)", "contents(self.maps)", "self._graph"],
         props=["C11", "C12"])

# enter; exit == identity on the active stack
lemma("C12.enter_exit_identity",
      {"chain": "Ref[ContextChain]", "a": "Ref[Context]", "b": "Ref[Context]"},
      """
def lemma(chain, a, b):
    chain.insert_contexts(a, b)
    check("newest_first", "contents(chain.contexts)[0] == b and contents(chain.contexts)[1] == a")
    check("newest_map_first", "contents(chain.maps)[0] == b.relation_to_context")
    chain.remove_contexts(2)
    check("stack_restored", "contents(chain.contexts) == old(contents(chain.contexts))")
    check("maps_restored", "contents(chain.maps) == old(contents(chain.maps))")
""", requires=["chain_ok(chain)"], props=["C12", "C11"])

# --------------------------------------------------------------------------- registry level (stack discipline of with-blocks)
cls("pint.facets.context.registry:GenericContextRegistry",
    fields={"_active_ctx": "Ref[ContextChain]", "_contexts": "Dict[Str,Ref[Context]]"})

CR = "pint.facets.context.registry:GenericContextRegistry"
predicate("active", ["r: Ref[GenericContextRegistry]"], "contents(r._active_ctx.contexts)")
predicate("ctxreg_ok", ["r: Ref[GenericContextRegistry]"], "allocated(r) and chain_ok(r._active_ctx)")

contract(f"{CR}._switch_context_cache_and_units",
         params={"self": "Ref[GenericContextRegistry]"}, returns="None",
         requires={"ok": "ctxreg_ok(self)"},
         allow_exc=("Exception",),
         ensures={"ok": "ctxreg_ok(self)"},
         modifies=[],  # as far as the modelled state (the active chain) is concerned
         trusted=True,
         note="installs the cache / unit overlay of the active combination (ChainMap, ContextCacheOverlay); "
              "not modelled: it does not touch the active chain; may raise while applying redefinitions",
         props=["C12", "C11"])

contract(f"{CR}.enable_contexts",
         params={"self": "Ref[GenericContextRegistry]", "names_or_contexts": "Seq[Str]", "kwargs": "None"},
         returns="None",
         requires={"ok": "ctxreg_ok(self)"},
         allow_exc=("Exception",),
         ensures={
             "pushed": "len(active(self)) == old(len(active(self))) + len(names_or_contexts)",
             "below": "active(self)[len(names_or_contexts):] == old(active(self))",
             "ok": "ctxreg_ok(self)",
             "lists": "(fresh(self._active_ctx.contexts) or self._active_ctx.contexts == old(self._active_ctx.contexts))"
                      " and (fresh(self._active_ctx.maps) or self._active_ctx.maps == old(self._active_ctx.maps))",
         },
         modifies=["fields(self._active_ctx)"],
         trusted=True,
         note="pushes one (parameterised) context per name on the active chain; its body (name lookup, "
              "normalisation of rule endpoints, from_context) is covered by the C12 stand-in, not deductively",
         props=["C12", "C11"])

contract(f"{CR}.disable_contexts",
         params={"self": "Ref[GenericContextRegistry]", "n": "Opt[Int]"}, returns="None",
         requires={"ok": "ctxreg_ok(self)", "nonneg": "is_none(n) or some(n) >= 0"},
         allow_exc=("Exception",),
         ensures={
             "popped": "active(self) == (old(active(self))[len(old(active(self))):] if is_none(n) "
                       "else old(active(self))[some(n):])",
             "ok": "ctxreg_ok(self)",
         },
         modifies=["contents(self._active_ctx.contexts)", "contents(self._active_ctx.maps)", "self._active_ctx._graph"],
         props=["C12"])

contract(f"{CR}.context",
         params={"self": "Ref[GenericContextRegistry]", "names": "Seq[Str]", "kwargs": "None"},
         returns="None",
         requires={"ok": "ctxreg_ok(self)"},
         allow_exc=("Exception", "BodyException"),
         ensures={"stack_restored_on_normal_exit": "active(self) == old(active(self))"},
         expost={"BodyException": {"stack_restored_when_body_raises": "active(self) == old(active(self))"}},
         modifies=["fields(self._active_ctx)", "contents(self._active_ctx.contexts)", "contents(self._active_ctx.maps)"],
         props=["C12"])
