"""Contracts for the converters (C06, C02): scale, offset and logarithmic maps and their inverses."""
from pv.decl import cls, contract, lemma, predicate

cls("pint.facets.nonmultiplicative.definitions:OffsetConverter", fields={"offset": "Num"})
cls("pint.facets.nonmultiplicative.definitions:LogarithmicConverter", fields={"logbase": "Num", "logfactor": "Num"})

SC = "pint.facets.plain.definitions:ScaleConverter"
OC = "pint.facets.nonmultiplicative.definitions:OffsetConverter"
LC = "pint.facets.nonmultiplicative.definitions:LogarithmicConverter"
P = ["C06", "C02"]

for key, to_expr, from_expr in (
        (SC, "value * self.scale", "value / self.scale"),
        (OC, "value * self.scale + self.offset", "(value - self.offset) / self.scale")):
    contract(f"{key}.to_reference",
             params={"self": f"Ref[{key.split(':')[1]}]", "value": "Num", "inplace": "Bool"}, returns="Num",
             ensures={"map": f"result == {to_expr}"}, modifies=[], props=P,
             note="scalar magnitudes; the in-place branch rebinds the local for scalars (arrays: A6)")
    contract(f"{key}.from_reference",
             params={"self": f"Ref[{key.split(':')[1]}]", "value": "Num", "inplace": "Bool"}, returns="Num",
             raises={"ZeroDivisionError": "self.scale == 0"},
             ensures={"map": f"result == {from_expr}"}, modifies=[], props=P)

contract(f"{OC}.is_multiplicative",
         params={"self": "Ref[OffsetConverter]"}, returns="Bool", pure=True,
         ensures={"def": "result == (self.offset == 0)"}, modifies=[], props=["C06"])

contract(f"{LC}.is_multiplicative", params={"self": "Ref[LogarithmicConverter]"}, returns="Bool",
         ensures={"never": "result == False"}, modifies=[], props=["C06"])
contract(f"{LC}.is_logarithmic", params={"self": "Ref[LogarithmicConverter]"}, returns="Bool",
         ensures={"always": "result == True"}, modifies=[], props=["C06"])

# logarithmic maps (functional branch; the in-place branch is array-only: np.log(value, value))
contract(f"{LC}.to_reference",
         params={"self": "Ref[LogarithmicConverter]", "value": "Num", "inplace": "Bool"}, returns="Num",
         requires={"functional": "not inplace"},
         raises={"ZeroDivisionError": "self.logfactor == 0"},
         ensures={"map": "result == self.scale * exp(log(self.logbase) * (value / self.logfactor))"},
         modifies=[], theories=("explog",), props=["C06"])
contract(f"{LC}.from_reference",
         params={"self": "Ref[LogarithmicConverter]", "value": "Num", "inplace": "Bool"}, returns="Num",
         requires={"functional": "not inplace"},
         raises={"ZeroDivisionError": "self.scale == 0 or log(self.logbase) == 0"},
         ensures={"map": "result == self.logfactor * log(value / self.scale) / log(self.logbase)"},
         modifies=[], theories=("explog",), props=["C06"])

# ---- the maps are mutually inverse
lemma("C06.scale_offset_inverse", {"c": "Ref[OffsetConverter]", "s": "Ref[ScaleConverter]", "v": "Num"}, """
def lemma(c, s, v):
    a = c.from_reference(c.to_reference(v, False), False)
    check("offset_from_to", "a == v")
    b = c.to_reference(c.from_reference(v, False), False)
    check("offset_to_from", "b == v")
    d = s.from_reference(s.to_reference(v, False), False)
    check("scale_from_to", "d == v")
    e = s.to_reference(s.from_reference(v, False), False)
    check("scale_to_from", "e == v")
""", requires=["c.scale != 0", "s.scale != 0", "exact_class(c, 'OffsetConverter')", "exact_class(s, 'ScaleConverter')"],
      props=["C06", "C02"])

lemma("C06.log_inverse", {"c": "Ref[LogarithmicConverter]", "v": "Num", "y": "Num"}, """
def lemma(c, v, y):
    a = c.from_reference(c.to_reference(v, False), False)
    check("log_from_to", "a == v")
    b = c.to_reference(c.from_reference(y, False), False)
    check("log_to_from", "b == y")
""", requires=["c.scale != 0", "c.logfactor != 0", "log(c.logbase) != 0", "y / c.scale > 0",
               "exact_class(c, 'LogarithmicConverter')"], props=["C06"], theories=("explog",))
