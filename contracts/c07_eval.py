"""C07: the exponentiation used by the expression evaluator on scalar operands."""
from pv.decl import contract

contract("pint.pint_eval:_power", params={"left": "Num", "right": "Num"}, returns="Num",
         ensures={"python_power": "result == pw(left, right)"}, modifies=[], props=["C07"],
         note="scalar operands: plain operator.pow (the array branch casts integer arrays for negative exponents)")

import ast  # noqa: E402

from pv import source  # noqa: E402
from pv.decl import structural  # noqa: E402


def _operator_tables():
    """The evaluator's tables, read from the module AST: every operator text maps to the matching Python
    operator, and the priorities order ** (and ^) above unary above * / // % (and juxtaposition) above + -."""
    tree, _ = source.module_ast("pint.pint_eval")
    tables = {}
    for n in tree.body:
        tgt = None
        if isinstance(n, ast.AnnAssign) and isinstance(n.target, ast.Name):
            tgt, val = n.target.id, n.value
        elif isinstance(n, ast.Assign) and len(n.targets) == 1 and isinstance(n.targets[0], ast.Name):
            tgt, val = n.targets[0].id, n.value
        if tgt in ("_BINARY_OPERATOR_MAP", "_OP_PRIORITY", "_UNARY_OPERATOR_MAP") and isinstance(val, ast.Dict):
            tables[tgt] = {k.value: ast.unparse(v) for k, v in zip(val.keys, val.values)}
    problems = []
    want = {"**": "_power", "*": "operator.mul", "": "operator.mul", "/": "operator.truediv", "+": "operator.add",
            "-": "operator.sub", "%": "operator.mod", "//": "operator.floordiv"}
    b = tables.get("_BINARY_OPERATOR_MAP", {})
    for k, v in want.items():
        if b.get(k) != v:
            problems.append(f"binary operator {k!r} maps to {b.get(k)} (expected {v})")
    extra = set(b) - set(want) - {"+/-"}
    if extra:
        problems.append(f"unexpected binary operators {sorted(extra)}")
    u = tables.get("_UNARY_OPERATOR_MAP", {})
    if u.get("+") != "lambda x: x" or u.get("-") not in ("lambda x: x * -1", "lambda x: -x"):
        problems.append(f"unary operators are {u}")
    p = {k: int(v) for k, v in tables.get("_OP_PRIORITY", {}).items() if v.lstrip("-").isdigit()}
    try:
        ok = (p["**"] == p["^"] > p["unary"] > p["*"] == p[""] == p["/"] == p["//"] == p["%"] > p["+"] == p["-"]
              and p["+/-"] > p["**"])
    except KeyError as e:
        ok = False
        problems.append(f"priority table lacks {e}")
    if not ok and not problems:
        problems.append(f"priority table {p} does not order ** > unary > * / // % juxtaposition > + -")
    return (not problems), "; ".join(problems) or "operator and priority tables match Python's operators and precedence levels"


def _no_dynamic_evaluation():
    """Static effects contract: no function on the parsing path (pint_eval.py, ParserHelper.from_string / eval_token,
    string_preprocessor, registry.parse_expression / _eval_token / parse_units*) calls a code-execution,
    import, attribute-by-computed-name or I/O primitive."""
    banned_names = {"eval", "exec", "compile", "__import__", "open", "input", "breakpoint", "globals", "locals", "vars",
                    "setattr", "delattr"}
    banned_modules = {"os", "subprocess", "importlib", "pickle", "marshal", "ctypes", "socket", "shutil", "runpy"}
    problems, scanned = [], 0

    def scan(fn, where):
        nonlocal scanned
        scanned += 1
        for n in ast.walk(fn):
            if isinstance(n, ast.Call):
                f = n.func
                if isinstance(f, ast.Name) and f.id in banned_names:
                    problems.append(f"{where}: call of {f.id}")
                if isinstance(f, ast.Name) and f.id == "getattr" and len(n.args) >= 2 and not isinstance(n.args[1], ast.Constant):
                    problems.append(f"{where}: getattr with a computed name")
                if isinstance(f, ast.Attribute) and isinstance(f.value, ast.Name) and f.value.id in banned_modules:
                    problems.append(f"{where}: call into module {f.value.id}")
            if isinstance(n, (ast.Import, ast.ImportFrom)):
                mods = [a.name for a in n.names] if isinstance(n, ast.Import) else [n.module or ""]
                if any(m.split(".")[0] in banned_modules for m in mods):
                    problems.append(f"{where}: imports {mods}")

    tree, _ = source.module_ast("pint.pint_eval")
    for n in tree.body:
        if isinstance(n, (ast.FunctionDef, ast.ClassDef)):
            scan(n, f"pint_eval.{n.name}")
    for mod, quals in (("pint.util", ["ParserHelper.from_string", "ParserHelper.eval_token", "ParserHelper.from_word",
                                      "string_preprocessor"]),
                       ("pint.facets.plain.registry", ["GenericPlainRegistry.parse_expression", "GenericPlainRegistry._eval_token",
                                                       "GenericPlainRegistry.parse_units", "GenericPlainRegistry.parse_units_as_container",
                                                       "GenericPlainRegistry._parse_units_as_container"])):
        for q in quals:
            node, _, _ = source.find_def(mod, q)
            scan(node, f"{mod}.{q}")
    return (not problems), "; ".join(problems) or f"{scanned} definitions on the parsing path scanned: no dynamic-evaluation or I/O primitive"


structural("pint_eval.operator_tables_match_python", _operator_tables, props=["C07"])
structural("parse_path.no_dynamic_evaluation", _no_dynamic_evaluation, props=["C07"])

# ---- numeric literals: in a float registry an integer literal stays an int, anything else is a float;
#      in a Decimal / Fraction registry every literal is read by that type directly from the text
from pv.decl import cls  # noqa: E402

cls("tokenize:TokenInfo", fields={"type": "Int", "string": "Str"})
contract("pint.util:ParserHelper.eval_token",
         params={"cls": "Opaque", "token": "Ref[TokenInfo]", "non_int_type": "NumType"},
         returns="Union[Int,Num]",
         requires={"number_token": "token.type == 2"},
         raises={"ValueError": "non_int_type == float and not num_str_ok(token.string)"},
         ensures={
             "integer_literals_stay_integers": "implies(non_int_type == float and int_str_ok(token.string), "
                                               "tag(result) == 0 and alt(result, 0) == int_of_str(token.string))",
             "other_literals_are_floats": "implies(non_int_type == float and not int_str_ok(token.string), "
                                          "tag(result) == 1 and alt(result, 1) == num_of_str(token.string, float))",
             "registry_type_reads_the_text": "implies(non_int_type != float, tag(result) == 1 and "
                                             "alt(result, 1) == num_of_str(token.string, non_int_type))",
         },
         modifies=[], props=["C07"],
         note="token.NUMBER == 2; the NAME branch (from_word) is not under contract")
