"""PlainUnit operators delegate to the unit containers (C04), and the output-unit table of the NumPy
wrappers for the power-like operations (C16)."""
from pv.decl import cls, contract, lemma, predicate

cls("pint.facets.plain.unit:PlainUnit", fields={"_units": "Ref[UnitsContainer]"})
U = "pint.facets.plain.unit:PlainUnit"

predicate("UWF", ["u: Ref[PlainUnit]"], "allocated(u) and wf(u._units) and exact_class(u._units, 'UnitsContainer')")

contract(f"{U}.__init__",
         params={"self": "Ref[PlainUnit]", "units": "Ref[UnitsContainer]"}, returns="None",
         ensures={"units": "self._units == units"},
         modifies=["fields(self)"],
         note="UnitsContainer argument; str / Unit arguments go through parse_units (C08)",
         props=["C04", "C16"])

contract(f"{U}.__hash__", params={"self": "Ref[PlainUnit]"}, returns="Int",
         requires={"u": "UWF(self)"},
         ensures={"container_hash": "result == hash_items(view(self._units))", "u": "UWF(self)"},
         modifies=["self._units._hash"], props=["C04"])

contract(f"{U}.__pow__",
         params={"self": "Ref[PlainUnit]", "other": "Num"}, returns="Ref[PlainUnit]",
         requires={"u": "UWF(self)"},
         cases=[{"_name": "num", "other": "Num"},
                {"_name": "other", "other": "Other", "_raises": {"TypeError": "True"}, "_ensures": {}}],
         ensures={"fresh": "fresh(result)", "same_class": "same_class(result, self)",
                  "exponents_scaled": "forall[Str](lambda q: view(result._units)[q] == view(self._units)[q] * other)",
                  "u": "UWF(result)", "operand_untouched": "self._units == old(self._units) and view(self._units) == old(view(self._units))"},
         modifies=[], props=["C04", "C16"])

for name, sign in (("__mul__", "+"), ("__truediv__", "-")):
    contract(f"{U}.{name}",
             params={"self": "Ref[PlainUnit]", "other": "Ref[PlainUnit]"}, returns="Ref[PlainUnit]",
             requires={"u": "UWF(self) and UWF(other) and self._REGISTRY == other._REGISTRY and subclass_of(other, self)"},
             ensures={"fresh": "fresh(result)",
                      "exponents": f"forall[Str](lambda q: view(result._units)[q] == view(self._units)[q] {sign} view(other._units)[q])",
                      "u": "UWF(result)",
                      "operands_untouched": "view(self._units) == old(view(self._units)) and view(other._units) == old(view(other._units))"},
             modifies=[], props=["C04"],
             note="unit (x) unit of the same registry; unit (x) quantity / number build a Quantity (not modelled here)")

contract("pint.facets.numpy.numpy_func:get_op_output_unit",
         params={"unit_op": "Str", "first_input_units": "Ref[PlainUnit]", "all_args": "None", "size": "Opt[Num]"},
         returns="Ref[PlainUnit]",
         requires={"u": "UWF(first_input_units)",
                   "ops": "unit_op == 'square' or unit_op == 'sqrt' or unit_op == 'cbrt' or unit_op == 'reciprocal' or unit_op == 'size'"},
         raises={"ValueError": "unit_op == 'size' and is_none(size)"},
         ensures={"power_table": "forall[Str](lambda q: view(result._units)[q] == view(first_input_units._units)[q] * "
                                 "(2 if unit_op == 'square' else (1 / 2 if unit_op == 'sqrt' else (1 / 3 if unit_op == 'cbrt' "
                                 "else (-1 if unit_op == 'reciprocal' else some(size))))))"},
         modifies=[], props=["C16"],
         note="the five power-like unit operations; 'sum', 'mul', 'div', 'delta', 'variance', 'invdiv' build quantities and "
              "iterate over arguments (bounded stand-in c16_numpy)")
