"""C08 / C10: symbols reported for a definition, storing of definitions."""
from pv.decl import cls, contract, lemma, predicate

cls("pint.facets.plain.definitions:PrefixDefinition",
    fields={"name": "Str", "value": "Num", "defined_symbol": "Opt[Str]"})

UD = "pint.facets.plain.definitions:UnitDefinition"
PD = "pint.facets.plain.definitions:PrefixDefinition"
REG = "pint.facets.plain.registry:GenericPlainRegistry"

# the symbol of a definition is the declared symbol, or the name when none (or an empty one) is declared
for key, cname in ((UD, "UnitDefinition"), (PD, "PrefixDefinition")):
    contract(f"{key}.symbol", params={"self": f"Ref[{cname}]"}, returns="Str",
             ensures={"declared_or_name": "result == (self.name if (is_none(self.defined_symbol) or len(some(self.defined_symbol)) == 0) "
                                          "else some(self.defined_symbol))"},
             modifies=[], props=["C08", "C10"])
    contract(f"{key}.has_symbol", params={"self": f"Ref[{cname}]"}, returns="Bool",
             ensures={"def": "result == (not is_none(self.defined_symbol) and len(some(self.defined_symbol)) > 0)"},
             modifies=[], props=["C08", "C10"])

contract(f"{REG}._get_symbol",
         params={"self": "Ref[GenericPlainRegistry]", "name": "Str"}, returns="Str",
         requires={"alloc": "allocated(self) and allocated(self._units)"},
         raises={"KeyError": "not (name in self._units)"},
         ensures={"symbol_of_the_definition": "result == (self._units[name].name if (is_none(self._units[name].defined_symbol) "
                  "or len(some(self._units[name].defined_symbol)) == 0) else some(self._units[name].defined_symbol))"},
         modifies=[], props=["C08"])

# storing a definition (tables without a case-insensitive index: prefixes, dimensions)
cls("pint.facets.plain.definitions:NamedDefinition", fields={})
contract(f"{REG}._helper_single_adder",
         params={"self": "Ref[GenericPlainRegistry]", "key": "Str", "value": "Ref[NamedDefinition]",
                 "target_dict": "Dict[Str,Ref[NamedDefinition]]", "casei_target_dict": "None"},
         returns="None",
         requires={"alloc": "allocated(target_dict)"},
         raises={"RedefinitionError": "key in target_dict and self._on_redefinition == 'raise'"},
         ensures={"stored": "contents(target_dict) == store(old(contents(target_dict)), key, value)"},
         modifies=["contents(target_dict)"], props=["C10"])
