"""C08 / C10: symbols reported for a definition, storing of definitions."""
from pv.decl import cls, contract, lemma, predicate

cls("pint.facets.plain.definitions:PrefixDefinition",
    fields={"name": "Str", "value": "Num", "defined_symbol": "Opt[Str]"})

UD = "pint.facets.plain.definitions:UnitDefinition"
PD = "pint.facets.plain.definitions:PrefixDefinition"
REG = "pint.facets.plain.registry:GenericPlainRegistry"

# the symbol of a definition is the declared symbol, or the name when none (or an empty one) is declared
for key, cname in ((UD, "UnitDefinition"), (PD, "PrefixDefinition")):
    contract(f"{key}.symbol", params={"self": f"Ref[{cname}]"}, returns="Str",
             ensures={"declared_or_name": "result == (self.name if (is_none(self.defined_symbol) or len(some(self.defined_symbol)) == 0) "
                                          "else some(self.defined_symbol))"},
             modifies=[], props=["C08", "C10"])
    contract(f"{key}.has_symbol", params={"self": f"Ref[{cname}]"}, returns="Bool",
             ensures={"def": "result == (not is_none(self.defined_symbol) and len(some(self.defined_symbol)) > 0)"},
             modifies=[], props=["C08", "C10"])

contract(f"{REG}._get_symbol",
         params={"self": "Ref[GenericPlainRegistry]", "name": "Str"}, returns="Str",
         requires={"alloc": "allocated(self) and allocated(self._units)"},
         raises={"KeyError": "not (name in self._units)"},
         ensures={"symbol_of_the_definition": "result == (self._units[name].name if (is_none(self._units[name].defined_symbol) "
                  "or len(some(self._units[name].defined_symbol)) == 0) else some(self._units[name].defined_symbol))"},
         modifies=[], props=["C08"])

# the case-insensitive index: one set object per lower-cased spelling, no set shared between two keys
predicate("index_ok", ["d: DDict[Str,Set[Str]]"], """
    allocated(d) and forall[Str](lambda a: implies(a in d, allocated(d[a])))
    and forall[Str](lambda a: forall[Str](lambda b: implies(a in d and b in d and a != b, d[a] != d[b])))
""")

# storing a definition: the exact table always; the case-insensitive index when the table has one
cls("pint.facets.plain.definitions:NamedDefinition", fields={})
contract(f"{REG}._helper_single_adder",
         params={"self": "Ref[GenericPlainRegistry]", "key": "Str", "value": "Ref[NamedDefinition]",
                 "target_dict": "Dict[Str,Ref[NamedDefinition]]", "casei_target_dict": "None"},
         returns="None",
         requires={"alloc": "allocated(target_dict)"},
         raises={"RedefinitionError": "key in target_dict and self._on_redefinition == 'raise'"},
         cases=[
             {"_name": "no_index"},
             {"_name": "unit_no_index", "value": "Ref[UnitDefinition]", "target_dict": "Dict[Str,Ref[UnitDefinition]]"},
             {"_name": "casei", "value": "Ref[UnitDefinition]", "target_dict": "Dict[Str,Ref[UnitDefinition]]",
              "casei_target_dict": "DDict[Str,Set[Str]]",
              "_requires": ["index_ok(casei_target_dict)"],
              "_add_ensures": {"indexed": "key in casei_target_dict[key.lower()]", "index_ok": "index_ok(casei_target_dict)",
                               "index_view": "forall[Str](lambda k: forall[Str](lambda e: (k in casei_target_dict and e in casei_target_dict[k]) "
                                             "== (old(k in casei_target_dict and e in casei_target_dict[k]) or (k == key.lower() and e == key))))"},
              "_modifies": ["contents(target_dict)", "contents(casei_target_dict)", "contents(casei_target_dict[key.lower()])"]},
         ],
         ensures={"stored": "contents(target_dict) == store(old(contents(target_dict)), key, value)"},
         modifies=["contents(target_dict)"], props=["C10", "C08"])

# ---- as_delta: an explicit argument wins, None means the registry default (C08 "unless that is disabled", C06)
from pv.decl import specfn  # noqa: E402

NM = "pint.facets.nonmultiplicative.registry:GenericNonMultiplicativeRegistry"
cls(NM, fields={"default_as_delta": "Bool"})
specfn("ParseUC", ["Ref[GenericPlainRegistry]", "Str", "Bool", "Opt[Bool]"], "Ref[UnitsContainer]")
contract(f"{REG}.parse_units_as_container",
         params={"self": "Ref[GenericPlainRegistry]", "input_string": "Str", "as_delta": "Bool", "case_sensitive": "Opt[Bool]"},
         returns="Ref[UnitsContainer]",
         ensures={"def": "result == ParseUC(self, input_string, as_delta, case_sensitive)"},
         allow_exc=("UndefinedUnitError", "DefinitionSyntaxError", "ValueError"),
         modifies=[], trusted=True,
         note="the plain parser (regex + tokenizer + name resolution) is named by a spec function; what it does is bounded (c08_names)",
         props=["C08", "C06"])
contract(f"{NM}.parse_units_as_container",
         params={"self": "Ref[GenericNonMultiplicativeRegistry]", "input_string": "Str", "as_delta": "Opt[Bool]",
                 "case_sensitive": "Opt[Bool]"},
         returns="Ref[UnitsContainer]",
         ensures={"explicit_argument_wins": "result == ParseUC(self, input_string, "
                  "(self.default_as_delta if is_none(as_delta) else some(as_delta)), case_sensitive)"},
         allow_exc=("UndefinedUnitError", "DefinitionSyntaxError", "ValueError"),
         modifies=[], props=["C08", "C06"])

# ---- @alias: every alias is stored for exact AND case-insensitive lookup, bound to the aliased unit's definition
cls("pint.facets.plain.definitions:AliasDefinition", fields={"name": "Str", "aliases": "Seq[Str]"})

contract(f"{REG}._add_alias",
         params={"self": "Ref[GenericPlainRegistry]", "definition": "Ref[AliasDefinition]"}, returns="None",
         requires={"alloc": "allocated(self) and allocated(definition) and allocated(self._units) and index_ok(self._units_casei)"},
         raises={"KeyError": "not (definition.name in self._units)"},
         allow_exc=("RedefinitionError",),
         ensures={
             "aliases_bound_to_the_unit": "forall[Int](lambda j: implies(0 <= j and j < len(definition.aliases), "
                                          "definition.aliases[j] in self._units and "
                                          "self._units[definition.aliases[j]] == old(self._units[definition.name])))",
             "aliases_in_case_insensitive_index": "forall[Int](lambda j: implies(0 <= j and j < len(definition.aliases), "
                                                  "definition.aliases[j].lower() in self._units_casei and "
                                                  "definition.aliases[j] in self._units_casei[definition.aliases[j].lower()]))",
             "nothing_forgotten": "forall[Str](lambda k: implies(old(k in self._units), k in self._units))",
             "index_ok": "index_ok(self._units_casei)"},
         loops={0: dict(invariant={"same": "$u == old(self._units[definition.name])"}, modifies=[]),
                1: dict(invariant={
                    "bound": "forall[Int](lambda j: implies(0 <= j and j < idx, definition.aliases[j] in self._units and "
                             "self._units[definition.aliases[j]] == $u))",
                    "indexed": "forall[Int](lambda j: implies(0 <= j and j < idx, definition.aliases[j].lower() in self._units_casei "
                               "and definition.aliases[j] in self._units_casei[definition.aliases[j].lower()]))",
                    "kept": "forall[Str](lambda k: implies(old(k in self._units), k in self._units))",
                    "index_ok": "index_ok(self._units_casei) and allocated(self._units)",
                    "iter": "iterated == definition.aliases"},
                    modifies=["contents(self._units)", "contents(self._units_casei)", "allof(Set[Str])"])},
         bind={"u": "unit_dict[definition.name]"},
         modifies=["contents(self._units)", "contents(self._units_casei)", "allof(Set[Str])"], props=["C08", "C10"])
