"""C14 / C13: membership-memo discipline of Group objects (imported last: the class `Group` gets the highest class id, so the
class ids - and with them the verification conditions - of every other module stay what they were)."""
from pv.decl import cls, contract, predicate

cls("pint.facets.group.objects:Group",
    fields={"name": "Str", "_unit_names": "Set[Str]", "_used_groups": "Set[Str]", "_used_by": "Set[Str]",
            "_computed_members": "Opt[Set[Str]]"})
GR = "pint.facets.group.objects:Group"
SY = "pint.facets.system.objects:System"

# --------------------------------------------------------------------------- membership memo discipline (Group)

predicate("group_ok", ["g: Ref[Group]"],
          "allocated(g) and allocated(g._unit_names) and allocated(g._used_groups) and allocated(g._used_by) "
          "and g._unit_names != g._used_groups and g._unit_names != g._used_by and g._used_groups != g._used_by")
# the group table of a registry: every registered group belongs to this registry, is well-formed, and whatever uses it
# is registered too; registered systems are allocated
predicate("groups_wf", ["r: Ref[GenericPlainRegistry]"], """
    allocated(r) and is_a(r, 'GenericSystemRegistry') and allocated(r._groups)
    and forall[Str](lambda n: implies(n in r._groups, group_ok(r._groups[n]) and r._groups[n]._REGISTRY == r and r._groups[n].name == n
                                      and forall[Str](lambda m: implies(m in r._groups[n]._used_by, m in r._groups), "m in r._groups[n]._used_by")),
                    "r._groups[n]")
    and forall[Str,Str](lambda n, m: implies(n in r._groups and m in r._groups,
                                             r._groups[n]._unit_names != r._groups[m]._used_by
                                             and r._groups[n]._unit_names != r._groups[m]._used_groups
                                             and r._groups[n]._used_groups != r._groups[m]._used_by),
                        ("r._groups[n]", "r._groups[m]"))
    and implies(is_a(r, 'GenericSystemRegistry'), allocated(r._systems)
                and forall[Str](lambda s: implies(s in r._systems, allocated(r._systems[s]))))
""")
_GMOD = ["allof(Group._computed_members)", "allof(System._computed_members)"]
_MONO = "forall[Ref[Group]](lambda g: implies(old(is_none(g._computed_members)), is_none(g._computed_members)))"
_DROPPED = {
    "memo_dropped": "is_none(self._computed_members)",
    # one level up: every group that uses this one has lost its memo as well (and so on, by the same contract)
    "users_dropped": "forall[Str](lambda n: implies(n in self._used_by, is_none(self._REGISTRY._groups[n]._computed_members)))",
    # every system memo is dropped (a system memoises the union of its groups' members)
    "systems_dropped": "implies(is_a(self._REGISTRY, 'GenericSystemRegistry'), forall[Str](lambda s: implies(s in self._REGISTRY._systems, "
                       "is_none(self._REGISTRY._systems[s]._computed_members))))",
    # no memo is ever *set* by an invalidation
    "monotone": _MONO,
}
_SYSMONO = "forall[Ref[System]](lambda y: implies(old(is_none(y._computed_members)), is_none(y._computed_members)))"
_PRE = {"ok": "group_ok(self) and groups_wf(self._REGISTRY) and self.name in self._REGISTRY._groups "
              "and self._REGISTRY._groups[self.name] == self"}

contract(f"{GR}.invalidate_members", params={"self": "Ref[Group]"}, returns="None",
         requires=dict(_PRE),
         ensures=dict(_DROPPED, sysmono=_SYSMONO),
         loops={0: dict(invariant={
                    "self": "is_none(self._computed_members)",
                    "done": "forall[Str](lambda n: implies(n in processed, is_none(self._REGISTRY._groups[n]._computed_members)))",
                    "monotone": _MONO, "sysmono": _SYSMONO},
                    modifies=_GMOD),
                1: dict(invariant={
                    "self": "is_none(self._computed_members)",
                    "users": "forall[Str](lambda n: implies(n in self._used_by, is_none(self._REGISTRY._groups[n]._computed_members)))",
                    "done": "forall[Str](lambda s: implies(s in processed, is_none(self._REGISTRY._systems[s]._computed_members)))",
                    "monotone": _MONO, "sysmono": _SYSMONO},
                    modifies=["allof(System._computed_members)"])},
         modifies=_GMOD, props=["C14", "C13"])

_INSEQ = "exists[Int](lambda j: 0 <= j and j < {n} and unit_names[j] == u)"
for _fn, _eff in (("add_units", "(old(u in self._unit_names) or {inseq})"),
                  ("remove_units", "(old(u in self._unit_names) and not {inseq})")):
    contract(f"{GR}.{_fn}", params={"self": "Ref[Group]", "unit_names": "Seq[Str]"}, returns="None",
             requires=dict(_PRE),
             allow_exc=(("KeyError",) if _fn == "remove_units" else ()),
             ensures=dict(_DROPPED, own_units="forall[Str](lambda u: (u in self._unit_names) == "
                                              + _eff.format(inseq=_INSEQ.format(n="len(unit_names)")) + ")"),
             loops={0: dict(invariant={"units": "forall[Str](lambda u: (u in self._unit_names) == "
                                                + _eff.format(inseq=_INSEQ.format(n="idx")) + ")",
                                       "iter": "iterated == unit_names"},
                            modifies=["contents(self._unit_names)"])},
             modifies=_GMOD + ["contents(self._unit_names)"], props=["C14", "C13"])

# --------------------------------------------------------------------------- edits of the `using` relation
# `_used_groups` (downwards) and `_used_by` (upwards) are two views of one relation; invalidation walks `_used_by`, so an edit
# that updates only one of them leaves memos of users stale.  Both edits are verified to update both views and to drop memos.
contract(f"{GR}.is_used_group", params={"self": "Ref[Group]", "group_name": "Str"}, returns="Bool",
         requires={"alloc": "allocated(self)"}, ensures={}, modifies=[], trusted=True,
         note="cycle test over the generator iter_used_groups (worklist with set.pop()); which groups are reached is bounded "
              "(c14_systems: every `using` DAG on <= 4 groups); here only: it modifies nothing",
         props=["C14"])

_INSEQ_G = "exists[Int](lambda j: 0 <= j and j < {n} and group_names[j] == g)"
contract(f"{GR}.add_groups", params={"self": "Ref[Group]", "group_names": "Seq[Str]"}, returns="None",
         requires=dict(_PRE),
         allow_exc=("KeyError", "ValueError"),
         ensures=dict(_DROPPED,
                      used="forall[Str](lambda g: (g in self._used_groups) == (old(g in self._used_groups) or "
                           + _INSEQ_G.format(n="len(group_names)") + "))",
                      used_by="forall[Int](lambda j: implies(0 <= j and j < len(group_names), "
                              "self.name in self._REGISTRY._groups[group_names[j]]._used_by))",
                      wf="groups_wf(self._REGISTRY)"),
         loops={0: dict(invariant={
                    "used": "forall[Str](lambda g: (g in self._used_groups) == (old(g in self._used_groups) or "
                            + _INSEQ_G.format(n="idx") + "))",
                    "used_by": "forall[Int](lambda j: implies(0 <= j and j < idx, "
                               "self.name in self._REGISTRY._groups[group_names[j]]._used_by))",
                    "wf": "groups_wf(self._REGISTRY) and group_ok(self) and self.name in self._REGISTRY._groups "
                          "and self._REGISTRY._groups[self.name] == self",
                    "iter": "iterated == group_names"},
                    hints={
                        "noalias": "self._used_groups != self._REGISTRY._groups[iterated[idx]]._used_by",
                        "added": "iterated[idx] in self._used_groups",
                        "kept": "forall[Str](lambda g: implies(g in at_head(contents(self._used_groups)), g in self._used_groups))",
                        "only": "forall[Str](lambda g: implies(g in self._used_groups, g in at_head(contents(self._used_groups)) or g == iterated[idx]))",
                    },
                    modifies=["allof(Set[Str])"])},
         modifies=_GMOD + ["allof(Set[Str])"], props=["C14", "C13"])

contract(f"{GR}.remove_groups", params={"self": "Ref[Group]", "group_names": "Seq[Str]"}, returns="None",
         requires=dict(_PRE),
         allow_exc=("KeyError",),
         ensures=dict(_DROPPED,
                      used="forall[Str](lambda g: (g in self._used_groups) == (old(g in self._used_groups) and not "
                           + _INSEQ_G.format(n="len(group_names)") + "))",
                      wf="groups_wf(self._REGISTRY)"),
         loops={0: dict(invariant={
                    "used": "forall[Str](lambda g: (g in self._used_groups) == (old(g in self._used_groups) and not "
                            + _INSEQ_G.format(n="idx") + "))",
                    "wf": "groups_wf(self._REGISTRY) and group_ok(self) and self.name in self._REGISTRY._groups "
                          "and self._REGISTRY._groups[self.name] == self",
                    "iter": "iterated == group_names"},
                    modifies=["allof(Set[Str])"])},
         modifies=_GMOD + ["allof(Set[Str])"], props=["C14", "C13"])
