"""C13: memoisation that no state change can invalidate must not sit on state-dependent methods."""
import ast

from pv import source
from pv.decl import structural

_STATEFUL_SUFFIXES = ("Registry", "Group", "System", "Context", "ContextChain", "RegistryCache")
_MEMO = {"lru_cache", "cache", "cached_property"}


def _no_process_wide_memo_on_stateful_methods():
    """A functools.lru_cache / cache / cached_property on a method of a registry, group, system or context class
    memoises on (self, args) for the life of the process and cannot see definitions added, contexts switched or
    defaults changed later.  (The three known process-wide memos -- ParserHelper.from_string, pattern_to_regex,
    _split_format -- are pure functions of their arguments; PrefixDefinition.converter belongs to a frozen dataclass.)"""
    import os

    from pv import REPO

    problems, scanned = [], 0
    for root, _dirs, files in os.walk(os.path.join(REPO, "pint")):
        if "testsuite" in root:
            continue
        for f in files:
            if not f.endswith(".py"):
                continue
            path = os.path.join(root, f)
            tree = ast.parse(open(path, encoding="utf-8").read())
            for c in ast.walk(tree):
                if not isinstance(c, ast.ClassDef) or not c.name.endswith(_STATEFUL_SUFFIXES):
                    continue
                for fn in c.body:
                    if not isinstance(fn, (ast.FunctionDef, ast.AsyncFunctionDef)):
                        continue
                    scanned += 1
                    for d in fn.decorator_list:
                        name = ast.unparse(d.func if isinstance(d, ast.Call) else d).split(".")[-1]
                        if name in _MEMO:
                            problems.append(f"{os.path.relpath(path, REPO)}:{c.name}.{fn.name} is decorated with {ast.unparse(d)}")
    return (not problems), "; ".join(problems) or f"{scanned} methods of stateful classes scanned: none carries a process-wide memo"


structural("no_process_wide_memo_on_stateful_methods", _no_process_wide_memo_on_stateful_methods, props=["C13"])
