"""C17: classification of unit specs in wraps(): a string containing '=' is a reference ('=A', '=A*B')."""
from pv.decl import contract, specfn

specfn("ParsedKeys", ["Str"], "SetV[Str]")     # what to_units_container makes of a unit string (C07/C08)
specfn("ParsedVals", ["Str"], "Arr[Str,Num]")

contract("pint.util:to_units_container",
         params={"unit_like": "Str", "registry": "Opt[Ref[GenericPlainRegistry]]"}, returns="Ref[UnitsContainer]",
         cases=[
             {"_name": "string", "unit_like": "Str",
              "_ensures": {"parsed": "fresh(result) and keys(result._d) == ParsedKeys(unit_like) and vals(view(result)) == ParsedVals(unit_like)"}},
             {"_name": "container", "unit_like": "Ref[UnitsContainer]", "_ensures": {"identity": "result == unit_like"}},
             {"_name": "empty_dict", "unit_like": "Opaque", "registry": "Ref[GenericPlainRegistry]",
              "_ensures": {"dimensionless": "fresh(result) and wf(result) and names_ok(result) and exact_class(result, 'UnitsContainer') "
                                            "and dims_ok(result, registry) and AllMult(registry, result) "
                                            "and forall[Str](lambda q: view(result)[q] == 0)",
                           # consequences of having no entries (DimS / FacS over the empty support), stated for the solvers
                           "no_dimension": "forall[Str](lambda b: DimOf(b, result) == 0)", "unit_factor": "FacOf(result, 1) == 1"}},
         ],
         modifies=[], trusted=True,
         note="string branch: ParserHelper.from_string / registry.parse_units_as_container (the parser, C07/C08); "
              "a UnitsContainer is returned as it is (`if UnitsContainer in type(unit_like).mro(): return unit_like`); the only "
              "dict passed by verified callers is the literal {} (registry.UnitsContainer({}): the dimensionless container)",
         props=["C17", "C02"])

contract("pint.registry_helpers:_to_units_container",
         params={"a": "Str", "registry": "Opt[Ref[GenericPlainRegistry]]"},
         returns="Tuple[Ref[UnitsContainer],Bool]",
         ensures={
             # '=' marks a reference; what follows the FIRST '=' is the expression that is parsed
             "is_reference_iff_equal_sign": "result[1] == ('=' in a)",
             "reference_text": "implies('=' in a, keys(result[0]._d) == ParsedKeys(after_first(a, '=')) "
                               "and vals(view(result[0])) == ParsedVals(after_first(a, '=')))",
             "plain_text": "implies(not ('=' in a), keys(result[0]._d) == ParsedKeys(a) and vals(view(result[0])) == ParsedVals(a))",
         },
         modifies=[], props=["C17"],
         note="string specs; Unit / None specs go straight to to_units_container")
