"""Contracts for PlainQuantity comparison / equality / memoised dimensionality (C05, C03, C13, C15).

Scalar magnitudes only (A6: ndarray magnitudes are element-wise lifts).  The `check_implemented`
decorator passes every operand modelled here straight through (it intercepts upcast types and lists
of quantities only)."""
from pv.decl import cls, contract, lemma, predicate, specfn

cls("pint.facets.plain.quantity:PlainQuantity",
    fields={"_magnitude": "Num", "_units": "Ref[UnitsContainer]", "_dimensionality": "Opt[Ref[UnitsContainer]]",
            "_dimensionality_units": "Opt[Ref[UnitsContainer]]"})

Q = "pint.facets.plain.quantity:PlainQuantity"
specfn("q_mult", ["Ref[PlainQuantity]"], "Bool")   # the quantity has only multiplicative units

# registry + caches well-formed (what every conversion needs)
predicate("RegAll", ["r: Ref[GenericPlainRegistry]"],
          "RegDim(r) and RegFac(r) and CacheDimOK(r) and CacheRootOK(r) and CacheFacOK(r)")
# physical value of a multiplicative quantity: magnitude times the factor of its units
predicate("Phys", ["q: Ref[PlainQuantity]"], "q._magnitude * FacOf(q._units, 1)")
predicate("QWF", ["q: Ref[PlainQuantity]"], """
    allocated(q) and wf(q._units) and names_ok(q._units) and exact_class(q._units, 'UnitsContainer')
    and dims_ok(q._units, q._REGISTRY)
    and RegAll(q._REGISTRY) and FacOf(q._units, 1) > 0
    and AllMult(q._REGISTRY, q._units) and not truthy(q._REGISTRY._active_ctx)
    and q._REGISTRY == reg_of_class(q)
    and implies(not is_none(q._dimensionality) and not is_none(q._dimensionality_units),
                wf(some(q._dimensionality)) and wf(some(q._dimensionality_units)) and names_ok(some(q._dimensionality_units))
                and forall[Str](lambda b: view(some(q._dimensionality))[b]
                                          == (0 if b == '[]' else DimOf(b, some(q._dimensionality_units)))))
""")
predicate("SameDim", ["a: Ref[PlainQuantity]", "b: Ref[PlainQuantity]"],
          "forall[Str](lambda d: implies(d != '[]', DimOf(d, a._units) == DimOf(d, b._units)))")

# ---- compat helpers (scalars)
contract("pint.compat:is_duck_array_type", params={"cls": "Opaque"}, returns="Bool",
         ensures={"scalar": "result == False"}, modifies=[], trusted=True,
         note="A6: only scalar magnitudes are modelled; their types are not duck arrays", props=["C05", "C03"])
contract("pint.compat:isnan", params={"obj": "Num", "check_all": "Bool"}, returns="Bool",
         ensures={"never": "result == False"}, modifies=[], trusted=True,
         note="A5: modelled magnitudes are non-NaN reals", props=["C05", "C03"])
contract("pint.compat:eq", params={"lhs": "Num", "rhs": "Num", "check_all": "Bool"}, returns="Bool",
         ensures={"def": "result == (lhs == rhs)"}, modifies=[], props=["C05", "C03"])
contract("pint.compat:zero_or_nan", params={"obj": "Num", "check_all": "Bool"}, returns="Int",
         ensures={"def": "(result != 0) == (obj == 0)"}, modifies=[], props=["C05", "C03"])

# ---- assumed: rests on registry.convert -> _convert (verified for the plain layer in c01_registry; the
# non-multiplicative and context layers defer to it when no offset unit / no context is involved)
contract(f"{Q}._convert_magnitude_not_inplace",
         params={"self": "Ref[PlainQuantity]", "other": "Ref[UnitsContainer]", "contexts": "Seq[Str]", "ctx_kwargs": "None"},
         returns="Num",
         requires={"q": "QWF(self)", "other": "wf(other) and names_ok(other) and exact_class(other, 'UnitsContainer') "
                                              "and dims_ok(other, self._REGISTRY) and AllMult(self._REGISTRY, other) "
                                              "and FacOf(other, 1) > 0",
                   "noctx": "len(contexts) == 0"},
         raises={"DimensionalityError": "exists[Str](lambda b: b != '[]' and DimOf(b, self._units) != DimOf(b, other))"},
         ensures={"value": "result == self._magnitude * FacDiff(keys(self._units._d), vals(view(self._units)), "
                           "keys(other._d), vals(view(other)))",
                  # the same fact in product form (what callers that add or compare converted magnitudes need)
                  "value_scaled": "result * FacOf(other, 1) == self._magnitude * FacOf(self._units, 1)",
                  "q": "QWF(self)", "reg": "RegAll(self._REGISTRY)", "hashes": "HashesKept()"},
         modifies=["contents(self._REGISTRY._cache.dimensionality)", "contents(self._REGISTRY._cache.root_units)",
                   "contents(self._REGISTRY._cache.conversion_factor)", "allof(UnitsContainer._hash)"],
         allow_exc=("UndefinedUnitError", "OffsetUnitCalculusError", "KeyError", "TypeError", "ArithmeticError"),
         theories=("lin", "fac", "facdiff"),
         note="multiplicative units, no context: registry.convert -> Context / NonMultiplicative / plain _convert, all verified "
              "(c02_chain, c01_registry)",
         props=["C05", "C03", "C15", "C02"])

contract(f"{Q}.to_root_units",
         params={"self": "Ref[PlainQuantity]"}, returns="Ref[PlainQuantity]",
         requires={"q": "QWF(self)"},
         ensures={"fresh": "fresh(result)", "registry": "result._REGISTRY == self._REGISTRY",
                  "magnitude": "result._magnitude == Phys(self)",
                  "root": "forall[Str](lambda q: view(result._units)[q] == RootOf(q, self._units))",
                  "q": "QWF(self)", "hashes": "HashesKept()"},
         modifies=["contents(self._REGISTRY._cache.dimensionality)", "contents(self._REGISTRY._cache.root_units)",
                   "contents(self._REGISTRY._cache.conversion_factor)", "allof(UnitsContainer._hash)"],
         trusted=True,
         note="_get_root_units and _convert_magnitude_not_inplace are verified; assumed here: that the root-unit container is itself a well-formed multiplicative container of factor 1, and the Quantity constructor",
         props=["C05", "C03", "C15"])

contract(f"{Q}.dimensionality",
         params={"self": "Ref[PlainQuantity]"}, returns="Ref[UnitsContainer]",
         requires={"q": "QWF(self)"},
         allow_exc=("UndefinedUnitError", "OffsetUnitCalculusError"),
         ensures={
             "wf": "wf(result)",
             # the per-object memo never changes the answer: it is Dim(self._units)
             "dim": "forall[Str](lambda b: view(result)[b] == (0 if b == '[]' else DimOf(b, self._units)))",
             "q": "QWF(self)",
         },
         modifies=["self._dimensionality", "self._dimensionality_units", "contents(self._REGISTRY._cache.dimensionality)"],
         props=["C05", "C13", "C01"])

_cmp_ens = lambda sym: {
    "ordered_by_physical_value": f"result == (Phys(self) {sym} Phys(other))",
    "hashes": "HashesKept()",
}
contract(f"{Q}.compare",
         params={"self": "Ref[PlainQuantity]", "other": "Ref[PlainQuantity]", "op": "OpLt"},
         returns="Bool",
         requires={"q": "QWF(self)", "o": "QWF(other)", "distinct": "self != other"},
         raises={"ValueError": "self._REGISTRY != other._REGISTRY",
                 "DimensionalityError": "self._REGISTRY == other._REGISTRY and not SameDim(self, other)"},
         cases=[{"_name": n, "op": t, "_add_ensures": _cmp_ens(s)} for n, t, s in
                (("lt", "OpLt", "<"), ("le", "OpLe", "<="), ("gt", "OpGt", ">"), ("ge", "OpGe", ">="))],
         allow_exc=("UndefinedUnitError", "OffsetUnitCalculusError"),
         modifies=["self._dimensionality", "other._dimensionality", "self._dimensionality_units", "other._dimensionality_units",
                   "contents(self._REGISTRY._cache.dimensionality)", "contents(self._REGISTRY._cache.root_units)",
                   "contents(self._REGISTRY._cache.conversion_factor)", "allof(UnitsContainer._hash)"],
         theories=("lin", "fac"),
         props=["C05", "C03"])

contract(f"{Q}.magnitude", params={"self": "Ref[PlainQuantity]"}, returns="Num", pure=True,
         ensures={"def": "result == self._magnitude"}, modifies=[], props=["C05", "C03"])

# ---- hashing goes through base units (of the current default system)
specfn("BaseFac", ["SetV[Str]", "Arr[Str,Num]"], "Num")       # factor from the units to the system's base units
specfn("BaseKeys", ["SetV[Str]", "Arr[Str,Num]"], "SetV[Str]")
specfn("BaseVals", ["SetV[Str]", "Arr[Str,Num]"], "Arr[Str,Num]")
predicate("is_dimless", ["q: Ref[PlainQuantity]"], "forall[Str](lambda b: implies(b != '[]', DimOf(b, q._units) == 0))")

contract(f"{Q}.to_base_units",
         params={"self": "Ref[PlainQuantity]"}, returns="Ref[PlainQuantity]",
         requires={"q": "QWF(self)"},
         ensures={"fresh": "fresh(result) and same_class(result, self)", "registry": "result._REGISTRY == self._REGISTRY",
                  "magnitude": "result._magnitude == self._magnitude * BaseFac(keys(self._units._d), vals(view(self._units)))",
                  "units": "keys(result._units._d) == BaseKeys(keys(self._units._d), vals(view(self._units))) and "
                           "vals(view(result._units)) == BaseVals(keys(self._units._d), vals(view(self._units)))",
                  "same_dim": "SameDim(result, self)", "q": "QWF(self) and QWF(result)", "hashes": "HashesKept()"},
         modifies=["contents(self._REGISTRY._cache.dimensionality)", "contents(self._REGISTRY._cache.root_units)",
                   "contents(self._REGISTRY._cache.conversion_factor)", "allof(UnitsContainer._hash)"],
         trusted=True,
         note="_get_base_units of the default system (C14) + conversion (C02); BaseFac / BaseKeys / BaseVals name its result",
         props=["C05", "C14"])

contract(f"{Q}.units", params={"self": "Ref[PlainQuantity]"}, returns="Ref[PlainUnit]",
         requires={"q": "QWF(self)"},
         ensures={"fresh": "fresh(result)", "same_units": "result._units == self._units", "u": "UWF(result)"},
         modifies=[], trusted=True, note="self._REGISTRY.Unit(self._units)", props=["C05"])

contract(f"{Q}.__hash__",
         params={"self": "Ref[PlainQuantity]"}, returns="Int",
         requires={"q": "QWF(self)"},
         ensures={
             # equal quantities are converted to the same base magnitude and base units before hashing, so they hash equal
             "hash_of_base_form": "result == (hash_num(self._magnitude * BaseFac(keys(self._units._d), vals(view(self._units)))) "
                                  "if is_dimless(self) else "
                                  "hash_tuple3(self, self._magnitude * BaseFac(keys(self._units._d), vals(view(self._units))), "
                                  "hash_items_kv(BaseKeys(keys(self._units._d), vals(view(self._units))), "
                                  "BaseVals(keys(self._units._d), vals(view(self._units))))))",
         },
         modifies=["contents(self._REGISTRY._cache.dimensionality)", "contents(self._REGISTRY._cache.root_units)",
                   "contents(self._REGISTRY._cache.conversion_factor)", "allof(UnitsContainer._hash)", "self._dimensionality", "self._dimensionality_units"],
         props=["C05"])

# ---- equality of two multiplicative quantities: same dimensionality and same physical value
contract(f"{Q}._is_multiplicative", params={"self": "Ref[PlainQuantity]"}, returns="Bool", pure=True,
         ensures={"def": "result == q_mult(self)"}, modifies=[], trusted=True,
         note="dynamic dispatch: True in the plain facet, overridden by the non-multiplicative facet", props=["C05"])

contract(f"{Q}.__eq__",
         params={"self": "Ref[PlainQuantity]", "other": "Ref[PlainQuantity]"}, returns="Bool",
         requires={"q": "QWF(self)", "o": "QWF(other)", "distinct": "self != other",
                   "same_registry": "self._REGISTRY == other._REGISTRY",
                   "multiplicative": "q_mult(self) and q_mult(other)"},
         ensures={"equal_iff_same_dimension_and_value": "result == (SameDim(self, other) and Phys(self) == Phys(other))",
                  "hashes": "HashesKept()"},
         allow_exc=("UndefinedUnitError", "OffsetUnitCalculusError", "KeyError", "TypeError", "ArithmeticError"),
         modifies=["self._dimensionality", "other._dimensionality", "self._dimensionality_units", "other._dimensionality_units",
                   "contents(self._REGISTRY._cache.dimensionality)", "contents(self._REGISTRY._cache.root_units)",
                   "contents(self._REGISTRY._cache.conversion_factor)", "allof(UnitsContainer._hash)"],
         theories=("lin", "fac", "facdiff"),
         props=["C05"])
