"""C18: registry identity check (deductive) and reduce/init agreement of pint's exception types (structural)."""
import ast

from pv import source
from pv.decl import cls, contract, lemma, structural

cls("pint.util:SharedRegistryObject", fields={"_REGISTRY": "Ref[GenericPlainRegistry]"})

contract("pint.util:SharedRegistryObject._check",
         params={"self": "Ref[SharedRegistryObject]", "other": "Ref[SharedRegistryObject]"},
         returns="Bool",
         cases=[
             {"_name": "registry_object", "other": "Ref[SharedRegistryObject]",
              "_raises": {"ValueError": "self._REGISTRY != other._REGISTRY"},
              "_ensures": {"same_registry": "result == True and self._REGISTRY == other._REGISTRY"}},
             {"_name": "number", "other": "Num", "_ensures": {"false": "result == False"}},
             {"_name": "other_object", "other": "Other", "_ensures": {"false": "result == False"}},
             {"_name": "none", "other": "None", "_ensures": {"false": "result == False"}},
         ],
         modifies=[], props=["C18", "C03", "C05"])


# ---- exception types: cls(*obj.__reduce__()[1]) rebuilds the same fields --------------------------------------
def _exception_reduce_shapes():
    """For every class in pint/errors.py that defines __reduce__: __reduce__ returns
    (self.__class__, (self.a, self.b, ...)) where a, b, ... are exactly the parameters of __init__ in order,
    and __init__ stores every parameter p in self.p (directly, or normalised by an idempotent tuple()/(p,) form)."""
    tree, _ = source.module_ast("pint.errors")
    problems, checked = [], 0
    for c in tree.body:
        if not isinstance(c, ast.ClassDef):
            continue
        meths = {n.name: n for n in c.body if isinstance(n, ast.FunctionDef)}
        if "__reduce__" not in meths:
            continue
        checked += 1
        red = meths["__reduce__"]
        rets = [n for n in ast.walk(red) if isinstance(n, ast.Return)]
        if len(rets) != 1 or not isinstance(rets[0].value, ast.Tuple) or len(rets[0].value.elts) != 2:
            problems.append(f"{c.name}.__reduce__: not `return cls, (args)`")
            continue
        head, args = rets[0].value.elts
        if ast.unparse(head) != "self.__class__" or not isinstance(args, ast.Tuple):
            problems.append(f"{c.name}.__reduce__: head is {ast.unparse(head)}")
            continue
        red_fields = []
        for e in args.elts:
            if isinstance(e, ast.Attribute) and isinstance(e.value, ast.Name) and e.value.id == "self":
                red_fields.append(e.attr)
            else:
                problems.append(f"{c.name}.__reduce__: argument {ast.unparse(e)} is not a field of self")
        init = meths.get("__init__")
        if init is None:
            problems.append(f"{c.name}: __reduce__ without __init__")
            continue
        params = [a.arg for a in init.args.args[1:]]
        if red_fields != params:
            problems.append(f"{c.name}: __reduce__ passes {red_fields}, __init__ takes {params}")
        stored = {}
        for n in ast.walk(init):
            if isinstance(n, ast.Assign) and len(n.targets) == 1 and isinstance(n.targets[0], ast.Attribute) \
                    and isinstance(n.targets[0].value, ast.Name) and n.targets[0].value.id == "self":
                stored.setdefault(n.targets[0].attr, []).append(ast.unparse(n.value))
        for p in params:
            vals = stored.get(p)
            if not vals:
                problems.append(f"{c.name}.__init__ does not store parameter {p}")
            elif not all(v in (p, f"tuple({p})", f"({p},)") for v in vals):
                problems.append(f"{c.name}.__init__ stores {p} as {vals}")
    if checked < 8:
        problems.append(f"only {checked} exception classes with __reduce__ found (expected >= 8)")
    return (not problems), "; ".join(problems) or f"{checked} exception classes: reduce arguments == init parameters == stored fields"


structural("errors.reduce_matches_init", _exception_reduce_shapes, props=["C18"])


def _operator_heads_check_registry():
    """Every binary operator implementation of PlainQuantity that combines two quantities calls self._check(other)
    (directly or through a helper that does) before computing."""
    tree, _ = source.module_ast("pint.facets.plain.quantity")
    qcls = next(n for n in tree.body if isinstance(n, ast.ClassDef) and n.name == "PlainQuantity")
    meths = {n.name: n for n in qcls.body if isinstance(n, ast.FunctionDef)}

    def calls_check(fn, seen=()):
        for n in ast.walk(fn):
            # inline form of the same test:  if self._REGISTRY is not other._REGISTRY: raise ValueError(...)
            if isinstance(n, ast.If) and ast.unparse(n.test) == "self._REGISTRY is not other._REGISTRY" \
                    and any(isinstance(b, ast.Raise) and "ValueError" in ast.unparse(b) for b in n.body):
                return True
            if isinstance(n, ast.Call) and isinstance(n.func, ast.Attribute) and isinstance(n.func.value, ast.Name) \
                    and n.func.value.id == "self":
                if n.func.attr == "_check":
                    return True
                if n.func.attr in meths and n.func.attr not in seen and calls_check(meths[n.func.attr], seen + (fn.name,)):
                    return True
        return False

    need = ["_add_sub", "_iadd_sub", "_mul_div", "_imul_div", "__floordiv__", "__ifloordiv__", "__mod__", "__imod__",
            "__divmod__", "compare"]  # (== across registries is not required to raise; ** is a recorded finding)
    missing = [m for m in need if m in meths and not calls_check(meths[m])]
    absent = [m for m in need if m not in meths]
    ok = not missing and not absent
    return ok, (f"no _check call in: {missing}; not found: {absent}" if not ok else
                f"{len(need)} operator implementations reach self._check(other)")


structural("quantity.binary_operators_reach_check", _operator_heads_check_registry, props=["C18"])


# ---- copy hooks of quantities (scalar magnitudes): a copy is a fresh object of the same class and registry with the same
# magnitude and the same units; the original is untouched
from pv.decl import CONTRACTS  # noqa: E402

Q = "pint.facets.plain.quantity:PlainQuantity"
contract("copy:copy", params={"x": "Num"}, returns="Num", ensures={"same": "result == x"}, modifies=[], trusted=True,
         note="copy.copy of a scalar magnitude (int, float, Fraction, Decimal are immutable: the value itself)", props=["C18"])
contract(f"{Q}.__copy__", params={"self": "Ref[PlainQuantity]"}, returns="Ref[PlainQuantity]",
         requires={"alloc": "allocated(self)"},
         ensures={"fresh": "fresh(result)", "same_class": "same_class(result, self)",
                  "magnitude": "result._magnitude == self._magnitude", "units": "result._units == self._units",
                  "registry": "result._REGISTRY == reg_of_class(result)",
                  "untouched": "self._magnitude == old(self._magnitude) and self._units == old(self._units)"},
         modifies=[], props=["C18"])
contract("copy:deepcopy", params={"x": "Num", "memo": "Opaque"}, returns="Num",
         cases=[{"_name": "scalar", "x": "Num", "_ensures": {"same": "result == x"}},
                {"_name": "container", "x": "Ref[UnitsContainer]", "_returns": "Ref[UnitsContainer]",
                 "_ensures": {"equal_copy": "fresh(result) and same_class(result, x) and wf(result) == wf(x) and "
                                            "forall[Str](lambda k: view(result)[k] == view(x)[k])"}}],
         modifies=[], trusted=True,
         note="copy.deepcopy of a scalar is the value; of a UnitsContainer it goes through object.__reduce_ex__ with the verified "
              "__getstate__/__setstate__ pair (c04_util) - the pickle protocol machinery itself is CPython's", props=["C18"])
contract(f"{Q}.__deepcopy__", params={"self": "Ref[PlainQuantity]", "memo": "Opaque"}, returns="Ref[PlainQuantity]",
         requires={"alloc": "allocated(self)"},
         ensures={"fresh": "fresh(result) and fresh(result._units)", "same_class": "same_class(result, self)",
                  "magnitude": "result._magnitude == self._magnitude",
                  "units_equal": "forall[Str](lambda k: view(result._units)[k] == view(self._units)[k])",
                  "registry": "result._REGISTRY == reg_of_class(result)",
                  "untouched": "self._magnitude == old(self._magnitude) and self._units == old(self._units)"},
         modifies=[], props=["C18"])

U = "pint.facets.plain.unit:PlainUnit"
contract(f"{U}.__copy__", params={"self": "Ref[PlainUnit]"}, returns="Ref[PlainUnit]",
         requires={"alloc": "allocated(self) and allocated(self._units)"},
         ensures={"fresh": "fresh(result)", "same_class": "same_class(result, self)", "units": "result._units == self._units",
                  "untouched": "self._units == old(self._units)"},
         modifies=[], props=["C18"])
contract(f"{U}.__deepcopy__", params={"self": "Ref[PlainUnit]", "memo": "Opaque"}, returns="Ref[PlainUnit]",
         requires={"alloc": "allocated(self) and allocated(self._units)"},
         ensures={"fresh": "fresh(result) and fresh(result._units)", "same_class": "same_class(result, self)",
                  "units_equal": "forall[Str](lambda k: view(result._units)[k] == view(self._units)[k])",
                  "untouched": "self._units == old(self._units)"},
         modifies=[], props=["C18"])

contract(f"{Q}.m", params={"self": "Ref[PlainQuantity]"}, returns="Num", pure=True,
         ensures={"def": "result == self._magnitude"}, modifies=[], props=["C18"])
contract(f"{Q}.to_tuple", params={"self": "Ref[PlainQuantity]"}, returns="Tuple[Num,Seq[Tuple[Str,Num]]]",
         requires={"alloc": "allocated(self) and allocated(self._units) and allocated(self._units._d)"},
         ensures={"magnitude": "result[0] == self._magnitude",
                  # the second component lists exactly the (name, exponent) items of the units, each name once
                  "items_sound": "forall[Int](lambda i: implies(0 <= i and i < len(result[1]), result[1][i][0] in self._units._d "
                                 "and result[1][i][1] == view(self._units)[result[1][i][0]]))",
                  "items_complete": "len(result[1]) == len(self._units._d)",
                  "items_distinct": "forall[Int,Int](lambda i, j: implies(0 <= i and i < j and j < len(result[1]), result[1][i][0] != result[1][j][0]))",
                  "untouched": "self._magnitude == old(self._magnitude) and self._units == old(self._units)"},
         modifies=[], props=["C18"])
