"""Contracts for pint/util.py: UnitsContainer / ParserHelper (property C04, used by most others)."""
from pv.decl import cls, contract, lemma, predicate

cls("pint.util:UnitsContainer",
    fields={"_d": "UDict[Str,Num]", "_hash": "Opt[Int]", "_one": "Num", "_non_int_type": "NumType"},
    mapping_delegate="_d")
cls("pint.util:ParserHelper", fields={"scale": "Num"})

# Representation invariant: no zero exponent is stored; a cached hash is the hash of the items.
predicate("no_zero", ["u: Ref[UnitsContainer]"],
          "forall[Str](lambda k: implies(k in u._d, u._d[k] != 0))")
predicate("hash_ok", ["u: Ref[UnitsContainer]"],
          "is_none(u._hash) or some(u._hash) == hash_items(view(u))")
predicate("alloc_ok", ["u: Ref[UnitsContainer]"], "allocated(u) and allocated(u._d)")
predicate("wf", ["u: Ref[UnitsContainer]"], "alloc_ok(u) and no_zero(u) and hash_ok(u)")
# functions that compare containers may fill in lazily cached hashes of any container, but only with the right value
predicate("HashesKept", [], "forall[Ref[UnitsContainer]](lambda u: implies(old(hash_ok(u)), hash_ok(u)), 'u._hash')")

UC = "pint.util:UnitsContainer"

contract(f"{UC}.__copy__",
         params={"self": "Ref[UnitsContainer]"},
         returns="Ref[UnitsContainer]",
         requires={"alloc": "alloc_ok(self)"},
         ensures={
             "fresh": "fresh(result) and fresh(result._d)",
             "view": "view(result) == view(self)",
             "hash": "result._hash == self._hash",
             "type": "result._non_int_type == self._non_int_type and result._one == self._one",
             "class": "same_class(result, self)",
         },
         modifies=[])

contract(f"{UC}.copy", inherits=f"{UC}.__copy__", params={"self": "Ref[UnitsContainer]"})

contract(f"{UC}._normalize_nonfloat_value",
         params={"self": "Ref[UnitsContainer]", "value": "Num"},
         returns="Num",
         ensures={"value": "result == value"},   # A1/A3: conversion between numeric types keeps the value
         modifies=[])

contract(f"{UC}.add",
         params={"self": "Ref[UnitsContainer]", "key": "Str", "value": "Num"},
         returns="Ref[UnitsContainer]",
         requires={"wf": "wf(self)"},
         ensures={
             "fresh": "fresh(result) and fresh(result._d)",
             "view": "forall[Str](lambda q: view(result)[q] == view(self)[q] + (value if q == key else 0))",
             "no_zero": "no_zero(result)",
             "hash_reset": "is_none(result._hash)",
             "class": "same_class(result, self)",
         },
         modifies=[])

_binop_ensures = lambda sign: {
    "fresh": "fresh(result) and fresh(result._d)",
    "view": f"forall[Str](lambda q: view(result)[q] == view(self)[q] {sign} view(other)[q])",
    "no_zero": "no_zero(result)",
    "hash_reset": "is_none(result._hash)",
    "class": "same_class(result, self)",
    "type": "result._non_int_type == self._non_int_type",
}
_binop_loop = lambda sign: {0: dict(
    invariant={
        "fresh": "fresh($acc) and fresh($acc._d) and $acc._d != other._d",
        "view": f"forall[Str](lambda q: view($acc)[q] == view(self)[q] {sign} (view(other)[q] if q in processed else 0))",
        "no_zero": "no_zero($acc)",
        "class": "same_class($acc, self) and $acc._non_int_type == self._non_int_type",
    },
    modifies=["contents($acc._d)"])}

for name, sign in (("__mul__", "+"), ("__truediv__", "-")):
    contract(f"{UC}.{name}",
             params={"self": "Ref[UnitsContainer]", "other": "Ref[UnitsContainer]"},
             returns="Ref[UnitsContainer]",
             requires={"wf_self": "wf(self)"},
             bind={"acc": "self.copy()"},
             cases=[
                 {"_name": "uc", "other": "Ref[UnitsContainer]", "_requires": ["wf(other)"],
                  "_raises": {"TypeError": "not subclass_of(other, self)"}},
                 {"_name": "other", "other": "Other", "_raises": {"TypeError": "True"}, "_ensures": {}, "_loops": {}},
                 {"_name": "num", "other": "Num", "_raises": {"TypeError": "True"}, "_ensures": {}, "_loops": {}},
             ],
             ensures=_binop_ensures(sign),
             loops=_binop_loop(sign),
             modifies=[])


def _fix_hash(obj):
    if getattr(obj, "_hash", None) is not None:
        obj._hash = hash(frozenset(obj._d.items()))


from pv.decl import CLASSES  # noqa: E402

CLASSES["UnitsContainer"].replay_fixup = _fix_hash

contract(f"{UC}.__pow__",
         params={"self": "Ref[UnitsContainer]", "other": "Num"},
         returns="Ref[UnitsContainer]",
         requires={"wf_self": "wf(self)"},
         bind={"acc": "self.copy()"},
         cases=[
             {"_name": "num", "other": "Num"},
             {"_name": "other", "other": "Other", "_raises": {"TypeError": "True"}, "_ensures": {}, "_loops": {}},
         ],
         ensures={
             "fresh": "fresh(result) and fresh(result._d)",
             "view": "forall[Str](lambda q: view(result)[q] == view(self)[q] * other)",
             "no_zero": "no_zero(result)",
             "hash_reset": "is_none(result._hash)",
             "class": "same_class(result, self)",
             "type": "result._non_int_type == self._non_int_type",
         },
         loops={0: dict(
             invariant={
                 "fresh": "fresh($acc) and fresh($acc._d)",
                 "dom": "keys($acc._d) == keys(self._d) and iterated == keys(self._d)",
                 "view": "forall[Str](lambda q: view($acc)[q] == view(self)[q] * (other if q in processed else 1))",
                 "class": "same_class($acc, self) and $acc._non_int_type == self._non_int_type",
             },
             modifies=["contents($acc._d)"])},
         modifies=[])

contract(f"{UC}.__rtruediv__",
         params={"self": "Ref[UnitsContainer]", "other": "Num"},
         returns="Ref[UnitsContainer]",
         requires={"wf_self": "wf(self)"},
         cases=[
             {"_name": "num", "other": "Num", "_raises": {"TypeError": "other != 1"}},
             {"_name": "uc", "other": "Ref[UnitsContainer]", "_raises": {"TypeError": "not subclass_of(other, self)"},
              "_requires": ["alloc_ok(other)"]},
         ],
         ensures={
             "fresh": "fresh(result) and fresh(result._d)",
             "view": "forall[Str](lambda q: view(result)[q] == -view(self)[q])",
             "no_zero": "no_zero(result)",
             "hash_reset": "is_none(result._hash)",
         },
         modifies=[])

contract(f"{UC}.__hash__",
         params={"self": "Ref[UnitsContainer]"},
         returns="Int",
         requires={"wf": "wf(self)"},
         ensures={
             "value": "result == hash_items(view(self))",
             "cached": "not is_none(self._hash) and some(self._hash) == result",
             "wf": "wf(self)",
         },
         modifies=["self._hash"])

contract(f"{UC}.__eq__",
         params={"self": "Ref[UnitsContainer]", "other": "Ref[UnitsContainer]"},
         returns="Bool",
         requires={"alloc": "alloc_ok(self)"},
         cases=[
             {"_name": "uc", "other": "Ref[UnitsContainer]", "_requires": ["wf(self)", "wf(other)"],
              "_modifies": ["self._hash", "other._hash"],
              "_add_ensures": {
                  "iff_same_exponents": "result == forall[Str](lambda q: view(self)[q] == view(other)[q])",
                  "iff_same_items": "result == (view(self) == view(other))",
                  "wf_other": "wf(other)"}},
             {"_name": "dict", "other": "UDict[Str,Num]",
              "_add_ensures": {"iff_same_items": "result == (contents(self._d) == contents(other))"}},
         ],
         ensures={"wf_self": "implies(old(wf(self)), wf(self))"},
         modifies=[])

contract(f"{UC}.rename",
         params={"self": "Ref[UnitsContainer]", "oldkey": "Str", "newkey": "Str"},
         returns="Ref[UnitsContainer]",
         requires={"wf": "wf(self)"},
         raises={"KeyError": "oldkey not in self._d"},
         ensures={
             "fresh": "fresh(result) and fresh(result._d)",
             "view": "view(result) == store(remove(view(self), oldkey), newkey, view(self)[oldkey])",
             "no_zero": "no_zero(result)",
             "hash_reset": "is_none(result._hash)",
         },
         modifies=[])

contract(f"{UC}.__getstate__",
         params={"self": "Ref[UnitsContainer]"},
         returns="Tuple[UDict[Str,Num],Num,NumType]",
         ensures={"state": "result[0] == self._d and result[1] == self._one and result[2] == self._non_int_type"},
         modifies=[])

contract(f"{UC}.__setstate__",
         params={"self": "Ref[UnitsContainer]", "state": "Tuple[UDict[Str,Num],Num,NumType]"},
         returns="None",
         ensures={"state": "self._d == state[0] and self._one == state[1] and self._non_int_type == state[2]",
                  "hash_reset": "is_none(self._hash)"},
         modifies=["fields(self)"])

# == with a number / None / arbitrary object: dict.__eq__ gives NotImplemented, the operator yields False
from pv.decl import CONTRACTS as _C  # noqa: E402

_C[f"{UC}.__eq__"].cases += [
    {"_name": "num", "other": "Num", "_add_ensures": {"false": "result == False"}},
    {"_name": "object", "other": "Other", "_add_ensures": {"false": "result == False"}},
]

# --------------------------------------------------------------------------- group-law lemmas over the contracts
_UCP = {"a": "Ref[UnitsContainer]", "b": "Ref[UnitsContainer]", "c": "Ref[UnitsContainer]"}
_same = ["wf(a)", "wf(b)", "wf(c)", "same_class(a, b)", "same_class(b, c)"]

lemma("C04.mul_commutative", _UCP, """
def lemma(a, b, c):
    r1 = a * b
    r2 = b * a
    check("views_equal", "view(r1) == view(r2)")
    check("eq_operator", "True")
    e = (r1 == r2)
    check("compare_equal", "e")
    check("hash_equal", "hash_items(view(r1)) == hash_items(view(r2))")
""", requires=_same)

lemma("C04.mul_associative", _UCP, """
def lemma(a, b, c):
    r1 = (a * b) * c
    r2 = a * (b * c)
    check("views_equal", "view(r1) == view(r2)")
""", requires=_same)

lemma("C04.div_self_is_dimensionless", _UCP, """
def lemma(a, b, c):
    r = a / a
    check("empty", "forall[Str](lambda q: not (q in r._d)) and len(r._d) == 0")
""", requires=_same)

lemma("C04.div_is_mul_inverse", _UCP, """
def lemma(a, b, c):
    r = (a * b) / b
    check("views_equal", "view(r) == view(a)")
    s = a / b
    t = a * (b ** -1)
    check("div_is_mul_pow_minus_one", "view(s) == view(t)")
""", requires=_same)

lemma("C04.pow_laws", dict(_UCP, x="Num", y="Num"), """
def lemma(a, b, c, x, y):
    z = a ** 0
    check("pow_zero_empty", "forall[Str](lambda q: not (q in z._d))")
    o = a ** 1
    check("pow_one", "view(o) == view(a)")
    p = (a ** x) ** y
    q2 = a ** (x * y)
    check("pow_pow", "forall[Str](lambda k: view(p)[k] == view(q2)[k])")
    d = (a * b) ** x
    e = (a ** x) * (b ** x)
    check("pow_distributes", "forall[Str](lambda k: view(d)[k] == view(e)[k])")
""", requires=_same)

lemma("C04.eq_hash_agree", _UCP, """
def lemma(a, b, c):
    ha = hash(a)
    hb = hash(b)
    e = (a == b)
    check("eq_iff_same_exponents", "e == forall[Str](lambda q: view(a)[q] == view(b)[q])")
    check("eq_implies_hash", "implies(e, ha == hb)")
    e2 = (b == a)
    check("eq_symmetric", "e == e2")
    f = (b == c)
    g = (a == c)
    check("eq_transitive", "implies(e and f, g)")
    r = (a == a)
    check("eq_reflexive", "r")
""", requires=_same)
