"""C03: addition and subtraction of two multiplicative quantities of one registry.

DimensionalityError is raised if and only if the dimensionalities differ; otherwise the physical value of the result is
the sum / difference of the operands' physical values -- whatever units the operands are expressed in (each of the three
branches of the multiplicative case chooses different result units)."""
from pv.decl import contract, predicate

Q = "pint.facets.plain.quantity:PlainQuantity"
_mods = ["contents(self._REGISTRY._cache.dimensionality)", "contents(self._REGISTRY._cache.root_units)",
         "contents(self._REGISTRY._cache.conversion_factor)", "allof(UnitsContainer._hash)"]

contract(f"{Q}.__new__",
         params={"cls": "Ref[PlainQuantity]", "value": "Num", "units": "Ref[UnitsContainer]"}, returns="None",
         ensures={"stored": "cls._magnitude == value and cls._units == units and is_none(cls._dimensionality)",
                  "registry_of_the_class": "cls._REGISTRY == reg_of_class(cls)"},
         modifies=[], trusted=True,
         note="Quantity(magnitude, UnitsContainer): `cls` stands for the new instance; scalar magnitudes are stored as given "
              "(_to_magnitude), the registry is the class attribute of the generated Quantity class",
         props=["C03"])

contract(f"{Q}._get_non_multiplicative_units", params={"self": "Ref[PlainQuantity]"}, returns="Seq[Str]",
         requires={"mult": "AllMult(self._REGISTRY, self._units)"},
         ensures={"none": "len(result) == 0"}, modifies=[], trusted=True,
         note="overridden by the non-multiplicative facet: lists the offset / log units; none under AllMult", props=["C03"])
contract(f"{Q}._get_delta_units", params={"self": "Ref[PlainQuantity]"}, returns="Seq[Str]",
         ensures={}, modifies=[], trusted=True,
         note="which units are delta_ units only selects the units of the result, not its value", props=["C03"])

_ens = lambda sym: {
    "physical_value": f"Phys(result) == Phys(self) {sym} Phys(other)",
    "same_dimension": "SameDim(result, self)",
    "fresh": "fresh(result) and result._REGISTRY == self._REGISTRY",
    "operands_untouched": "self._magnitude == old(self._magnitude) and self._units == old(self._units) and "
                          "other._magnitude == old(other._magnitude) and other._units == old(other._units)",
    "hashes": "HashesKept()",
}
contract(f"{Q}._add_sub",
         params={"self": "Ref[PlainQuantity]", "other": "Ref[PlainQuantity]", "op": "OpAdd"}, returns="Ref[PlainQuantity]",
         requires={"q": "QWF(self)", "o": "QWF(other)", "distinct": "self != other"},
         raises={"ValueError": "self._REGISTRY != other._REGISTRY",
                 "DimensionalityError": "self._REGISTRY == other._REGISTRY and not SameDim(self, other)"},
         cases=[{"_name": "add", "op": "OpAdd", "_add_ensures": _ens("+")},
                {"_name": "sub", "op": "OpSub", "_add_ensures": _ens("-")}],
         allow_exc=("UndefinedUnitError", "OffsetUnitCalculusError", "KeyError", "TypeError", "ArithmeticError"),
         modifies=_mods + ["self._dimensionality", "other._dimensionality", "self._dimensionality_units", "other._dimensionality_units"],
         theories=("lin", "fac", "facdiff"),
         props=["C03"])

# ---- multiplication and division of two multiplicative quantities
contract(f"{Q}._ok_for_muldiv", params={"self": "Ref[PlainQuantity]", "no_offset_units": "Opt[Int]"}, returns="Bool",
         requires={"mult": "AllMult(self._REGISTRY, self._units)"},
         ensures={"ok": "result == True"}, modifies=[], trusted=True,
         note="True in the plain facet; the non-multiplicative facet's override is True when there is no offset unit", props=["C03"])

_muldiv_common = {
    "fresh": "fresh(result) and result._REGISTRY == self._REGISTRY",
    "operands_untouched": "self._magnitude == old(self._magnitude) and self._units == old(self._units) and "
                          "other._magnitude == old(other._magnitude) and other._units == old(other._units)",
    "hashes": "HashesKept()",
}
contract(f"{Q}._mul_div",
         params={"self": "Ref[PlainQuantity]", "other": "Ref[PlainQuantity]", "magnitude_op": "OpMul", "units_op": "None"},
         returns="Ref[PlainQuantity]",
         requires={"q": "QWF(self)", "o": "QWF(other)", "distinct": "self != other"},
         raises={"ValueError": "self._REGISTRY != other._REGISTRY"},
         cases=[
             {"_name": "mul", "magnitude_op": "OpMul", "_add_ensures": {
                 **_muldiv_common,
                 "magnitude": "result._magnitude == self._magnitude * other._magnitude",
                 "factor_of_product": "FacOf(result._units, 1) == FacOf(self._units, 1) * FacOf(other._units, 1)",
                 "physical_value": "Phys(result) == Phys(self) * Phys(other)",
                 "dimensions_add": "forall[Str](lambda b: implies(b != '[]', DimOf(b, result._units) == DimOf(b, self._units) + DimOf(b, other._units)))"}},
             {"_name": "div", "magnitude_op": "OpDiv",
              "_raises": {"ValueError": "self._REGISTRY != other._REGISTRY",
                          "ZeroDivisionError": "self._REGISTRY == other._REGISTRY and other._magnitude == 0"},
              "_add_ensures": {
                 **_muldiv_common,
                 "magnitude": "result._magnitude * other._magnitude == self._magnitude",
                 "factor_of_quotient": "FacOf(result._units, 1) * FacOf(other._units, 1) == FacOf(self._units, 1)",
                 "physical_value": "Phys(result) * Phys(other) == Phys(self)",
                 "dimensions_subtract": "forall[Str](lambda b: implies(b != '[]', DimOf(b, result._units) == DimOf(b, self._units) - DimOf(b, other._units)))"}},
         ],
         allow_exc=("UndefinedUnitError", "OffsetUnitCalculusError", "KeyError", "TypeError", "ArithmeticError"),
         modifies=_mods,
         theories=("lin", "fac", "facdiff", "facprod", "linadd"),
         chain=("magnitude", "factor_of_product", "factor_of_quotient"),
         note="decorators check_implemented / ireduce_dimensions pass scalar operands and results through when the registry "
              "options autoconvert_to_preferred / auto_reduce_dimensions are off",
         props=["C03"])
