"""Property table: which contract modules serve which property, claimed level, stand-ins."""
from pv import decl

PROPS = {}

# ---- contract modules (import order matters: callee contracts first)
decl.default_props(["C04"])
from . import c04_util  # noqa: E402,F401
decl.default_props(["C01"])
from . import c01_registry  # noqa: E402,F401

PROPS["C01"] = dict(level="proof", explanation="", standins=[], assumptions=[])
PROPS["C02"] = dict(level="proof", explanation="", standins=[], assumptions=[])

PROPS["C04"] = dict(
    level="proof",
    explanation="",
    standins=[],
    assumptions=[],
)
