"""Property table: which contract modules serve which property, claimed level, stand-ins."""
from pv import decl

PROPS = {}

# ---- contract modules (import order matters: callee contracts first)
decl.default_props(["C04"])
from . import c04_util  # noqa: E402,F401

PROPS["C04"] = dict(
    level="proof",
    explanation="",
    standins=[],
    assumptions=[],
)
