"""Property table: which contract modules serve which property, claimed level, stand-ins.

The contract modules register their contracts with the properties they serve (`props=[...]`); this
file only carries the per-property metadata used for MANIFEST.json and the evidence files."""
from pv import decl

PROPS = {}

# ---- contract modules (import order matters: callee contracts first)
decl.default_props(["C04"])
from . import c04_util  # noqa: E402,F401
decl.default_props(["C12"])
from . import c12_context  # noqa: E402,F401
decl.default_props(["C01"])
from . import c01_registry  # noqa: E402,F401
decl.default_props([])
for _m in ("c02_chain", "c05_quantity", "c06_converters", "c14_groups", "c17_helpers", "c18_errors", "c08_names", "c15_qto",
           "c10_defs", "c03_addsub", "c07_eval", "c09_format", "c16_numpy", "c19_measurement", "c20_standards", "c13_caches",
           "c14_members"):
    try:
        __import__(f"contracts.{_m}")
    except ModuleNotFoundError as e:
        if f"contracts.{_m}" not in str(e):
            raise

A1 = "A1: float and Decimal arithmetic is treated as mathematical (real) arithmetic; ulp-level clauses are decided only by bounded numeric checks"
A3 = "A3: Python's numeric tower keeps == and hash consistent across int/float/Fraction/Decimal"
CLOSED = "closed world: only the classes declared in /verif/contracts are instances of the modelled types"
MIXED = ("mixed: the functions listed under functions_under_contract are verified deductively for all inputs; the clauses "
         "named below are decided only by bounded stand-ins (bounded, never counted as proved)")


def P(pid, level, text, note, explanation, standins=(), assumptions=(), trusted_base=()):
    PROPS[pid] = dict(level=level, text=text, note=note, explanation=explanation,
                      standins=[(m, {}) for m in standins], assumptions=list(assumptions) + [A1, A3, CLOSED],
                      trusted_base=list(trusted_base))


P("C01", "other",
  "Deductive: the dimensional expansion (_get_dimensionality_recurse: inductive step over the definition table via a "
  "Lean-proved finite-sum theory), _get_dimensionality with its cache-coherence invariant, _get_conversion_factor and "
  "_convert of the plain registry (DimensionalityError is raised IF AND ONLY IF the two containers differ in some base "
  "dimension; otherwise the value is multiplied by the Lean-defined factor ratio) and Quantity.dimensionality are proved for "
  "every well-formed registry; the public chain registry.convert -> Context._convert -> NonMultiplicative._convert -> plain "
  "_convert and Quantity._convert_magnitude_not_inplace are verified against the same contract for multiplicative units with "
  "no active context (behavioural subtyping of the overrides). Bounded: the same gate with offset units / active contexts, "
  "predicates, decorator and compatible-unit listings are compared with an independent Dim on all 164k ordered unit pairs of "
  "the default registry and on generated registries, cold and warm.",
  "Assumed contracts: get_name (decided under C08; A7: modelled as non-modifying), the registry's UnitsContainer factory, "
  "Quantity.to (convert + the Quantity constructor), _validate_and_extract on multiplicative-only containers, "
  "to_units_container on a UnitsContainer. RegWF is evaluated concretely on the default registry by the stand-ins' independent "
  "reference, not proved of the definition parser.",
  MIXED + ": proved = dimensional expansion and its memo, error-iff-dimension-differs of the plain _convert; bounded = the same "
  "biconditional through the public API, agreement of is_compatible_with / check / @check / get_compatible_units.",
  standins=["standins.c01_compat", "standins.c02_warmcache", "standins.c01_check_kwargs"])
P("C02", "other",
  "Deductive: _get_root_units_recurse (factor = product of scale**exponent along the reference chain; root-unit exponents), "
  "_get_root_units with its memo, _get_conversion_factor (the factor is the ratio of the two root factors), _convert and the "
  "chain above it (registry.convert, the Context / NonMultiplicative overrides for multiplicative units without active "
  "context, Quantity._convert_magnitude_not_inplace) are proved against a Lean-checked finite-product theory; Scale/Offset "
  "converter maps and their inverses. Bounded: exactness, "
  "numeric-type preservation, identity / inverse / path independence over all ~8000 same-dimension pairs of the default "
  "registry in Fraction, Decimal and float registries, cold and warm memo.",
  "Assumed: get_name; Converter.is_multiplicative; positivity of scales (one negative scale in the default registry, "
  "electron_g_factor, is outside the proof and covered by the stand-in).",
  MIXED + ": proved = scale accumulation, root-unit exponents and factor ratio for all registries satisfying RegFac; bounded = "
  "exact ratios, type preservation, ulp bound (float), path independence on the default registry.",
  standins=["standins.c02_factors", "standins.c02_warmcache"])
P("C03", "other",
  "Deductive: _add_sub and _mul_div for two multiplicative quantities of one registry, proved for all operands and all "
  "well-formed registries: + and - raise DimensionalityError IF AND ONLY IF the dimensionalities differ, otherwise the physical "
  "value of the result is the sum / difference of the operands' physical values in each of the three unit-selection branches; "
  "* and / give the product / quotient of the physical values and add / subtract the dimension exponents (Lean-checked lemmas "
  "on finite sums and products over the definition table) - hence the result does not depend on the units the operands are "
  "expressed in. Also the ordering operators (compare) and the registry-identity guard _check. Bounded: the same covariance "
  "exact in a Fraction registry over an exhaustive operand catalogue x 27 operator forms (including //, %, **, unary, "
  "in-place forms, bare numbers, offset units), dimension errors also with contexts active.",
  "Assumed: the Quantity constructor (stores magnitude and units), Quantity.to, _get_non_multiplicative_units / _ok_for_muldiv / "
  "_get_delta_units of the facets under the all-multiplicative premise; the decorators check_implemented / ireduce_dimensions "
  "(pass-through for scalar operands with the auto-reduce options off). //, %, ** and the in-place twins are bounded only.",
  MIXED + ": proved = + - * / on multiplicative quantities (error iff dimensions differ; physical value; dimensions); bounded = "
  "the other operators, offset units, numeric types.",
  standins=["standins.c03_arith", "standins.c03_context", "standins.c13_inplace_memo"])
P("C04", "proof",
  "Every UnitsContainer operation on the C04 chain is verified against a full-view contract (exponent arithmetic for all keys, "
  "no zero entry, hash reset/coherence, fresh result, operands unmodified) by a VC generator over the real AST of pint/util.py; "
  "the group laws (commutativity, associativity, u/u, u**0, (u**a)**b, eq iff same exponents, eq => hash equal, eq is an "
  "equivalence) are lemmas over those contracts; PlainUnit's operators delegate to them. All discharged by z3 (two independent "
  "builds) / cvc5 for all containers and exponents.",
  "pi_theorem / column_echelon_form are bounded only (exhaustive small matrices). UnitsContainer.__init__ is not under contract.",
  "proof obligations cover UnitsContainer.{__copy__,copy,add,__mul__,__truediv__,__pow__,__rtruediv__,__eq__,__hash__,rename,"
  "__getstate__,__setstate__,_normalize_nonfloat_value}, PlainUnit.{__init__,__hash__,__mul__,__truediv__,__pow__} and six lemma "
  "groups; Buckingham-pi is decided by a bounded stand-in.",
  standins=["standins.c04_pi"])
P("C05", "other",
  "Deductive: PlainQuantity.compare (all four ordering operators, raises iff dimensions differ), __hash__ (hash of the "
  "root/base-unit form, so equal physical values of multiplicative quantities hash equal), dimensionality memo, the compat "
  "helpers eq / zero_or_nan. Bounded: == / hash / ordering against an exact Fraction oracle over a catalogue of quantities (all "
  "ordered pairs, all triples for transitivity), all same-dimension canonical unit pairs for hash agreement, bare numbers.",
  "Quantity.__eq__ (offset / zero / NaN branches) is not under contract; to_root_units / to_base_units / units carry assumed contracts.",
  MIXED + ": proved = ordering and hash contracts over the assumed conversion contracts; bounded = __eq__ and the laws on the catalogue.",
  standins=["standins.c05_compare"])
P("C06", "other",
  "Deductive: Scale/Offset/Logarithmic converter maps equal their defining affine / exponential maps and are mutually inverse "
  "(lemmas C06.scale_offset_inverse, C06.log_inverse); is_multiplicative / is_logarithmic flags; an explicit as_delta argument "
  "overrides the registry default. Bounded: conversions exact in a Fraction registry, delta units by scale only, the documented "
  "offset calculus table in both registry modes with both operand orders and in-place forms, default_as_delta parsing, "
  "log/offset units inside compound units in autoconvert mode.",
  "The offset calculus branches of _add_sub/_mul_div and _validate_and_extract / _add_ref_of_log_or_offset_unit are not under contract.",
  MIXED + ": proved = converter maps and inverses for all real arguments (A1); bounded = offset calculus and two-stage conversion.",
  standins=["standins.c06_offset", "standins.c06_logcompound", "standins.c06_compare"])
P("C07", "other",
  "Deductive/structural: _power on scalars is Python's **; the evaluator's operator and priority tables map every operator text "
  "to the matching Python operator with Python's precedence levels; no function on the parsing path calls a code-execution, "
  "import or I/O primitive (static effects check over the real AST). Bounded: every token sequence up to length 5 (plus all "
  "well-formed ones up to 7) over 14 tokens against an independent recursive-descent reference and Python's ast; numeric "
  "literal spellings x contexts x registries; word forms; audit-hook run over hostile strings.",
  "The tree builder (_build_eval_tree) and tokenizer are not under contract.",
  MIXED + ": proved = operator tables, _power, absence of dynamic evaluation primitives; bounded = tree shape and literal typing.",
  standins=["standins.c07_eval", "standins.c07_literals", "standins.c07_history"])
P("C08", "other",
  "Deductive: symbol / has_symbol / _get_symbol; _helper_single_adder stores exactly one entry in the exact table and (when the "
  "table has one) exactly one entry in the case-insensitive index; _add_alias binds every alias to the aliased unit's "
  "definition in both tables and forgets nothing; an explicit as_delta argument wins over the registry default. Bounded: the "
  "full cross product prefix x unit spelling x plural of the default registry against an independent decomposition, history "
  "independence, case-insensitive lookup for every definition route, delta reading, membership.",
  "parse_unit_name / _yield_unit_triplets / _dedup_candidates and the plain parser are not under contract (named by a spec function).",
  MIXED + ": proved = storing of spellings and the as_delta default rule; bounded = resolution of spellings.",
  standins=["standins.c08_names", "standins.c08_alias"])
P("C09", "other",
  "Deductive: the string helpers join_mu / join_unc / extract2 / to_name_exponent_name (separator handling, exponent sign). "
  "Bounded: every canonical unit x 13 specs x 3 numeric registries, compound units up to 3 factors with exponents -3..3, round "
  "trips of plain formats, structural check of LaTeX/HTML/siunitx, magnitude specs, objects unchanged.",
  "The formatter classes are not under contract.",
  MIXED + ": proved = four helper functions; bounded = the formats.", standins=["standins.c09_format", "standins.c09_sortfunc"])
P("C10", "other",
  "Deductive: _helper_single_adder / _add_alias (what a definition line stores, redefinition policy raises exactly under "
  "'raise'), symbol defaults. Bounded: an independent reader of the definition-file grammar is compared with the registry built "
  "from the bundled files (exhaustive); generated definition sets under all line permutations, block positions and loading "
  "paths including a shared disk cache; a catalogue of ill-formed inputs.",
  "The flexparser-based statement classifiers, solve_dependencies and _build_cache are not under contract.",
  MIXED + ": proved = the adders; bounded = grammar, order and path independence.",
  standins=["standins.c10_defs", "standins.c10_order", "standins.c10_importcache"])
P("C11", "other",
  "Deductive: ContextChain.insert_contexts / remove_contexts (most recently enabled context first, in both the context list and "
  "the rule maps). Bounded: shortest-path minimality on all digraphs of <= 4 (quick) / 5 (thorough) nodes, bundled context rules "
  "against hand-written formulas, generated context stacks (precedence, parameter inheritance, redefinitions).",
  "ChainMap lookup order is an assumed contract of collections.ChainMap; Relation.transformation evaluates rule text with parse_expression (C07).",
  MIXED + ": proved = ordering of the active chain; bounded = shortest chain, rule application, parameter precedence, redefinitions.",
  standins=["standins.c11_contexts", "standins.c11_history"])
P("C12", "other",
  "Deductive: the active stack after insert; remove is the original stack (lemma over the real ContextChain methods); "
  "context() restores the stack on normal AND exceptional exit of the with-body (try/finally of the real generator); "
  "disable_contexts pops exactly n. Bounded: all operation sequences of length <= 4/5 over 16 operations against a reference "
  "stack model, including failing activations and shared Context objects.",
  "enable_contexts and _switch_context_cache_and_units carry assumed contracts (their bodies are outside the verified subset); "
  "atomicity of a failed activation and absence of residue are decided by the bounded stand-in.",
  MIXED + ": proved = stack discipline of insert/remove/context()/disable_contexts; bounded = failed activation changes nothing, "
  "no residue in answers, shared contexts unmodified.",
  standins=["standins.c12_context_stack"])
P("C13", "other",
  "Deductive: the dimensionality, root-unit and conversion-factor memos are coherent (every cached entry equals the spec value, "
  "established and preserved by _get_dimensionality / _get_root_units / _get_conversion_factor), the recursions' results do not "
  "depend on memo contents, the default_system setter resets the base-unit memo; structural: no process-wide functools memo on "
  "methods whose answer depends on registry state. Bounded: query/state-change sequences compared with a fresh registry in the "
  "same declarative state.",
  "Parse cache and base-unit cache contents are covered by the stand-in only.",
  MIXED + ": proved = memo coherence of the three registry memos; bounded = history independence over sequences of <= 2 (quick) / 4 (thorough) operations.",
  standins=["standins.c13_history", "standins.c13_inplace_memo"])
P("C14", "other",
  "Deductive: the default_system setter (unknown names rejected, memo reset also for None); the membership-memo discipline of "
  "Group and System objects: Group.add_units / remove_units / add_groups / remove_groups and System.add_groups / remove_groups "
  "change exactly the stated sets (both views `_used_groups` / `_used_by` of the `using` relation) and end with the memo of the "
  "edited object, of every group that uses it and of every system dropped; an invalidation never sets a memo. Bounded: base units "
  "for every multiplicative unit x 7 systems against an independent reading of the @system blocks and exact factors; group closure "
  "over all `using` DAGs on <= 4 groups with edit sequences; rule inversion catalogue; restricted compatible units; system attribute access.",
  "Group.members / System.members (the closure itself: a recursion through the generator iter_used_groups) were attempted and are "
  "not discharged (8 of 25 and 4 of 22 obligations undecided after 200 s); they stay bounded. Group.is_used_group is an assumed contract "
  "(modifies nothing). The registry-wide invariant groups_wf (names registered under their own name, set objects not shared) is a "
  "precondition, established by Group.__init__, which is not under contract; it is evaluated by the run-time monitor on every group "
  "and system of the default registry (c14_monitor), where it holds - the solvers' vacuity checks find no model of it within their budget.",
  MIXED + ": proved = default_system setter and the invalidation discipline of the six edit operations; bounded = everything else.",
  standins=["standins.c14_systems", "standins.c14_monitor"])
P("C15", "other",
  "Deductive: Quantity.to / ito / _convert_magnitude are verified (not assumed): DimensionalityError iff the dimensionalities "
  "differ, otherwise the physical value and the dimensionality are preserved, the operand of to() is untouched and ito() leaves "
  "the object in exactly the units asked for; to_reduced_units / ito_reduced_units return / perform exactly quantity.to(X) / "
  "ito(X) or leave the input alone, so value and dimensionality are preserved whatever X was chosen. Bounded: "
  "to_root/base/reduced/compact/preferred and ito_ twins on all containers of <= 4 units from 3 dimension classes with "
  "exponents -3..3, exact in a Fraction registry; compact window; special magnitudes; in-place == functional under contexts.",
  "Assumed: the Quantity constructor, to_units_container on a container / on the literal {}, dimensionless, _get_reduced_units "
  "(which units are merged is bounded); to_compact / to_preferred / to_root_units / to_base_units are bounded only.",
  MIXED + ": proved = value and dimension preservation of to / ito and of the reduced-units pair; bounded = the other helpers and clauses.",
  standins=["standins.c15_rewrite", "standins.c15_context", "standins.c15_powers"])
P("C16", "other",
  "Deductive: PlainUnit.__init__ / __pow__ and the output-unit table get_op_output_unit for the power-like operations. Bounded: "
  "for every function pint handles, results are compared with NumPy applied to root-unit magnitudes with the unit implied by an "
  "independently written homogeneity table; re-expression invariance; incompatible inputs; offset units; in-place.",
  "NumPy itself is an assumed dependency; the implement() wrappers are not under contract.",
  MIXED + ": proved = unit bookkeeping of power-like operations; bounded = the function catalogue.", standins=["standins.c16_numpy", "standins.c16_reductions", "standins.c16_unitops"])
P("C17", "other",
  "Deductive: _to_units_container (the '=name' reference syntax of wraps is split exactly at the first '='). Bounded: generated "
  "signatures (1-4 parameters, positional/keyword/default) x unit-spec kinds for wraps and check, exact in a Fraction registry, "
  "arguments recorded inside the wrapped function.",
  "_parse_wrap_args / _apply_defaults and the wrappers are not under contract.",
  MIXED + ": proved = spec parsing helper; bounded = decorator behaviour.", standins=["standins.c17_wraps", "standins.c17_dimensionless", "standins.c01_check_kwargs", "standins.c17_offset"])
P("C18", "other",
  "Deductive/structural: SharedRegistryObject._check (same registry -> True, other registry -> ValueError, non-pint -> False); "
  "every binary operator of Quantity reaches _check before combining; every exception class's __reduce__ matches its __init__; "
  "the copy hooks PlainQuantity.__copy__ / __deepcopy__ and PlainUnit.__copy__ / __deepcopy__ (scalar magnitudes) return a fresh "
  "object of the same class (hence the same registry) with the same magnitude and equal units, a deep copy owning a fresh container, "
  "and leave the original untouched; to_tuple returns the magnitude and a listing of exactly the (name, exponent) items of the units, "
  "every name once. "
  "Bounded: pickle protocols 0-5 x magnitude types x random units, copy/deepcopy/tuple forms, every exception class, "
  "cross-registry operators, deep-copied registries, lazy registry in a fresh interpreter.",
  "Assumed: copy.copy / copy.deepcopy of a scalar is the value; copy.deepcopy of a UnitsContainer is a fresh equal container (CPython's "
  "reduce_ex over the verified __getstate__/__setstate__ pair); the Quantity constructor. from_tuple is bounded only "
  "(the registry's UnitsContainer factory applied to a tuple of pairs is not under contract).",
  MIXED + ": proved = registry-identity guard, reduce/init agreement, the four copy hooks, to_tuple; bounded = round trips.", standins=["standins.c18_serialize"])
P("C19", "other",
  "Deductive: Measurement.rel = |error / value| and its invariance under unit scaling (lemma); join_unc. Bounded: constructor "
  "forms, conversion of nominal value and standard deviation against exact factors, first-order propagation against own "
  "derivatives, all notation strings of a small grammar against a reference reader, measurement formats.",
  "uncertainties is an assumed dependency.",
  MIXED + ": proved = rel; bounded = the rest.", standins=["standins.c19_measurement"])
P("C20", "other",
  "Closed obligations: for each of 288 table entries z3 derives the unit's factor from the equations of the definition table as "
  "parsed by the real parser (one equation per definition line along the reference chain) and compares it with the curated "
  "standard value. Bounded/closed: exact equality in a Fraction registry through the public API for all 342 table rows.",
  "The table (tables/standards.json) was written from memory of the standards (no network) and is part of the trusted base.",
  "closed comparison of the registry built by the real parser against an independent table (exhaustive over the table), once by "
  "z3 over the definition equations and once through to_root_units (rests on C02).", standins=["standins.c20_standards"])
