"""Property table: which contract modules serve which property, claimed level, stand-ins.

The contract modules register their contracts with the properties they serve (`props=[...]`); this
file only carries the per-property metadata used for MANIFEST.json and the evidence files."""
from pv import decl

PROPS = {}

# ---- contract modules (import order matters: callee contracts first)
decl.default_props(["C04"])
from . import c04_util  # noqa: E402,F401
decl.default_props(["C12"])
from . import c12_context  # noqa: E402,F401
decl.default_props(["C01"])
from . import c01_registry  # noqa: E402,F401
decl.default_props([])
for _m in ("c05_quantity", "c06_converters", "c14_groups", "c17_helpers", "c18_errors", "c08_names", "c15_qto",
           "c10_defs", "c07_eval", "c09_format", "c16_numpy", "c19_measurement", "c20_standards", "c13_caches"):
    try:
        __import__(f"contracts.{_m}")
    except ModuleNotFoundError as e:
        if f"contracts.{_m}" not in str(e):
            raise

A1 = "A1: float and Decimal arithmetic is treated as mathematical (real) arithmetic; ulp-level clauses are decided only by bounded numeric checks"
A3 = "A3: Python's numeric tower keeps == and hash consistent across int/float/Fraction/Decimal"
CLOSED = "closed world: only the classes declared in /verif/contracts are instances of the modelled types"
MIXED = ("mixed: the functions listed under functions_under_contract are verified deductively for all inputs; the clauses "
         "named below are decided only by bounded stand-ins (bounded, never counted as proved)")


def P(pid, level, text, note, explanation, standins=(), assumptions=(), trusted_base=()):
    PROPS[pid] = dict(level=level, text=text, note=note, explanation=explanation,
                      standins=[(m, {}) for m in standins], assumptions=list(assumptions) + [A1, A3, CLOSED],
                      trusted_base=list(trusted_base))


P("C01", "other",
  "Deductive: the dimensional expansion (_get_dimensionality_recurse: inductive step over the definition table via a "
  "Lean-proved finite-sum theory) and _get_dimensionality with its cache-coherence invariant are proved for every "
  "well-formed registry. Bounded: the conversion gate, predicates, decorator and compatible-unit listings are compared with an "
  "independent Dim on all 164k ordered unit pairs of the default registry and on generated registries.",
  "Assumed contract: get_name (decided under C08). RegWF is evaluated concretely on the default registry by the stand-ins' "
  "independent reference, not proved of the definition parser.",
  MIXED + ": proved = dimensional expansion and its memo; bounded = `to` succeeds iff Dim equal, agreement of "
  "is_compatible_with / check / @check / get_compatible_units (exhaustive over the default registry's unit pairs).",
  standins=["standins.c01_compat", "standins.c02_warmcache"])
P("C02", "other",
  "Deductive: _get_root_units_recurse (factor = product of scale**exponent along the reference chain; root-unit exponents) is "
  "proved against a Lean-checked finite-product theory. Bounded: exactness, numeric-type preservation, identity / inverse / "
  "path independence over all ~8000 same-dimension pairs of the default registry in Fraction, Decimal and float registries.",
  "Assumed: get_name; positivity of scales (one negative scale in the default registry, electron_g_factor, is outside the proof).",
  MIXED + ": proved = scale accumulation and root-unit exponents for all registries satisfying RegFac; bounded = exact ratios, "
  "type preservation, ulp bound (float), path independence on the default registry.",
  standins=["standins.c02_factors", "standins.c02_warmcache"])
P("C03", "other",
  "Bounded: covariance of every arithmetic operator under re-expression of the operands in other units, exact in a Fraction "
  "registry, over an exhaustive operand catalogue x 27 operator forms; dimension errors; bare-number rule; in-place forms.",
  "Quantity arithmetic is not yet under contract; rests on the bounded stand-in only.",
  "bounded stand-in only for now (no deductive obligations yet): operand catalogue x operator forms, exhaustive.",
  standins=["standins.c03_arith", "standins.c03_context"])
P("C04", "proof",
  "Every UnitsContainer operation on the C04 chain is verified against a full-view contract (exponent arithmetic for all keys, "
  "no zero entry, hash reset/coherence, fresh result, operands unmodified) by a VC generator over the real AST of pint/util.py; "
  "the group laws (commutativity, associativity, u/u, u**0, (u**a)**b, eq iff same exponents, eq => hash equal, eq is an "
  "equivalence) are lemmas over those contracts, all discharged by z3/cvc5 for all containers and exponents.",
  "pi_theorem / column_echelon_form are bounded only (exhaustive small matrices). UnitsContainer.__init__ is not yet under contract.",
  "proof obligations cover UnitsContainer.{__copy__,copy,add,__mul__,__truediv__,__pow__,__rtruediv__,__eq__,__hash__,rename,"
  "__getstate__,__setstate__,_normalize_nonfloat_value} and six lemma groups; Buckingham-pi is decided by a bounded stand-in.",
  standins=["standins.c04_pi"])
P("C05", "other",
  "Bounded: == / hash / ordering against an exact Fraction oracle over a catalogue of quantities (all ordered pairs, all triples "
  "for transitivity), all same-dimension canonical unit pairs for hash agreement, bare-number comparisons.",
  "Quantity.__eq__/compare/__hash__ are not yet under contract.",
  "bounded stand-in only for now.", standins=["standins.c05_compare"])
P("C06", "other",
  "Bounded: affine/log conversion maps exact in a Fraction registry, inverse pairs, delta units by scale only, the documented "
  "offset calculus table in both registry modes with both operand orders and in-place forms, default_as_delta parsing.",
  "Converters and the offset calculus branches are not yet under contract.",
  "bounded stand-in only for now.", standins=["standins.c06_offset", "standins.c06_logcompound"])
P("C07", "other",
  "Bounded: every token sequence up to length 5 (plus all well-formed ones up to 7) over 14 tokens is evaluated by the real "
  "tree builder and compared with an independent recursive-descent reference and Python's ast; literal typing; word forms; "
  "audit-hook run over hostile strings.",
  "The parser (_build_eval_tree) is not yet under contract.",
  "bounded stand-in only for now.", standins=["standins.c07_eval", "standins.c07_literals"])
P("C08", "other",
  "Bounded: the full cross product prefix x unit spelling x plural of the default registry against an independent decomposition, "
  "history independence, case-insensitive lookup, delta reading, membership.",
  "Name resolution functions are not yet under contract.",
  "bounded stand-in only for now.", standins=["standins.c08_names", "standins.c08_alias"])
P("C09", "other",
  "Bounded: every canonical unit x 13 specs x 3 numeric registries, compound units up to 3 factors with exponents -3..3, "
  "round trips of plain formats, structural check of LaTeX/HTML/siunitx, magnitude specs, objects unchanged.",
  "Formatter helpers are not yet under contract.",
  "bounded stand-in only for now.", standins=["standins.c09_format"])
P("C10", "other",
  "Bounded: an independent reader of the definition-file grammar is compared with the registry built from the bundled files "
  "(exhaustive); generated definition sets under all line permutations and six loading paths; a catalogue of ill-formed inputs.",
  "Definition adders / solve_dependencies are not yet under contract.",
  "bounded stand-in only for now.", standins=["standins.c10_defs", "standins.c10_order"])
P("C11", "other",
  "Deductive: ContextChain.insert_contexts / remove_contexts (most recently enabled context first, in both the context list and "
  "the rule maps). Bounded: shortest-path minimality on all digraphs of <= 4 (quick) / 5 (thorough) nodes, bundled context rules "
  "against hand-written formulas, generated context stacks (precedence, parameter inheritance, redefinitions).",
  "ChainMap lookup order is an assumed contract of collections.ChainMap; Relation.transformation evaluates rule text with parse_expression (C07).",
  MIXED + ": proved = ordering of the active chain; bounded = shortest chain, rule application, parameter precedence, redefinitions.",
  standins=["standins.c11_contexts"])
P("C12", "other",
  "Deductive: the active stack after insert; remove is the original stack (lemma over the real ContextChain methods); "
  "context() restores the stack on normal AND exceptional exit of the with-body (try/finally of the real generator); "
  "disable_contexts pops exactly n. Bounded: all operation sequences of length <= 4/5 over 16 operations against a reference "
  "stack model, including failing activations and shared Context objects.",
  "enable_contexts and _switch_context_cache_and_units carry assumed contracts (their bodies are outside the verified subset); "
  "atomicity of a failed activation and absence of residue are decided by the bounded stand-in.",
  MIXED + ": proved = stack discipline of insert/remove/context()/disable_contexts; bounded = failed activation changes nothing, "
  "no residue in answers, shared contexts unmodified.",
  standins=["standins.c12_context_stack"])
P("C13", "other",
  "Deductive: the dimensionality memo is coherent (every cached entry equals the spec value, established and preserved by "
  "_get_dimensionality) and the recursions' results do not depend on memo contents. Bounded: query/state-change sequences "
  "compared with a fresh registry in the same declarative state.",
  "Other memos (root units, conversion factors, parse cache, base-unit cache) are covered by the stand-in only so far.",
  MIXED + ": proved = dimensionality memo coherence; bounded = history independence over sequences of <= 2 (quick) / 4 (thorough) operations.",
  standins=["standins.c13_history"])
P("C14", "other",
  "Bounded: base units for every multiplicative unit x 7 systems against an independent reading of the @system blocks and exact "
  "factors; group closure over all `using` DAGs on <= 4 groups with edit sequences; rule inversion catalogue; restricted "
  "compatible units; system attribute access.",
  "Group/System objects are not yet under contract.",
  "bounded stand-in only for now.", standins=["standins.c14_systems"])
P("C15", "other",
  "Bounded: to_root/base/reduced/compact/preferred and ito_ twins on all containers of <= 4 units from 3 dimension classes with "
  "exponents -3..3, exact in a Fraction registry; compact window; special magnitudes.",
  "qto helpers are not yet under contract.",
  "bounded stand-in only for now.", standins=["standins.c15_rewrite"])
P("C16", "other",
  "Bounded: for every function pint handles, results are compared with NumPy applied to root-unit magnitudes with the unit "
  "implied by an independently written homogeneity table; re-expression invariance; incompatible inputs; offset units; in-place.",
  "NumPy itself is an assumed dependency; pint's numpy_func bookkeeping is not yet under contract.",
  "bounded stand-in only for now.", standins=["standins.c16_numpy"])
P("C17", "other",
  "Bounded: generated signatures (1-4 parameters, positional/keyword/default) x unit-spec kinds for wraps and check, exact in a "
  "Fraction registry, arguments recorded inside the wrapped function.",
  "registry_helpers is not yet under contract.",
  "bounded stand-in only for now.", standins=["standins.c17_wraps"])
P("C18", "other",
  "Bounded: pickle protocols 0-5 x magnitude types x random units, copy/deepcopy/tuple forms, every exception class, "
  "cross-registry operators, deep-copied registries, lazy registry in a fresh interpreter.",
  "pickle / copy machinery is an assumed dependency.",
  "bounded stand-in only for now.", standins=["standins.c18_serialize"])
P("C19", "other",
  "Bounded: constructor forms, conversion of nominal value and standard deviation against exact factors, first-order propagation "
  "against own derivatives, all notation strings of a small grammar against a reference reader, measurement formats.",
  "uncertainties is an assumed dependency.",
  "bounded stand-in only for now.", standins=["standins.c19_measurement"])
P("C20", "other",
  "Exhaustive over an independently curated table of 342 standard values (SI prefixes and derived units, defining constants, "
  "yard/pound families, temperature scales, time, CGS, information, CODATA 2022): exact equality in a Fraction registry.",
  "The table (tables/standards.json) was written from memory of the standards (no network) and is part of the trusted base.",
  "closed comparison of the registry built by the real parser against an independent table (exhaustive over the table); rests "
  "on C02 for the meaning of to_root_units.", standins=["standins.c20_standards"])
