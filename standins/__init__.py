"""Bounded stand-ins (DESIGN.md): small-scope exhaustive / randomized checks of the real code against
independent reference implementations.  Always labelled `bounded`, never counted as proved.

Interface of every module here:

    run(tier: str, seed: int, **kw) -> dict with keys
        name, bound (text), evaluations (int), distinct_nontrivial (int), rule (text), exhaustive (bool),
        violations: list of {"case": <stable id string>, "what": <text>, ...json-able repro data...},
        samples: list (a few cases written out)
    replay(data: dict) -> bool      # re-run one recorded violation; True = property holds now
"""
