"""Bounded stand-in for C15 "Unit-rewriting helpers preserve the physical quantity".

Generated quantities: unit containers of <= 4 distinct units drawn from three dimension classes
(lengths meter/inch/kilometer/foot, times second/hour/millisecond, masses gram/pound) with exponents in
{-3..3}\\{0} (182,791 containers), magnitudes from catalogues (exact Fractions, floats over many decades, 0,
negative, tiny, huge, nan, +-inf), in a Fraction registry (exact comparison) and a float registry (rel. tol. 1e-12).

Oracle (independent of the code under test): standins.ref.Ref gives the exact factor to root units and the
dimensionality of every container from the definition table; physical value = magnitude * factor, compared in
rational arithmetic.  Name -> (prefix, unit) splitting for the to_compact clauses is Ref.resolve.

Clauses:
  to_root_units / to_base_units / to_reduced_units / to_compact / to_preferred (mip) and ito_ twins:
      same dimensionality, same physical value; the in-place form leaves the object equal to what the functional
      form returns; the functional form leaves its operand untouched;
  to_root_units: result units are exactly the root units (Ref); to_base_units (default system mks): meter/kilogram/second;
  to_reduced_units: no two units of the result have proportional dimensionalities;
  to_compact: after removing prefixes the result has the units of the input with prefixes removed, at most one unit
      carries a prefix and that prefix is a power of ten; when the leading unit (first unit with a positive
      exponent) has exponent 1 and 10**(3k) <= |value| < 10**(3k+3) with -30 <= 3k <= 30, the result magnitude is in
      [1, 1000); dimensionless, zero, NaN and infinite inputs are returned unchanged;
  auto_reduce_dimensions=True registries: a*b, a/b, a*=b, a/=b have the product / quotient value and no two
      mergeable units;  autoconvert_to_preferred=True: a*b, a/b keep the value.
"""
from __future__ import annotations

import itertools
import json
import math
import multiprocessing as mp
import random
import time
import warnings
from fractions import Fraction


def _cpu_total():
    """CPU seconds of this process and its finished children (the wall time depends on the machine load)"""
    import resource

    a = resource.getrusage(resource.RUSAGE_SELF)
    b = resource.getrusage(resource.RUSAGE_CHILDREN)
    return a.ru_utime + a.ru_stime + b.ru_utime + b.ru_stime


def _exc_text(e):
    """str(e) of a pint error can itself raise in a Fraction registry (formatting of Fraction exponents)"""
    try:
        return str(e)
    except Exception:  # noqa: BLE001
        return "<str() of the exception failed>"


NAME = "c15_rewrite"
NWORKERS = 16
RTOL = Fraction(1, 10 ** 12)

UNITS = ("meter", "inch", "kilometer", "foot", "second", "hour", "millisecond", "gram", "pound")
CLASS = {"meter": "L", "inch": "L", "kilometer": "L", "foot": "L", "second": "T", "hour": "T", "millisecond": "T",
         "gram": "M", "pound": "M"}
EXPS = (-3, -2, -1, 1, 2, 3)

try:  # to_preferred needs the optional `mip` package
    import mip  # noqa: F401

    HAS_MIP = True
except Exception:  # noqa: BLE001
    HAS_MIP = False


# =============================================================================== collector
class Collector:
    def __init__(self):
        self.entries = {}

    def add(self, case, what, example):
        e = self.entries.get(case)
        if e is None:
            e = self.entries[case] = {"case": case, "what": what, "instances": 0, "examples": []}
        e["instances"] += 1
        if len(e["examples"]) < 2:
            e["examples"].append(example)

    def merge(self, entries):
        for case, o in entries.items():
            e = self.entries.get(case)
            if e is None:
                self.entries[case] = {"case": case, "what": o["what"], "instances": o["instances"],
                                      "examples": list(o["examples"][:2])}
            else:
                e["instances"] += o["instances"]
                for ex in o["examples"]:
                    if len(e["examples"]) < 2:
                        e["examples"].append(ex)


# =============================================================================== registries (created once, forked)
_R = {}


def regs():
    if not _R:
        import pint
        from standins.ref import Ref

        _R["float"] = pint.UnitRegistry()
        _R["frac"] = pint.UnitRegistry(non_int_type=Fraction)
        _R["ar-float"] = pint.UnitRegistry(auto_reduce_dimensions=True)
        _R["ar-frac"] = pint.UnitRegistry(auto_reduce_dimensions=True, non_int_type=Fraction)
        if HAS_MIP:
            u = pint.UnitRegistry(autoconvert_to_preferred=True)
            u.default_preferred_units = [u.meter, u.second, u.kilogram]
            _R["pref-float"] = u
        _R["ref"] = Ref(_R["frac"])  # exact scales (the float registry stores e.g. 1/36 rounded)
        _R["fcache"] = {}
        _R["dcache"] = {}
    return _R


def factor(units):
    """exact factor to root units of an ordered tuple/dict of (unit, exponent)"""
    key = tuple(sorted(dict(units).items()))
    c = regs()["fcache"]
    if key not in c:
        c[key] = regs()["ref"].factor(dict(key))
    return c[key]


def dim(units):
    key = tuple(sorted(dict(units).items()))
    c = regs()["dcache"]
    if key not in c:
        c[key] = regs()["ref"].dim(dict(key))
    return c[key]


# =============================================================================== magnitudes
def enc_mag(m):
    if isinstance(m, Fraction):
        return ["F", m.numerator, m.denominator]
    if isinstance(m, bool):
        raise TypeError
    if isinstance(m, int):
        return ["i", m]
    return ["f", repr(m)]


def dec_mag(e):
    if e[0] == "F":
        return Fraction(e[1], e[2])
    if e[0] == "i":
        return int(e[1])
    return float(e[1])


def mag_id(m):
    if isinstance(m, Fraction):
        return "%d/%d" % (m.numerator, m.denominator)
    return repr(m)


def is_special(m):
    return isinstance(m, float) and (m != m or m in (float("inf"), float("-inf")))


def exact(m):
    return Fraction(m)  # float -> exact binary rational


def units_id(units):
    return "*".join(k if v == 1 else "%s^%s" % (k, v) for k, v in units) or "dimensionless"


def same_quantity(a, b):
    ma, mb = a.magnitude, b.magnitude
    same_m = (ma == mb and type(ma) is type(mb)) or (isinstance(ma, float) and isinstance(mb, float)
                                                     and ma != ma and mb != mb)
    return same_m and dict(a._units) == dict(b._units)


# =============================================================================== value comparison
def value_problem(regkind, m_in, units_in, q_out):
    """compare physical value and dimensionality of q_out with the input (m_in, units_in); -> text or None"""
    uo = dict(q_out._units)
    ref = regs()["ref"]
    if any(ref.resolve(k) is None for k in uo):
        return "result has unknown units %r" % (uo,)
    if dim(uo.items()) != dim(units_in):
        return "dimensionality changed: %s -> %s" % (units_id(units_in), units_id(sorted(uo.items())))
    mo = q_out.magnitude
    if is_special(m_in):
        if not isinstance(mo, float) or not ((m_in != m_in and mo != mo) or mo == m_in):
            return "magnitude %r became %r" % (m_in, mo)
        return None
    if is_special(mo):
        return "finite magnitude %r became %r" % (m_in, mo)
    vin = exact(m_in) * factor(units_in)
    vout = exact(mo) * factor(uo.items())
    if regkind.endswith("frac") and not isinstance(m_in, float):
        if isinstance(mo, float):
            # a float result in the exact registry: compare with tolerance but say so
            if vin == vout or abs(vin - vout) <= RTOL * max(abs(vin), abs(vout)):
                return None
            return "value changed: %s %s -> %r %s" % (mag_id(m_in), units_id(units_in), mo,
                                                      units_id(sorted(uo.items())))
        if vin != vout:
            return "value changed (exact): %s %s -> %s %s" % (mag_id(m_in), units_id(units_in), mag_id(mo),
                                                               units_id(sorted(uo.items())))
        return None
    if vin == vout:
        return None
    if abs(vin - vout) <= RTOL * max(abs(vin), abs(vout)):
        return None
    return "value changed: %r %s -> %r %s (relative error %.3e)" % (
        m_in, units_id(units_in), mo, units_id(sorted(uo.items())), float(abs(vin - vout) / max(abs(vin), abs(vout))))


def proportional(d1, d2):
    """dimensionalities (dicts) proportional with a non-zero ratio?"""
    if not d1 or not d2 or set(d1) != set(d2):
        return False
    ks = sorted(d1)
    r = Fraction(d2[ks[0]]) / Fraction(d1[ks[0]])
    return all(Fraction(d2[k]) == r * Fraction(d1[k]) for k in ks)


def mergeable_pair(q):
    names = list(dict(q._units))
    for a, b in itertools.combinations(names, 2):
        if proportional(dim(((a, 1),)), dim(((b, 1),))):
            return a, b
    return None


# =============================================================================== helpers under test
def make(regkind, m, units):
    ureg = regs()[regkind]
    return ureg.Quantity(m, ureg.UnitsContainer(dict(units)))


ROOT_NAMES = {"L": "meter", "T": "second", "M": "gram"}
BASE_NAMES = {"L": "meter", "T": "second", "M": "kilogram"}


def expected_root(units, names):
    d = {}
    for k, v in units:
        n = names[CLASS[k]]
        d[n] = d.get(n, 0) + v
    return {k: v for k, v in d.items() if v != 0}


def check_functional_and_inplace(op, regkind, m, units, col, extra=None, args=()):
    """Run q.to_X(*args) and q.ito_X(*args); returns the functional result (or None when it raised)."""
    ident = "%s:%s:%s" % (regkind, units_id(units), mag_id(m))
    ex = {"op": op, "reg": regkind, "units": [list(u) for u in units], "mag": enc_mag(m)}
    q = make(regkind, m, units)
    try:
        with warnings.catch_warnings():
            warnings.simplefilter("ignore")
            r = getattr(q, "to_" + op)(*args)
    except Exception as e:  # noqa: BLE001
        col.add("to_%s:raised:%s" % (op, ident), "to_%s raised %s: %s" % (op, type(e).__name__, _exc_text(e)), ex)
        return None
    q0 = make(regkind, m, units)
    if not same_quantity(q, q0):
        col.add("to_%s:operand-changed:%s" % (op, ident), "operand became %r %s" % (q.magnitude, dict(q._units)), ex)
    p = value_problem(regkind, m, units, r)
    if p:
        col.add("to_%s:value:%s" % (op, ident), p, ex)
    if extra:
        p = extra(r)
        if p:
            col.add("to_%s:%s:%s" % (op, p[0], ident), p[1], ex)
    if op != "compact":
        qi = make(regkind, m, units)
        try:
            with warnings.catch_warnings():
                warnings.simplefilter("ignore")
                ret = getattr(qi, "ito_" + op)(*args)
        except Exception as e:  # noqa: BLE001
            col.add("ito_%s:raised:%s" % (op, ident), "ito_%s raised %s: %s" % (op, type(e).__name__, _exc_text(e)), ex)
            return r
        if ret is not None:
            col.add("ito_%s:returned:%s" % (op, ident), "in-place form returned %r" % (ret,), ex)
        if not same_quantity(qi, r):
            col.add("ito_%s:differs:%s" % (op, ident),
                    "in place: %r %s, functional: %r %s" % (qi.magnitude, dict(qi._units), r.magnitude,
                                                            dict(r._units)), ex)
    return r


def structural_checks(regkind, m, units, col):
    """root / base / reduced (+ preferred on request) for one quantity; -> number of helper calls"""
    exp_root = expected_root(units, ROOT_NAMES)
    exp_base = expected_root(units, BASE_NAMES)

    def root_extra(r):
        if dict(r._units) != exp_root:
            return ("units", "root units %s, expected %s" % (dict(r._units), exp_root))

    def base_extra(r):
        if dict(r._units) != exp_base:
            return ("units", "base units (mks) %s, expected %s" % (dict(r._units), exp_base))

    def reduced_extra(r):
        pair = mergeable_pair(r)
        if pair:
            return ("mergeable", "result %s still has two units of one dimension: %s, %s"
                    % (units_id(sorted(dict(r._units).items())), pair[0], pair[1]))

    check_functional_and_inplace("root_units", regkind, m, units, col, root_extra)
    check_functional_and_inplace("base_units", regkind, m, units, col, base_extra)
    check_functional_and_inplace("reduced_units", regkind, m, units, col, reduced_extra)
    return 6


# ------------------------------------------------------------------------------- to_compact
BASES = ("meter", "inch", "foot", "second", "hour", "gram", "pound")


def split_prefix(name):
    """own split of a unit name of this stand-in's universe into (prefix value, base name); None if impossible"""
    from standins.ref import F

    if name in BASES:
        return Fraction(1), name
    ref = regs()["ref"]
    for p, pdef in ref.prefixes.items():
        if p and p == pdef.name and name.startswith(p) and name[len(p):] in BASES:
            return F(pdef.value), name[len(p):]
    return None


def strip_prefixes(units):
    """-> ordered list of (base name, exponent) with merged exponents, zero dropped; None for a foreign name"""
    d = {}
    order = []
    for k, v in units:
        sp = split_prefix(k)
        if sp is None:
            return None
        base = sp[1]
        if base not in d:
            d[base] = 0
            order.append(base)
        d[base] += v
    return [(b, d[b]) for b in order if d[b] != 0]


def power_of_ten(x):
    """exact: returns k with x == 10**k, else None"""
    x = Fraction(x)
    if x <= 0:
        return None
    k = 0
    while x >= 10:
        x /= 10
        k += 1
    while x < 1:
        x *= 10
        k -= 1
    return k if x == 1 else None


def decade3(v):
    """largest multiple of 3, p, with 10**p <= |v| (exact)"""
    v = abs(Fraction(v))
    p = 3 * (math.floor(math.log10(float(v)) / 3) if 1e-300 < float(v) < 1e300 else 0)
    while Fraction(10) ** p > v:
        p -= 3
    while Fraction(10) ** (p + 3) <= v:
        p += 3
    return p


def compact_check(regkind, m, units, col):
    ident = "%s:%s:%s" % (regkind, units_id(units), mag_id(m))
    ex = {"op": "compact", "reg": regkind, "units": [list(u) for u in units], "mag": enc_mag(m)}
    ref = regs()["ref"]
    q = make(regkind, m, units)
    try:
        with warnings.catch_warnings():
            warnings.simplefilter("ignore")
            r = q.to_compact()
    except Exception as e:  # noqa: BLE001
        col.add("to_compact:raised:%s" % ident, "to_compact raised %s: %s" % (type(e).__name__, _exc_text(e)), ex)
        return
    if not same_quantity(q, make(regkind, m, units)):
        col.add("to_compact:operand-changed:%s" % ident, "operand changed", ex)
    unchanged_expected = (not dim(units)) or is_special(m) or m == 0
    if unchanged_expected:
        if not same_quantity(r, q):
            col.add("to_compact:not-unchanged:%s" % ident,
                    "dimensionless/zero/nan/inf input must come back unchanged, got %r %s"
                    % (r.magnitude, dict(r._units)), ex)
        return
    p = value_problem(regkind, m, units, r)
    if p:
        col.add("to_compact:value:%s" % ident, p, ex)
        return
    B = strip_prefixes(units)
    ru = list(dict(r._units).items())
    Br = strip_prefixes(ru)
    if Br is None or dict(Br) != dict(B):
        col.add("to_compact:units:%s" % ident, "result units %s are not a re-prefixing of %s"
                % (units_id(ru), units_id(B)), ex)
        return
    prefixed = [(k, split_prefix(k)[0]) for k, _ in ru if split_prefix(k)[1] != k]
    if len(prefixed) > 1 or any(power_of_ten(pv) is None for _, pv in prefixed):
        col.add("to_compact:prefix:%s" % ident, "result %s carries prefixes %r (at most one decimal prefix expected)"
                % (units_id(ru), [k for k, _ in prefixed]), ex)
        return
    lead = next(((b, e) for b, e in B if e > 0), None)
    if lead is None or lead[1] != 1:
        return
    vB = exact(m) * factor(units) / factor(B)  # exact value expressed in the un-prefixed units
    p3 = decade3(vB)
    if not -30 <= p3 <= 30:
        return
    mo = r.magnitude
    if not (1 <= abs(mo) < 1000):
        ideal = vB / Fraction(10) ** p3
        # one-ulp misses at a decade boundary (float log10 rounding) get the id of the known float finding
        near = min(abs(abs(exact(mo)) / 1000 - 1), abs(abs(exact(mo)) - 1)) < Fraction(1, 10 ** 9) or \
            min(abs(abs(ideal) - 1000), abs(abs(ideal) - 1)) < Fraction(1, 10 ** 9)
        if near:
            col.add("compact-ulp:%s" % mag_id(m),
                    "Q(%s, %r).to_compact() = %r %s: magnitude outside [1, 1000) although the prefix for 1e%d exists"
                    % (mag_id(m), units_id(units), mo, units_id(ru), p3), ex)
        else:
            col.add("to_compact:range:%s" % ident,
                    "magnitude %r %s outside [1, 1000); value in un-prefixed units is %.6e, prefix for 1e%d exists"
                    % (mo, units_id(ru), float(vB), p3), ex)


# ------------------------------------------------------------------------------- to_preferred
PREFERRED_SETS = (("meter", "second", "gram"), ("kilometer", "hour", "pound"), ("inch", "millisecond"),
                  ("newton", "meter", "second"), ("watt", "second"))


def preferred_check(regkind, m, units, pset, col):
    ureg = regs()[regkind]
    pu = [getattr(ureg, n) for n in pset]
    ident = "%s:%s:%s:%s" % (regkind, "+".join(pset), units_id(units), mag_id(m))
    ex = {"op": "preferred", "reg": regkind, "units": [list(u) for u in units], "mag": enc_mag(m),
          "preferred": list(pset)}
    q = make(regkind, m, units)
    try:
        r = q.to_preferred(pu)
    except Exception as e:  # noqa: BLE001
        col.add("to_preferred:raised:%s" % ident, "to_preferred raised %s: %s" % (type(e).__name__, _exc_text(e)), ex)
        return
    if not same_quantity(q, make(regkind, m, units)):
        col.add("to_preferred:operand-changed:%s" % ident, "operand changed", ex)
    p = value_problem(regkind, m, units, r)
    if p:
        col.add("to_preferred:value:%s" % ident, p, ex)
    qi = make(regkind, m, units)
    try:
        ret = qi.ito_preferred(pu)
    except Exception as e:  # noqa: BLE001
        col.add("ito_preferred:raised:%s" % ident, "ito_preferred raised %s: %s" % (type(e).__name__, _exc_text(e)), ex)
        return
    if ret is not None:
        col.add("ito_preferred:returned:%s" % ident, "in-place form returned %r" % (ret,), ex)
    if not same_quantity(qi, r):
        col.add("ito_preferred:differs:%s" % ident, "in place %r %s, functional %r %s"
                % (qi.magnitude, dict(qi._units), r.magnitude, dict(r._units)), ex)


# ------------------------------------------------------------------------------- automatic application after * and /
def auto_check(regkind, ma, ua, mb, ub, col):
    """a*b, a/b, a*=b, a/=b in a registry with auto_reduce_dimensions / autoconvert_to_preferred"""
    ident = "%s:(%s %s),(%s %s)" % (regkind, mag_id(ma), units_id(ua), mag_id(mb), units_id(ub))
    ex = {"op": "auto", "reg": regkind, "a": [enc_mag(ma), [list(u) for u in ua]],
          "b": [enc_mag(mb), [list(u) for u in ub]]}
    n = 0
    for opname in ("mul", "truediv", "imul", "itruediv"):
        a = make(regkind, ma, ua)
        b = make(regkind, mb, ub)
        try:
            if opname == "mul":
                r = a * b
            elif opname == "truediv":
                r = a / b
            elif opname == "imul":
                r = a
                r *= b
            else:
                r = a
                r /= b
        except Exception as e:  # noqa: BLE001
            col.add("auto:%s:raised:%s" % (opname, ident), "%s raised %s: %s" % (opname, type(e).__name__, _exc_text(e)), ex)
            continue
        n += 1
        sign = 1 if "mul" in opname else -1
        comb = list(ua) + [(k + "", sign * v) for k, v in ub]
        # expected: value(a) * value(b)**sign, dimension of the combined container
        merged = {}
        for k, v in comb:
            merged[k] = merged.get(k, 0) + v
        merged_units = tuple((k, v) for k, v in merged.items() if v != 0)
        m_exp = exact(ma) * (exact(mb) if sign == 1 else 1 / exact(mb))
        # compare through value_problem with an equivalent (magnitude, units) input
        p = value_problem(regkind, m_exp if regkind.endswith("frac") else float(m_exp), merged_units, r)
        if p:
            col.add("auto:%s:value:%s" % (opname, ident), p, ex)
        if regkind.startswith("ar-"):
            pair = mergeable_pair(r)
            if pair:
                col.add("auto:%s:mergeable:%s" % (opname, ident),
                        "result %s keeps two units of one dimension" % units_id(sorted(dict(r._units).items())), ex)
        if not same_quantity(b, make(regkind, mb, ub)):
            col.add("auto:%s:operand-changed:%s" % (opname, ident), "right operand changed", ex)
        if opname in ("mul", "truediv") and not same_quantity(a, make(regkind, ma, ua)):
            col.add("auto:%s:operand-changed:%s" % (opname, ident), "left operand changed", ex)
    return n


# =============================================================================== enumeration
def all_containers(maxk=4):
    out = []
    for k in range(0, maxk + 1):
        for combo in itertools.combinations(range(len(UNITS)), k):
            for exps in itertools.product(EXPS, repeat=k):
                out.append(tuple((UNITS[i], e) for i, e in zip(combo, exps)))
    return out


def ordered(units, idx):
    """deterministic variation of the key order (it decides which unit survives a reduction / leads to_compact)"""
    r = idx % 3
    if r == 1:
        return tuple(reversed(units))
    if r == 2 and len(units) > 2:
        return units[1:] + units[:1]
    return units


STRUCT_MAGS = {"frac": (Fraction(7, 3),), "float": (1.5,)}
CATALOGUE = {
    "frac": (Fraction(7, 3), Fraction(-5, 2), Fraction(0), 0, 3, Fraction(1, 10 ** 9), Fraction(10 ** 12), Fraction(-1, 7)),
    "float": (1.5, -2.75, 0.0, -0.0, 1e-200, 3.3e-9, 7e200, -4.2e15, float("nan"), float("inf"), float("-inf"), 1.0),
}


def compact_magnitudes(tier):
    fl = []
    step = 1 if tier != "quick" else 2
    for k in range(-34, 35, step):
        for mant in (1.0, 3.7, -8.25):
            fl.append(mant * 10.0 ** k)
    fl += [999.9999999999999, 1000.0, 1000.0000000000001, 0.9999999999999999, 1.0, 1.0000000000000002,
           999999.9999999999, 1e6, 0.001, 0.0009999999999999998, 0.0010000000000000002, -999.9999999999999,
           999.9999999999998, 999.99999999, 1e3 - 1e-10, 0.0, float("nan"), float("inf"), float("-inf"),
           123.456, -0.0456]
    fr = [Fraction(10) ** k * mant for k in range(-33, 34, 3 if tier == "quick" else 1)
          for mant in (Fraction(1), Fraction(37, 10), Fraction(-999))]
    fr += [Fraction(0), Fraction(999999999999999999, 10 ** 15), Fraction(1000), Fraction(10 ** 18 + 1, 10 ** 15),
           Fraction(1, 3), Fraction(-2000, 3)]
    def uniq(xs):
        seen, out = set(), []
        for x in xs:
            key = repr(x)
            if key not in seen:
                seen.add(key)
                out.append(x)
        return out

    return {"float": uniq(fl), "frac": uniq(fr)}


def _worker(task):
    kind = task[0]
    col = Collector()
    evals = 0
    nontrivial = 0
    conts = _CONTS
    if kind == "struct":
        _, lo, hi, stride, offset = task
        for idx in range(lo, hi):
            if stride > 1 and len(conts[idx]) > 2 and idx % stride != offset:
                continue
            units = ordered(conts[idx], idx)
            for regkind in ("frac", "float"):
                for m in STRUCT_MAGS[regkind]:
                    evals += structural_checks(regkind, m, units, col)
                    nontrivial += len({CLASS[k] for k, _ in units}) < len(units)
    elif kind == "catalogue":
        _, lo, hi = task
        for idx in range(lo, hi):
            units = ordered(conts[idx], idx)
            for regkind in ("frac", "float"):
                for m in CATALOGUE[regkind]:
                    evals += structural_checks(regkind, m, units, col)
                    nontrivial += 1
    elif kind == "compact":
        _, lo, hi, tier, stride, offset = task
        mags = compact_magnitudes(tier)
        for idx in range(lo, hi):
            if stride > 1 and len(conts[idx]) > 2 and idx % stride != offset:
                continue
            units = ordered(conts[idx], idx)
            big = len(units) > 2
            for regkind in ("float", "frac"):
                ms = mags[regkind]
                if big:
                    ms = ms[idx % 7::7]
                for m in ms:
                    evals += 1
                    nontrivial += bool(dim(units)) and not is_special(m) and m != 0
                    compact_check(regkind, m, units, col)
    elif kind == "preferred":
        _, lo, hi, stride, offset = task
        for idx in range(lo, hi):
            if stride > 1 and idx % stride != offset:
                continue
            units = ordered(conts[idx], idx)
            for pi, pset in enumerate(PREFERRED_SETS):
                for m in ((2.5,) if (idx + pi) % 4 else (2.5, -3e7, 0.0)):
                    evals += 2
                    nontrivial += 1
                    preferred_check("float", m, units, pset, col)
    elif kind == "auto":
        _, lo, hi = task
        for a_idx, b_idx in _PAIRS[lo:hi]:
            ua = ordered(conts[a_idx], a_idx)
            ub = ordered(conts[b_idx], b_idx)
            for regkind, ma, mb in (("ar-frac", Fraction(7, 3), Fraction(-5, 2)), ("ar-float", 1.5, -2.75),
                                    ("pref-float", 1.5, 4.0)):
                if regkind == "pref-float" and (not HAS_MIP or (a_idx + b_idx) % 5):
                    continue
                evals += auto_check(regkind, ma, ua, mb, ub, col)
                nontrivial += 1
    return evals, nontrivial, col.entries


_CONTS = []
_PAIRS = []


def run(tier: str = "quick", seed: int = 0, **kw) -> dict:
    global _CONTS, _PAIRS
    t0 = time.time()
    cpu0 = _cpu_total()
    workers = int(kw.get("workers", NWORKERS))
    rng = random.Random(seed)
    regs()
    _CONTS = all_containers(4)
    n = len(_CONTS)
    n2 = sum(1 for c in _CONTS if len(c) <= 2)  # containers are ordered by size: the first n2 have <= 2 units
    n1 = sum(1 for c in _CONTS if len(c) <= 1)
    quick = tier == "quick"
    tasks = []
    s_struct = 12 if quick else 1
    s_comp = 150 if quick else 12
    s_pref = 6 if quick else 1
    o_struct, o_comp, o_pref = rng.randrange(s_struct), rng.randrange(s_comp), rng.randrange(s_pref)
    for lo in range(0, n, 1500):
        tasks.append(("struct", lo, min(n, lo + 1500), s_struct, o_struct))
    for lo in range(0, n2, 100):
        tasks.append(("catalogue", lo, min(n2, lo + 100)))
    for lo in range(0, n2, 50):
        tasks.append(("compact", lo, min(n2, lo + 50), tier, 1, 0))
    for lo in range(n2, n, 3000):
        tasks.append(("compact", lo, min(n, lo + 3000), tier, s_comp, o_comp))
    if HAS_MIP:
        for lo in range(0, n2, 40):
            tasks.append(("preferred", lo, min(n2, lo + 40), s_pref, o_pref))
    # pairs for the automatic application: all (<=1 unit) x (<=1 unit), plus (2 units) x (<=1 unit) strided
    pairs = [(a, b) for a in range(n1) for b in range(n1)]
    s_pair = 40 if quick else 4
    o_pair = rng.randrange(s_pair)
    pairs += [(a, b) for a in range(n1, n2) for b in range(n1) if (a * n1 + b) % s_pair == o_pair]
    for lo in range(0, len(pairs), 600):
        tasks.append(("auto", lo, min(len(pairs), lo + 600)))
    _PAIRS = pairs
    order = sorted(range(len(tasks)), key=lambda i: {"preferred": 0, "compact": 1, "struct": 2}.get(tasks[i][0], 3))
    tasks = [tasks[i] for i in order]
    ctx = mp.get_context("fork")
    if workers > 1:
        # one freshly forked child per task: pint memoises root units / conversion factors per container *equal up
        # to key order*, and a float factor depends on the multiplication order of whoever filled the memo first;
        # starting every task from the parent's memo state keeps the float results independent of the scheduling
        with ctx.Pool(workers, maxtasksperchild=1) as pool:
            results = pool.map(_worker, tasks, chunksize=1)
    else:
        results = [_worker(tk) for tk in tasks]
    col = Collector()
    evals = nontrivial = 0
    by_kind = {}
    for tk, (e, nt, entries) in zip(tasks, results):
        evals += e
        nontrivial += nt
        by_kind[tk[0]] = by_kind.get(tk[0], 0) + e
        col.merge(entries)
    entries = sorted(col.entries.values(), key=lambda e: (e["case"].split(":")[0], len(e["case"]), e["case"]))
    buckets = {}
    for e in entries:
        parts = e["case"].split(":")
        buckets.setdefault(":".join(parts[:2]) if parts[0] != "compact-ulp" else parts[0], []).append(e)
    chosen, i = [], 0
    while len(chosen) < 25 and any(i < len(b) for b in buckets.values()):
        for k in sorted(buckets):
            if i < len(buckets[k]) and len(chosen) < 25:
                chosen.append(buckets[k][i])
        i += 1
    chosen.sort(key=lambda e: e["case"])
    def show(f):
        try:
            r = f()
            return "%s %s" % (mag_id(r.magnitude), units_id(sorted(dict(r._units).items())))
        except Exception as e:  # noqa: BLE001
            return "raised %s" % type(e).__name__

    samples = [
        {"helper": "to_reduced_units", "input": "7/3 inch^2*foot^-1 (Fraction registry)",
         "result": show(lambda: make("frac", Fraction(7, 3), (("inch", 2), ("foot", -1))).to_reduced_units())},
        {"helper": "to_compact", "input": "1234.5 meter/second",
         "result": show(lambda: make("float", 1234.5, (("meter", 1), ("second", -1))).to_compact())},
        {"helper": "to_root_units", "input": "1.5 " + units_id(_CONTS[n - 1]),
         "result": show(lambda: make("float", 1.5, _CONTS[n - 1]).to_root_units())},
        {"helper": "auto_reduce_dimensions", "input": "(1.5 meter) * (-2.75 inch)",
         "result": show(lambda: make("ar-float", 1.5, (("meter", 1),)) * make("ar-float", -2.75, (("inch", 1),)))},
    ]
    mags = compact_magnitudes(tier)
    bound = (
        "unit containers of <= 4 distinct units from {%s} with exponents in {-3..3}\\{0}: %d containers (%d with <= 2 "
        "units); root/base/reduced + ito_ twins: %s containers x {7/3 in the Fraction registry, 1.5 in the float "
        "registry} and all %d small containers x the magnitude catalogues (%d exact, %d float incl. 0, -0.0, 1e-200, "
        "7e200, nan, +-inf); to_compact: all small containers x %d float and %d Fraction magnitudes (decades 1e-34.."
        "1e34, boundary values), %s of the larger ones x a seventh of the magnitudes; to_preferred (mip %s): %s small "
        "containers x %d preferred sets; auto_reduce_dimensions (Fraction and float) and autoconvert_to_preferred: "
        "%d operand pairs x {*, /, *=, /=}; three key orders per container size"
        % (", ".join(UNITS), n, n2, "all" if s_struct == 1 else "all small + every %dth of the larger" % s_struct, n2,
           len(CATALOGUE["frac"]), len(CATALOGUE["float"]), len(mags["float"]), len(mags["frac"]),
           "every %dth" % s_comp, "available" if HAS_MIP else "NOT importable: skipped",
           "all" if s_pref == 1 else "every %dth of the" % s_pref, len(PREFERRED_SETS), len(pairs)))
    return {
        "name": NAME,
        "tier": tier,
        "seed": seed,
        "bound": bound,
        "evaluations": evals,
        "evaluations_by_part": by_kind,
        "distinct_nontrivial": nontrivial,
        "rule": "itertools.combinations of the 9 units x product of exponents, in size order; non-trivial: structural "
                "cases with two units of one dimension class, every catalogue / compact case with a dimensional "
                "finite non-zero magnitude, every preferred and auto case",
        "exhaustive": not quick,
        "exhaustive_scope": "thorough: root/base/reduced helpers and their ito_ twins over all containers; to_compact, "
                            "to_preferred and the automatic application completely over the containers with <= 2 units "
                            "(resp. <= 1 unit operands) and strided over the larger ones, as stated in `bound`",
        "to_preferred": "checked" if HAS_MIP else "skipped: the optional package `mip` is not importable",
        "violations": chosen,
        "violation_count": len(entries),
        "violating_evaluations": sum(e["instances"] for e in entries),
        "violation_classes": {k: len(b) for k, b in sorted(buckets.items())},
        "samples": samples,
        "seconds": round(time.time() - t0, 1),
        "cpu_seconds": round(_cpu_total() - cpu0, 1),
    }


def replay(data: dict) -> bool:
    regs()
    ok = True
    for ex in data.get("examples", []):
        col = Collector()
        op = ex["op"]
        if op == "auto":
            (ma, ua), (mb, ub) = ex["a"], ex["b"]
            auto_check(ex["reg"], dec_mag(ma), tuple(tuple(u) for u in ua), dec_mag(mb), tuple(tuple(u) for u in ub),
                       col)
        else:
            units = tuple(tuple(u) for u in ex["units"])
            m = dec_mag(ex["mag"])
            if op == "compact":
                compact_check(ex["reg"], m, units, col)
            elif op == "preferred":
                if not HAS_MIP:
                    raise RuntimeError("mip not importable: cannot replay a to_preferred case")
                preferred_check(ex["reg"], m, units, tuple(ex["preferred"]), col)
            else:
                structural_checks(ex["reg"], m, units, col)
        ok = ok and not col.entries
    return ok


if __name__ == "__main__":
    import argparse

    ap = argparse.ArgumentParser()
    ap.add_argument("--tier", default="quick")
    ap.add_argument("--seed", type=int, default=0)
    ap.add_argument("--workers", type=int, default=NWORKERS)
    a = ap.parse_args()
    print(json.dumps(run(a.tier, a.seed, workers=a.workers), indent=1, default=str))
