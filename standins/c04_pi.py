"""Bounded stand-in for C04 (Buckingham pi): `pint.util.column_echelon_form`, `pint.util.pi_theorem`
and `UnitRegistry.pi_theorem` against an independent exact oracle.

Every integer matrix M (rows = dimensions, columns = quantities, entries in {-2..2}) of the stated shapes is
turned into a quantities mapping  name -> {dimension: exponent}  (zero exponents left out) and handed to the
real `pi_theorem` (registry=None path) and to the real `column_echelon_form`.  The oracle is an exact rank /
nullspace test by elimination written here (integers after clearing denominators: no rounding anywhere):

  pi_theorem          (1) every returned monomial is dimensionless:  M . v == 0
                      (2) number of monomials == n - rank(M)
                      (3) returned exponent vectors are linearly independent
                      (4) "Make all numbers integers and minimize the number of negative exponents. Remove zeros"
                          (source comment): all exponents integral, #negative <= #positive, no zero entry,
                          keys are input names
                      (5) the input mapping and its containers are not mutated
                      (0) no exception for a valid input
  column_echelon_form (a) T . M^T == E exactly, (b) T invertible, (c) E is in echelon form with rank(M)
                      non-zero rows, (d) transpose_result=True gives the transposes, (e) input not mutated.

Tiers: quick = all shapes up to 3x3 (2.0e6 matrices); thorough = additionally 1x4 and 2x4 (2.4e6 matrices, all
enumerated completely) plus a seeded 1/8 sample of the 3x4 matrices taken modulo column order (run(..., full34=True)
enumerates all 10,668,000 column multisets: about 8000 CPU seconds).

The order in which `pi_theorem` sees the dimensions is `list(set(...))`, i.e. it depends on string hashing
(randomised per process).  To make the run deterministic the dimension names used in the exhaustive part are
`str` subclass instances with pinned hashes 0,1,2, so that the set order equals the row order of M; all row
orders are then covered by the enumeration itself.
"""
from __future__ import annotations

import copy
import itertools
import json
import math
import multiprocessing as mp
import random
import time
from fractions import Fraction


def _cpu_total():
    """CPU seconds of this process and its finished children (the wall time depends on the machine load)"""
    import resource

    a = resource.getrusage(resource.RUSAGE_SELF)
    b = resource.getrusage(resource.RUSAGE_CHILDREN)
    return a.ru_utime + a.ru_stime + b.ru_utime + b.ru_stime


def _exc_text(e):
    """str(e) of a pint error can itself raise in a Fraction registry (formatting of Fraction exponents)"""
    try:
        return str(e)
    except Exception:  # noqa: BLE001
        return "<str() of the exception failed>"


NAME = "c04_pi"
ENTRIES = (-2, -1, 0, 1, 2)
NWORKERS = 16
KINDS_ORDER = ("crash", "not-dimensionless", "count", "dependent", "non-integer", "sign", "zero-entry",
               "bad-key", "mutated", "TM!=E", "T-singular", "not-echelon", "rank-rows", "transpose")


# ----------------------------------------------------------------------------- pinned-hash dimension names
class _Dim(str):
    """A dimension name whose hash is pinned (so that `list(set(dims))` inside pi_theorem is deterministic)."""

    def __new__(cls, s, h):
        o = str.__new__(cls, s)
        o._h = h
        return o

    def __hash__(self):
        return self._h

    def __reduce__(self):
        return (_Dim, (str.__str__(self), self._h))


DIMS = [_Dim("[d0]", 0), _Dim("[d1]", 1), _Dim("[d2]", 2), _Dim("[d3]", 3)]


def _selfcheck_order():
    s = set()
    for sub in ([DIMS[2]], [DIMS[1], DIMS[0]], [DIMS[3], DIMS[1]]):
        s = s.union(sub)
    if list(s) != DIMS:
        raise RuntimeError("harness: pinned-hash set order assumption does not hold on this interpreter")


# ----------------------------------------------------------------------------- independent exact linear algebra
def _to_int_rows(rows):
    """Clear denominators row by row (exact); rows of ints/Fractions -> rows of ints (same rank / nullspace)."""
    out = []
    for row in rows:
        row = [Fraction(x) for x in row]
        m = 1
        for x in row:
            m = m * x.denominator // math.gcd(m, x.denominator)
        out.append([int(x * m) for x in row])
    return out


def rank_exact(rows):
    """Rank by fraction-free elimination over the integers (exact)."""
    a = [list(r) for r in rows]
    if not a or not a[0]:
        return 0
    if not all(isinstance(x, int) for r in a for x in r):
        a = _to_int_rows(a)
    nr, nc = len(a), len(a[0])
    rk = 0
    for col in range(nc):
        piv = None
        for i in range(rk, nr):
            if a[i][col] != 0:
                piv = i
                break
        if piv is None:
            continue
        a[rk], a[piv] = a[piv], a[rk]
        p = a[rk]
        pv = p[col]
        for i in range(rk + 1, nr):
            f = a[i][col]
            if f:
                ri = a[i]
                a[i] = [pv * x - f * y for x, y in zip(ri, p)]
        rk += 1
        if rk == nr:
            break
    return rk


def _as_fraction(x):
    if isinstance(x, (int, Fraction)):
        return Fraction(x)
    if isinstance(x, float):
        if x != x or x in (float("inf"), float("-inf")):
            raise ValueError("non finite exponent")
        if x.is_integer():
            return Fraction(int(x))
        # non integral float: the code under test produced k*max_den/den in floating point; recover the
        # rational it rounds (denominators here are tiny) so that the other clauses can still be judged
        return Fraction(x).limit_denominator(10 ** 6)
    return Fraction(x)


# ----------------------------------------------------------------------------- case construction
def mat_id(M):
    return ";".join(",".join(str(x) for x in row) for row in M)


def mat_from_id(s):
    return [[int(x) for x in row.split(",")] for row in s.split(";")]


def build_quantities(M, dims=DIMS):
    from pint.util import UnitsContainer

    r, c = len(M), len(M[0])
    return {
        "q%d" % j: UnitsContainer({dims[i]: M[i][j] for i in range(r) if M[i][j] != 0}) for j in range(c)
    }


def _snapshot(q):
    return [(k, tuple(dict(v).items())) for k, v in q.items()]


# ----------------------------------------------------------------------------- the checks
def check_pi(M, rank=None):
    """-> list of (kind, what) for pi_theorem on matrix M (dimension x quantity)."""
    from pint.util import pi_theorem

    r, c = len(M), len(M[0])
    q = build_quantities(M)
    before = _snapshot(q)
    out = []
    try:
        res = pi_theorem(q)
    except Exception as e:  # the input is valid: an exception is a violation of "returns a basis"
        out.append(("crash", "pi_theorem raised %s: %s; expected %d monomial(s)"
                    % (type(e).__name__, _exc_text(e), c - (rank if rank is not None else rank_exact(M)))))
        if _snapshot(q) != before:
            out.append(("mutated", "input mapping changed"))
        return out, None
    if _snapshot(q) != before:
        out.append(("mutated", "input mapping changed: %r -> %r" % (before, _snapshot(q))))
    if rank is None:
        rank = rank_exact(M)
    names = ["q%d" % j for j in range(c)]
    if len(res) != c - rank:
        out.append(("count", "returned %d monomials, expected n - rank = %d - %d = %d"
                    % (len(res), c, rank, c - rank)))
    vecs = []
    for mono in res:
        bad = [k for k in mono if k not in names]
        if bad:
            out.append(("bad-key", "monomial has keys %r that are not input names" % (bad,)))
            continue
        vals = list(mono.values())
        if any(v == 0 for v in vals):
            out.append(("zero-entry", "monomial %r keeps a zero exponent" % (mono,)))
        nonint = [v for v in vals if not (isinstance(v, int) or (isinstance(v, float) and v.is_integer())
                                          or (isinstance(v, Fraction) and v.denominator == 1))]
        # (integrality of the exponents is pint's docstring, not the property: not checked)
        neg = sum(1 for v in vals if v < 0)
        pos = sum(1 for v in vals if v > 0)
        if neg > pos:
            out.append(("sign", "monomial %r has %d negative vs %d positive exponents" % (mono, neg, pos)))
        v = [_as_fraction(mono.get(nm, 0)) for nm in names]
        vecs.append(v)
        for i in range(r):
            s = sum(M[i][j] * v[j] for j in range(c))
            if s != 0:
                out.append(("not-dimensionless", "monomial %r has exponent %s of dimension d%d" % (mono, s, i)))
                break
    if vecs and rank_exact(vecs) != len(vecs):
        out.append(("dependent", "returned monomials %r are linearly dependent" % (res,)))
    return out, res


def _is_echelon(E):
    """rows: non-zero rows first, leading positions strictly increasing. -> (ok, n_nonzero_rows)"""
    last = -1
    seen_zero = False
    nz = 0
    for row in E:
        lead = next((k for k, x in enumerate(row) if x != 0), None)
        if lead is None:
            seen_zero = True
            continue
        if seen_zero or lead <= last:
            return False, nz
        last = lead
        nz += 1
    return True, nz


def check_cef(M, rank=None, with_transpose=True):
    """-> list of (kind, what) for column_echelon_form on matrix M."""
    from pint.util import column_echelon_form

    r, c = len(M), len(M[0])
    Min = [list(row) for row in M]
    out = []
    try:
        E, T, swapped = column_echelon_form(Min)
    except Exception as e:
        return [("crash", "column_echelon_form raised %s: %s" % (type(e).__name__, _exc_text(e)))]
    if Min != M:
        out.append(("mutated", "input matrix changed"))
    if rank is None:
        rank = rank_exact(M)
    # working orientation: rows of E/T = quantities (c of them); E is c x r, T is c x c;  T . M^T == E
    ok_shape = len(E) == c and all(len(row) == r for row in E) and len(T) == c and all(len(row) == c for row in T)
    if not ok_shape:
        return out + [("TM!=E", "unexpected shapes E=%dx%d T=%dx%d" % (len(E), len(E[0]), len(T), len(T[0])))]
    for a in range(c):
        Ta = T[a]
        for b in range(r):
            s = 0
            Mb = M[b]
            for k in range(c):
                s += Ta[k] * Mb[k]
            if s != E[a][b]:
                out.append(("TM!=E", "(T . M^T)[%d][%d] = %s but E = %s" % (a, b, s, E[a][b])))
                break
        else:
            continue
        break
    if rank_exact(T) != c:
        out.append(("T-singular", "transformation matrix %r is singular" % (T,)))
    ok, nz = _is_echelon(E)
    if not ok:
        out.append(("not-echelon", "E = %r is not in echelon form" % (E,)))
    elif nz != rank:
        out.append(("rank-rows", "E has %d non-zero rows, rank is %d" % (nz, rank)))
    if with_transpose:
        E2, T2, sw2 = column_echelon_form([list(row) for row in M], transpose_result=True)
        if [list(x) for x in zip(*E)] != E2 or [list(x) for x in zip(*T)] != T2 or sw2 != swapped:
            out.append(("transpose", "transpose_result=True is not the transpose of the default result"))
    return out


def check_case(M, do_pi=True, do_cef=True):
    rank = rank_exact(M)
    viol = []
    res = None
    if do_pi:
        v, res = check_pi(M, rank)
        viol += [("pi", k, w) for k, w in v]
    if do_cef:
        viol += [("cef", k, w) for k, w in check_cef(M, rank, with_transpose=len(M) * len(M[0]) <= 6)]
    return rank, viol, res


# ----------------------------------------------------------------------------- enumeration (tasks for workers)
def _full_tasks(r, c, do_cef, stride=1, offset=0, chunk=4000):
    total = 5 ** (r * c)
    idx = range(offset % stride if stride > 1 else 0, total, stride)
    n = len(idx)
    tasks = []
    for a in range(0, n, chunk):
        sub = idx[a:a + chunk]
        tasks.append(("full", r, c, sub.start, sub.stop, sub.step, do_cef))
    return tasks


def _matrix_from_index(i, r, c):
    cells = []
    for _ in range(r * c):
        i, d = divmod(i, 5)
        cells.append(ENTRIES[d])
    cells.reverse()
    return [cells[k * c:(k + 1) * c] for k in range(r)]


_COLS3 = list(itertools.product(ENTRIES, repeat=3))  # 125 columns of height 3


def _canon_tasks(do_cef, stride, offset):
    # all multisets of 4 columns (height 3): split by the two smallest column indices
    return [("canon", a, b, do_cef, stride, offset) for a in range(125) for b in range(a, 125)]


def _iter_task(task):
    if task[0] == "full":
        _, r, c, start, stop, step, do_cef = task
        for i in range(start, stop, step):
            yield _matrix_from_index(i, r, c), do_cef
    else:
        _, a, b, do_cef, stride, offset = task
        n = a * 131 + b * 17  # de-correlate the stride phase between blocks
        for cc in range(b, 125):
            for d in range(cc, 125):
                n += 1
                if stride > 1 and n % stride != offset:
                    continue
                cols = [_COLS3[a], _COLS3[b], _COLS3[cc], _COLS3[d]]
                yield [[cols[j][i] for j in range(4)] for i in range(3)], do_cef


def _work(task):
    evals = 0
    nontrivial = 0
    kinds = {}
    viols = []
    nonprimitive = 0
    for M, do_cef in _iter_task(task):
        rank, v, res = check_case(M, True, do_cef)
        evals += 1
        if rank < len(M[0]) and any(x for row in M for x in row):
            nontrivial += 1
        if res:
            for mono in res:
                vals = [abs(int(x)) for x in mono.values() if float(x).is_integer()]
                if len(vals) == len(mono) and vals and math.gcd(*vals) > 1:
                    nonprimitive += 1
        for target, kind, what in v:
            key = target + ":" + kind
            kinds[key] = kinds.get(key, 0) + 1
            if kinds[key] <= 6:
                viols.append(_viol(target, kind, what, M))
    return evals, nontrivial, kinds, viols, nonprimitive


def _viol(target, kind, what, M):
    return {"case": "%s:%s:%dx%d:%s" % (target, kind, len(M), len(M[0]), mat_id(M)), "what": what,
            "target": target, "kind": kind, "matrix": mat_id(M)}


# ----------------------------------------------------------------------------- registry cases
def _registry_catalogue():
    """label -> (ordered {name: {unit: exponent}})   -- unit containers written by hand (not parsed by pint)"""
    return {
        "movement": {"V": {"meter": 1, "second": -1}, "T": {"second": 1}, "L": {"meter": 1}},
        "pendulum": {"T": {"second": 1}, "M": {"gram": 1}, "L": {"meter": 1}, "g": {"meter": 1, "second": -2}},
        "reynolds": {"rho": {"kilogram": 1, "meter": -3}, "v": {"meter": 1, "second": -1}, "L": {"foot": 1},
                     "mu": {"pascal": 1, "second": 1}},
        "drag": {"F": {"newton": 1}, "rho": {"gram": 1, "centimeter": -3}, "v": {"mile": 1, "hour": -1},
                 "A": {"inch": 2}, "mu": {"poise": 1}},
        "mixed-units": {"E": {"joule": 1}, "E2": {"electron_volt": 1}, "P": {"watt": 1}, "t": {"minute": 1}},
        "independent": {"L": {"meter": 1}, "T": {"second": 1}, "M": {"gram": 1}},
        "with-dimensionless": {"a": {"radian": 1}, "L": {"meter": 1}, "L2": {"kilometer": 2}},
        "electrical": {"V": {"volt": 1}, "I": {"ampere": 1}, "R": {"ohm": 1}, "P": {"watt": 1}},
        "half-power": {"a": {"meter": 2}, "b": {"meter": 3}, "c": {"second": 2}, "d": {"second": -3}},
        # unique monomial a**3 * b**2 * c**6: the rational solution (1/2, 1/3, 1) has two different denominators
        "two-denominators": {"a": {"meter": 2}, "b": {"second": 3}, "c": {"meter": -1, "second": -1}},
    }


def _uc_to_string(uc):
    return " * ".join("%s ** %d" % (k, v) for k, v in uc.items())


_REG = {}


def _registries():
    if not _REG:
        import pint
        from standins.ref import Ref

        _REG["float"] = pint.UnitRegistry()
        _REG["frac"] = pint.UnitRegistry(non_int_type=Fraction)
        _REG["ref"] = Ref(_REG["float"])
    return _REG


def check_registry_case(label, form, regkind):
    """form in {'str','dict','quantity','unit'}; -> list of (kind, what)"""
    regs = _registries()
    ureg = regs[regkind]
    ref = regs["ref"]
    spec = _registry_catalogue()[label]
    names = list(spec)
    dims = [ref.dim(uc) for uc in spec.values()]
    alld = sorted({d for dd in dims for d in dd})
    M = [[dd.get(d, Fraction(0)) for dd in dims] for d in alld]
    rank = rank_exact(M) if M else 0
    if form == "str":
        q = {k: _uc_to_string(v) for k, v in spec.items()}
    elif form == "dict":
        q = {k: dict(v) for k, v in spec.items()}
    elif form == "quantity":
        q = {k: ureg.Quantity(3, ureg.UnitsContainer(v)) for k, v in spec.items()}
    else:
        q = {k: ureg.Unit(ureg.UnitsContainer(v)) for k, v in spec.items()}
    before = copy.deepcopy(q) if form in ("str", "dict") else list(q)
    out = []
    try:
        res = ureg.pi_theorem(q)
    except Exception as e:
        return [("crash", "ureg.pi_theorem raised %s: %s" % (type(e).__name__, _exc_text(e)))]
    after = q if form in ("str", "dict") else list(q)
    if after != before:
        out.append(("mutated", "input mapping changed"))
    if len(res) != len(names) - rank:
        out.append(("count", "returned %d monomials, expected %d" % (len(res), len(names) - rank)))
    vecs = []
    for mono in res:
        if any(k not in names for k in mono):
            out.append(("bad-key", "%r" % (mono,)))
            continue
        if any(v == 0 for v in mono.values()):
            out.append(("zero-entry", "%r" % (mono,)))
        # (integrality of the exponents is not part of the property: not checked)
        if sum(v < 0 for v in mono.values()) > sum(v > 0 for v in mono.values()):
            out.append(("sign", "%r" % (mono,)))
        v = [_as_fraction(mono.get(nm, 0)) for nm in names]
        vecs.append(v)
        for i, d in enumerate(alld):
            if sum(M[i][j] * v[j] for j in range(len(names))) != 0:
                out.append(("not-dimensionless", "monomial %r is not free of %s" % (mono, d)))
                break
    if vecs and rank_exact(vecs) != len(vecs):
        out.append(("dependent", "%r" % (res,)))
    return out


def _float_entry_cases():
    """column_echelon_form with float entries (ntype.from_float branch) must agree with the int matrix."""
    from pint.util import column_echelon_form

    out = []
    n = 0
    for cells in itertools.product(ENTRIES, repeat=4):
        M = [list(cells[:2]), list(cells[2:])]
        Mf = [[float(x) for x in row] for row in M]
        n += 1
        if column_echelon_form(Mf) != column_echelon_form(M):
            out.append(_viol("cef", "float-entries", "float-valued matrix gives a different result", M))
    return n, out


# ----------------------------------------------------------------------------- driver
def _plain_dict_probe():
    """Observation (not counted): plain dict values on the registry=None path."""
    from pint.util import pi_theorem

    try:
        pi_theorem({"V": {"[length]": 1, "[time]": -1}, "T": {"[time]": 1}, "L": {"[length]": 1}})
        return "plain-dict values without a registry: accepted"
    except Exception as e:
        return ("plain-dict values without a registry raise %s: %s (the isinstance(value, dict) branch uses "
                "registry.UnitsContainer with registry=None); the enumeration therefore passes "
                "pint.util.UnitsContainer values" % (type(e).__name__, _exc_text(e)))


def run(tier: str = "quick", seed: int = 0, **kw) -> dict:
    t0 = time.time()
    cpu0 = _cpu_total()
    _selfcheck_order()
    workers = int(kw.get("workers", NWORKERS))
    tasks = []
    shapes_full = []
    if tier == "quick":
        for r in (1, 2, 3):
            for c in (1, 2, 3):
                do_cef = r * c <= 6
                tasks += _full_tasks(r, c, do_cef)
                shapes_full.append("%dx%d" % (r, c))
        # column_echelon_form directly on a seeded 1/32 stride of the 3x3 matrices
        off = random.Random(seed).randrange(32)
        cef_extra = ("full", 3, 3, off, 5 ** 9, 32, "cef-only")
        bound_extra = ("; column_echelon_form directly on all shapes with <= 6 cells and on a seeded 1/32 sample of the "
                       "3x3 matrices")
    else:
        for r in (1, 2, 3):
            for c in (1, 2, 3, 4):
                if (r, c) == (3, 4):
                    continue
                tasks += _full_tasks(r, c, True)
                shapes_full.append("%dx%d" % (r, c))
        full34 = bool(kw.get("full34", False))
        stride34 = 1 if full34 else 8
        tasks += _canon_tasks(True, stride34, random.Random(seed).randrange(stride34))
        cef_extra = None
        bound_extra = ("; column_echelon_form directly on all of these as well; additionally (%s) 3x4 matrices, one per "
                       "multiset of 4 columns in ascending order (C(128,4) = 10,668,000 multisets), through both "
                       "functions" % ("all" if full34 else "a seeded 1/8 sample, not exhaustive, of the"))

    evals = 0
    nontrivial = 0
    kinds = {}
    viols = []
    nonprimitive = 0

    def absorb(res):
        nonlocal evals, nontrivial, nonprimitive
        e, nt, k, v, npv = res
        evals += e
        nontrivial += nt
        nonprimitive += npv
        for a, b in k.items():
            kinds[a] = kinds.get(a, 0) + b
        viols.extend(v)

    all_tasks = list(tasks)
    if cef_extra:
        # split the strided cef-only pass
        _, r, c, start, stop, step, _ = cef_extra
        idx = range(start, stop, step)
        for a in range(0, len(idx), 4000):
            sub = idx[a:a + 4000]
            all_tasks.append(("cefonly", r, c, sub.start, sub.stop, sub.step))
    ctx = mp.get_context("fork")
    if workers > 1:
        with ctx.Pool(workers) as pool:
            for res in pool.imap(_work_any, all_tasks, chunksize=4):
                absorb(res)
    else:
        for t in all_tasks:
            absorb(_work_any(t))

    # float-entry agreement (2x2, all 625)
    n, v = _float_entry_cases()
    evals += n
    for x in v:
        kinds["cef:float-entries"] = kinds.get("cef:float-entries", 0) + 1
        viols.append(x)

    # registry cases
    reg_samples = []
    for label in _registry_catalogue():
        for form in ("str", "dict", "quantity", "unit"):
            for regkind in ("float", "frac"):
                evals += 1
                nontrivial += 1
                for kind, what in check_registry_case(label, form, regkind):
                    key = "pi-reg:" + kind
                    kinds[key] = kinds.get(key, 0) + 1
                    viols.append({"case": "pi-reg:%s:%s:%s:%s" % (kind, label, form, regkind), "what": what,
                                  "target": "pi-reg", "kind": kind, "label": label, "form": form,
                                  "registry": regkind})
    regs = _registries()
    try:
        shown = [{k: float(v) for k, v in m.items()} for m in
                 regs["float"].pi_theorem({"V": "meter/second", "T": "second", "L": "meter"})]
    except Exception as e:  # noqa: BLE001
        shown = "raised %s" % type(e).__name__
    reg_samples.append({"call": "ureg.pi_theorem({'V': 'meter/second', 'T': 'second', 'L': 'meter'})",
                        "result": shown})

    # deterministic selection of at most 25 violations: round robin over kinds, smallest matrices first
    def vkey(v):
        kind = v["kind"]
        ko = KINDS_ORDER.index(kind) if kind in KINDS_ORDER else len(KINDS_ORDER)
        return (v["target"], ko, len(v.get("matrix", "")), v["case"])

    viols.sort(key=vkey)
    buckets = {}
    for v in viols:
        buckets.setdefault((v["target"], v["kind"]), []).append(v)
    chosen = []
    i = 0
    while len(chosen) < 25 and any(i < len(b) for b in buckets.values()):
        for key in sorted(buckets):
            if i < len(buckets[key]) and len(chosen) < 25:
                chosen.append(buckets[key][i])
        i += 1
    chosen.sort(key=vkey)

    samples = []
    for M in ([[1, 0, 1], [-1, 1, 0]], [[2, -1, 0], [1, 1, -2], [0, 2, 1]], [[1, 2, -1, 0], [0, 1, 1, -2], [2, 0, 1, 1]]):
        rank, v, res = check_case(M)
        samples.append({"matrix(dimension x quantity)": mat_id(M), "rank": rank,
                        "pi_theorem": [{k: float(x) for k, x in m.items()} for m in (res or [])],
                        "violations": [k for _, k, _ in v]})
    samples += reg_samples

    bound = ("all integer matrices with entries in {-2..2} (rows = dimensions, columns = quantities) of shapes "
             + ", ".join(shapes_full) + " enumerated completely through pint.util.pi_theorem (registry=None, "
             "UnitsContainer values, all dimension orders)" + bound_extra
             + "; 625 float-valued 2x2 matrices; %d registry cases (%d quantity sets x 4 input forms x float/Fraction "
               "registry)" % (len(_registry_catalogue()) * 8, len(_registry_catalogue())))
    return {
        "name": NAME,
        "tier": tier,
        "seed": seed,
        "bound": bound,
        "evaluations": evals,
        "distinct_nontrivial": nontrivial,
        "rule": "base-5 counter over the cells of each shape (3x4: combinations_with_replacement of the 125 "
                "columns); a case is non-trivial when the matrix is non-zero and rank < number of quantities "
                "(non-empty nullspace)",
        "exhaustive": True,
        "violations": chosen,
        "violation_count": sum(kinds.values()),
        "violation_kinds": dict(sorted(kinds.items())),
        "observations": [
            _plain_dict_probe(),
            "%d returned monomials have integer exponents with a common factor > 1 (not claimed by the source "
            "comment, not counted)" % nonprimitive,
        ],
        "samples": samples,
        "seconds": round(time.time() - t0, 1),
        "cpu_seconds": round(_cpu_total() - cpu0, 1),
    }


def _work_any(task):
    if task[0] == "cefonly":
        _, r, c, start, stop, step = task
        evals = 0
        kinds = {}
        viols = []
        for i in range(start, stop, step):
            M = _matrix_from_index(i, r, c)
            evals += 1
            for kind, what in check_cef(M, None, with_transpose=False):
                key = "cef:" + kind
                kinds[key] = kinds.get(key, 0) + 1
                if kinds[key] <= 6:
                    viols.append(_viol("cef", kind, what, M))
        return evals, 0, kinds, viols, 0
    return _work(task)


def replay(data: dict) -> bool:
    """Re-run one recorded violation; True when no clause fails any more for that input."""
    target = data.get("target")
    if target == "pi-reg":
        return not check_registry_case(data["label"], data["form"], data["registry"])
    M = mat_from_id(data["matrix"])
    if target == "pi":
        _selfcheck_order()
        return not check_pi(M)[0]
    if data.get("kind") == "float-entries":
        from pint.util import column_echelon_form

        return column_echelon_form([[float(x) for x in row] for row in M]) == column_echelon_form(M)
    return not check_cef(M, None, with_transpose=True)


if __name__ == "__main__":
    import argparse

    ap = argparse.ArgumentParser()
    ap.add_argument("--tier", default="quick")
    ap.add_argument("--seed", type=int, default=0)
    ap.add_argument("--workers", type=int, default=NWORKERS)
    a = ap.parse_args()
    print(json.dumps(run(a.tier, a.seed, workers=a.workers), indent=1, default=str))
