"""Bounded stand-in for C05 "Equality, ordering and hashing agree with physical value".

Oracle (independent of the code under test): the physical value of a quantity, computed exactly as a Fraction --
magnitude x factor to root units from the definition table (standins.ref.Ref) for multiplicative units, and the
standard affine maps written here for the offset temperature units (degC -> K: x + 273.15; degF -> K: (x + 459.67)*5/9)
-- plus its dimensionality (Ref.dim).  From the property statement:
    a == b   iff same dimensionality and equal physical values;  a != b is the negation;
    == is reflexive, symmetric, transitive (checked on the answers pint gives, over all triples of the catalogue);
    a == b  =>  hash(a) == hash(b);
    comparable quantities in positively scaled multiplicative units: exactly one of <, ==, > holds, it is the order of
    the physical values, and <=, >= are the corresponding unions;  ordering across dimensions raises
    DimensionalityError while == is False and != True;
    a bare number: == is the comparison of values for a dimensionless quantity, `value == 0` for the number zero, False
    otherwise; <,<=,>,>= likewise, and raise for a non-zero number against a dimensional quantity; bool(q) is
    `value != 0` for multiplicative units.
Not fixed by the statement and therefore only recorded, never reported: equality of an offset quantity (degC) with a
delta quantity (delta_degC) -- conversion between the two is refused (C06) -- and comparisons of offset quantities with
the number 0 in the default registry mode (refused as ambiguous); the transitivity clause is still checked on whatever
pint answers there, under its own id class (`trans-delta-offset`).

Parts (Fraction registry = exact; float registry = order/equality away from ties only, as the property's quantifier says)
  1 catalogue: quantities in lengths, times, speeds (compound), rates (hertz/becquerel/1/second), dimensionless units with
    different root units (dimensionless/percent/radian/count/bit/byte/meter per centimeter), energies (joule vs compound),
    masses, temperatures (kelvin, degR, degC, degF, delta_degC, delta_degF; zero magnitudes in each): all ordered pairs
    x {==, !=, <, <=, >, >=, hash} against the oracle, all triples for transitivity;
  2 every pair of canonical (declared, unprefixed) multiplicative units of the registry with the same dimensionality:
    Q(1, a) against the same value written in b (equal -> ==, equal hashes, <= and >=, not <) and against a value
    1/1000 larger (<, not ==); thorough tier adds kilo-/milli- prefixed partners and a second magnitude;
  3 bare numbers (0, 0.0, Fraction(0), 1, 1/2, -1, 2, nan) on both sides of every comparison, and bool();
  4 Unit objects: alias spellings compare equal and hash equal (`ureg.meter == ureg.metre`), Unit ordering equals the
    ordering of 1*unit, across dimensions it raises;
  5 registry with autoconvert_offset_to_baseunit=True: same pair checks on the temperature catalogue, and offset
    quantities against the number 0 (compares the value in kelvin).
"""
from __future__ import annotations

import copy
import itertools
import json
import multiprocessing as mp
import operator
import random
import time
from fractions import Fraction

NAME = "c05_compare"
NWORKERS = 16
NAN = float("nan")
Fr = Fraction


def _cpu_total():
    import resource

    a = resource.getrusage(resource.RUSAGE_SELF)
    b = resource.getrusage(resource.RUSAGE_CHILDREN)
    return a.ru_utime + a.ru_stime + b.ru_utime + b.ru_stime


def U(*pairs):
    return tuple(pairs)


# affine maps to kelvin written from the definitions of the scales (NOT read from the registry)
AFFINE = {
    "degree_Celsius": lambda x: x + Fr(27315, 100),
    "degree_Fahrenheit": lambda x: (x + Fr(45967, 100)) * Fr(5, 9),
}
SHORT = {"degree_Celsius": "degC", "degree_Fahrenheit": "degF", "degree_Rankine": "degR",
         "delta_degree_Celsius": "delta_degC", "delta_degree_Fahrenheit": "delta_degF"}

CATALOGUE = [
    # lengths
    (U(("meter", 1)), Fr(0)), (U(("meter", 1)), 1), (U(("meter", 1)), Fr(127, 50)), (U(("meter", 1)), Fr(-1)),
    (U(("centimeter", 1)), 254), (U(("centimeter", 1)), Fr(100)), (U(("centimeter", 1)), 0),
    (U(("inch", 1)), 100), (U(("inch", 1)), Fr(5000, 127)), (U(("inch", 1)), Fr(-5000, 127)),
    (U(("kilometer", 1)), Fr(1, 1000)), (U(("kilometer", 1)), Fr(0)), (U(("millimeter", 1)), Fr(2540)),
    # times
    (U(("second", 1)), 60), (U(("second", 1)), 0), (U(("minute", 1)), Fr(1)), (U(("millisecond", 1)), Fr(60000)),
    (U(("hour", 1)), Fr(1, 60)),
    # speeds (compound units)
    (U(("meter", 1), ("second", -1)), 1), (U(("meter", 1), ("second", -1)), Fr(5, 18)),
    (U(("kilometer", 1), ("hour", -1)), Fr(1)), (U(("kilometer", 1), ("hour", -1)), Fr(18, 5)),
    # rates: same dimensionality, different root units (count)
    (U(("hertz", 1)), 1), (U(("becquerel", 1)), 1), (U(("second", -1)), Fr(1)), (U(("kilohertz", 1)), Fr(1, 1000)),
    (U(("minute", -1)), 60), (U(("becquerel", 1)), Fr(0)),
    # dimensionless with different root units
    (U(), 0), (U(), Fr(1)), (U(), Fr(1, 2)), (U(("percent", 1)), 50), (U(("percent", 1)), Fr(100)),
    (U(("percent", 1)), Fr(0)), (U(("radian", 1)), 1), (U(("radian", 1)), Fr(1, 2)), (U(("count", 1)), Fr(1)),
    (U(("meter", 1), ("centimeter", -1)), Fr(1, 100)), (U(("bit", 1)), 1), (U(("byte", 1)), Fr(1, 8)),
    # energies: named unit against compounds
    (U(("joule", 1)), 1), (U(("kilogram", 1), ("meter", 2), ("second", -2)), Fr(1)), (U(("newton", 1), ("meter", 1)), 1),
    (U(("gram", 1), ("centimeter", 2), ("second", -2)), Fr(10 ** 7)), (U(("joule", 1)), Fr(2)),
    # masses
    (U(("gram", 1)), 1000), (U(("kilogram", 1)), Fr(1)), (U(("pound", 1)), Fr(100000000, 45359237)), (U(("pound", 1)), 1),
    # temperatures: absolute, offset, delta
    (U(("kelvin", 1)), 0), (U(("kelvin", 1)), Fr(27315, 100)), (U(("kelvin", 1)), Fr(10)), (U(("kelvin", 1)), Fr(28315, 100)),
    (U(("degree_Celsius", 1)), 0), (U(("degree_Celsius", 1)), Fr(10)), (U(("degree_Celsius", 1)), Fr(-27315, 100)),
    (U(("degree_Celsius", 1)), Fr(-26315, 100)),
    (U(("degree_Fahrenheit", 1)), 32), (U(("degree_Fahrenheit", 1)), Fr(0)), (U(("degree_Fahrenheit", 1)), Fr(50)),
    (U(("degree_Fahrenheit", 1)), Fr(-45967, 100)), (U(("degree_Fahrenheit", 1)), Fr(-44167, 100)),
    (U(("degree_Rankine", 1)), Fr(49167, 100)), (U(("degree_Rankine", 1)), 0), (U(("degree_Rankine", 1)), Fr(18)),
    (U(("delta_degree_Celsius", 1)), 0), (U(("delta_degree_Celsius", 1)), Fr(10)),
    (U(("delta_degree_Fahrenheit", 1)), Fr(18)), (U(("delta_degree_Fahrenheit", 1)), Fr(0)),
]
NUMBERS = (0, 0.0, Fraction(0), 1, Fraction(1, 2), -1, 2, NAN)
ORDER_OPS = (("lt", operator.lt), ("le", operator.le), ("gt", operator.gt), ("ge", operator.ge))

# =============================================================================== registries
_R = {}


def regs():
    if not _R:
        import pint
        from standins.ref import Ref

        _R["frac"] = pint.UnitRegistry(non_int_type=Fraction)
        _R["frac-auto"] = pint.UnitRegistry(non_int_type=Fraction, autoconvert_offset_to_baseunit=True)
        _R["float"] = pint.UnitRegistry()
        _R["ref"] = Ref(_R["frac"])
        _R["info"] = {}
    return _R


def unit_info(units):
    """-> (dimensionality tuple, exact factor) of a multiplicative container"""
    key = tuple(sorted(units))
    c = regs()["info"]
    if key not in c:
        ref = regs()["ref"]
        d = ref.dim(dict(key))
        c[key] = (tuple(sorted((k, Fraction(v)) for k, v in d.items())), ref.factor(dict(key)))
    return c[key]


def kind_of(units):
    names = [k for k, _ in units]
    if any(k in AFFINE for k in names):
        if len(units) != 1 or units[0][1] != 1:
            raise ValueError("catalogue holds offset units only alone and to the first power")
        return "offset"
    if any(k.startswith("delta_") for k in names):
        return "delta"
    return "mult"


def phys(units, m):
    """exact physical value (root units / kelvin)"""
    if kind_of(units) == "offset":
        return AFFINE[units[0][0]](Fraction(m))
    return Fraction(m) * unit_info(units)[1]


def dim_of(units):
    if kind_of(units) == "offset":
        return unit_info(U(("kelvin", 1)))[0]
    return unit_info(units)[0]


def oracle_eq(a, b):
    """a, b = (units, magnitude) -> True / False / None (not fixed by the statement)"""
    if dim_of(a[0]) != dim_of(b[0]):
        return False
    ka, kb = kind_of(a[0]), kind_of(b[0])
    if {ka, kb} == {"offset", "delta"}:
        return None
    return phys(*a) == phys(*b)


def float_tie(a, b):
    """same dimensionality, different units, physical values equal or within 1e-9 relative: in float arithmetic the
    answer depends on rounding (and on which operand gets converted)"""
    if a[1] != a[1] or b[1] != b[1] or a[0] == b[0] or dim_of(a[0]) != dim_of(b[0]):
        return False
    if {kind_of(a[0]), kind_of(b[0])} == {"offset", "delta"}:
        return True
    pa, pb = phys(*a), phys(*b)
    return pa == pb or abs(pa - pb) <= Fr(1, 10 ** 9) * max(abs(pa), abs(pb))


def make(reg, units, m):
    ureg = regs()[reg]
    if reg == "float" and isinstance(m, Fraction):
        m = float(m)
    return ureg.Quantity(m, ureg.UnitsContainer(dict(units)))


def show(x):
    if isinstance(x, Fraction):
        return "%d/%d" % (x.numerator, x.denominator) if x.denominator != 1 else str(x.numerator)
    return repr(x)


def uid(units):
    return "*".join(SHORT.get(k, k) if v == 1 else "%s^%s" % (SHORT.get(k, k), v) for k, v in units) or "dimensionless"


def qid(q):
    return "%s %s" % (show(q[1]), uid(q[0]))


def enc(x):
    if isinstance(x, Fraction):
        return ["F", x.numerator, x.denominator]
    if isinstance(x, int) and not isinstance(x, bool):
        return ["i", x]
    return ["f", repr(x)]


def dec(e):
    if e[0] == "F":
        return Fraction(e[1], e[2])
    if e[0] == "i":
        return int(e[1])
    return float(e[1])


def encq(q):
    return [[list(u) for u in q[0]], enc(q[1])]


def decq(e):
    return (tuple((k, v) for k, v in e[0]), dec(e[1]))


def outcome(fn, *args):
    """-> ('v', value) or ('x', exception class name)"""
    try:
        return ("v", fn(*args))
    except Exception as e:  # noqa: BLE001 - the class of the exception is the observation
        return ("x", type(e).__name__)


def is_bool(o, value):
    return o[0] == "v" and isinstance(o[1], bool) and o[1] is value


def txt(o):
    return ("raises " + o[1]) if o[0] == "x" else repr(o[1])


class Collector:
    def __init__(self):
        self.entries = {}

    def add(self, case, what, example):
        e = self.entries.get(case)
        if e is None:
            e = self.entries[case] = {"case": case, "what": what, "instances": 0, "examples": []}
        e["instances"] += 1
        if len(e["examples"]) < 2:
            e["examples"].append(example)

    def merge(self, entries):
        for case, o in entries.items():
            e = self.entries.get(case)
            if e is None:
                self.entries[case] = {"case": case, "what": o["what"], "instances": o["instances"],
                                      "examples": list(o["examples"][:2])}
            else:
                e["instances"] += o["instances"]
                for ex in o["examples"]:
                    if len(e["examples"]) < 2:
                        e["examples"].append(ex)


# =============================================================================== part 1: pairs of the catalogue
def check_pair(reg, a, b, col, stats):
    """all comparison forms of one ordered pair; -> what pint answered for a == b (True/False/None on exception)"""
    exact = reg != "float"
    qa, qb = make(reg, *a), make(reg, *b)
    ex = {"part": "pair", "reg": reg, "a": encq(a), "b": encq(b)}
    pair = "%s:%s" % (qid(a), qid(b))
    names = ":".join(sorted((uid(a[0]), uid(b[0]))))
    if a[1] != a[1] or b[1] != b[1]:
        # NaN magnitudes (float registry): IEEE semantics -- nothing equals NaN, every ordering is False
        eq, ne = outcome(operator.eq, qa, qb), outcome(operator.ne, qa, qb)
        stats["evals"] += 6
        if not is_bool(eq, False) or not is_bool(ne, True):
            col.add("nan-eq:" + pair, "(%s) == / != (%s) -> %s / %s, expected False / True" % (qid(a), qid(b), txt(eq),
                                                                                             txt(ne)), ex)
        same_dim = dim_of(a[0]) == dim_of(b[0])
        for n, f in ORDER_OPS:
            o = outcome(f, qa, qb)
            if (same_dim and not is_bool(o, False)) or (not same_dim and o != ("x", "DimensionalityError")):
                col.add("nan-order:%s:%s" % (n, pair), "(%s) %s (%s) -> %s" % (qid(a), n, qid(b), txt(o)), ex)
        return eq[1] if eq[0] == "v" else None
    want = oracle_eq(a, b)
    if not exact and want is not None and float_tie(a, b):
        want = None  # floats: only decided away from ties (and on identical units)
    eq = outcome(operator.eq, qa, qb)
    ne = outcome(operator.ne, qa, qb)
    stats["evals"] += 2
    stats["nontrivial"] += want is True or (want is False and dim_of(a[0]) == dim_of(b[0]))
    if eq[0] != "v" or not isinstance(eq[1], bool):
        col.add("eq-type:" + pair, "(%s) == (%s) -> %s, a bool is expected" % (qid(a), qid(b), txt(eq)), ex)
        return None
    if not is_bool(ne, not eq[1]):
        col.add("ne:" + pair, "(%s) != (%s) -> %s while == -> %s" % (qid(a), qid(b), txt(ne), txt(eq)), ex)
    if want is not None and eq[1] is not want:
        both_zero = a[1] == 0 and b[1] == 0
        if both_zero and "offset" in (kind_of(a[0]), kind_of(b[0])):
            col.add("zero-offset:" + names, "(%s) == (%s) -> %s, expected %s (values %s K and %s K)"
                    % (qid(a), qid(b), eq[1], want, show(phys(*a)), show(phys(*b))), ex)
        else:
            col.add("eq:" + pair, "(%s) == (%s) -> %s, expected %s (physical values %s and %s)"
                    % (qid(a), qid(b), eq[1], want, show(phys(*a)), show(phys(*b))), ex)
    # hash law (exact registries): equal by pint's answer or by the oracle => equal hashes
    if exact and (eq[1] or want):
        ha, hb = outcome(hash, qa), outcome(hash, qb)
        stats["evals"] += 2
        if ha[0] != "v" or hb[0] != "v" or ha[1] != hb[1]:
            col.add("hash:" + names, "(%s) == (%s) is %s (oracle: %s) but hash -> %s and %s"
                    % (qid(a), qid(b), eq[1], want, txt(ha), txt(hb)), ex)
    # ordering
    res = {n: outcome(f, qa, qb) for n, f in ORDER_OPS}
    stats["evals"] += 4
    if dim_of(a[0]) != dim_of(b[0]):
        for n, o in res.items():
            if o != ("x", "DimensionalityError"):
                col.add("order-dim:%s:%s" % (n, pair), "(%s) %s (%s) -> %s, DimensionalityError expected"
                        % (qid(a), n, qid(b), txt(o)), ex)
    else:
        ka, kb = kind_of(a[0]), kind_of(b[0])
        if {ka, kb} == {"offset", "delta"}:
            return eq[1]
        pa, pb = phys(*a), phys(*b)
        if not exact and pa != pb and abs(pa - pb) <= Fr(1, 10 ** 9) * max(abs(pa), abs(pb)):
            return eq[1]
        if not exact and pa == pb and a[0] != b[0]:
            return eq[1]
        wanted = {"lt": pa < pb, "le": pa <= pb, "gt": pa > pb, "ge": pa >= pb}
        tag = "order" if "offset" not in (ka, kb) else "order-offset"
        for n, o in res.items():
            if not is_bool(o, wanted[n]):
                col.add("%s:%s:%s" % (tag, n, pair), "(%s) %s (%s) -> %s, expected %s (physical values %s, %s)"
                        % (qid(a), n, qid(b), txt(o), wanted[n], show(pa), show(pb)), ex)
        if all(o[0] == "v" for o in res.values()) and "offset" not in (ka, kb) and (exact or want is not None):
            holds = [bool(res["lt"][1]), bool(eq[1]), bool(res["gt"][1])]
            if sum(holds) != 1:
                col.add("trichotomy:" + pair, "(%s) vs (%s): <, ==, > -> %s; exactly one must hold"
                        % (qid(a), qid(b), holds), ex)
    return eq[1]


def check_reflexive(reg, a, col, stats):
    if a[1] != a[1]:
        return
    qa = make(reg, *a)
    ex = {"part": "refl", "reg": reg, "a": encq(a)}
    for label, other in (("same object", qa), ("copy", copy.copy(qa)), ("rebuilt", make(reg, *a))):
        o = outcome(operator.eq, qa, other)
        stats["evals"] += 1
        if not is_bool(o, True):
            col.add("refl:" + qid(a), "(%s) == its %s -> %s" % (qid(a), label, txt(o)), ex)
    if reg != "float":
        h1, h2 = outcome(hash, qa), outcome(hash, make(reg, *a))
        stats["evals"] += 2
        if h1[0] != "v" or h1 != h2:
            col.add("hash-stable:" + qid(a), "hash of (%s) -> %s, of an equal rebuilt quantity %s"
                    % (qid(a), txt(h1), txt(h2)), ex)


def transitivity(cat, E, col, reg, stats):
    """E[i][j] = pint's answer to cat[i] == cat[j]"""
    n = len(cat)
    for i in range(n):
        Ei = E[i]
        for j in range(n):
            if not Ei[j]:
                continue
            Ej = E[j]
            for k in range(n):
                stats["triples"] += 1
                if Ej[k] and not Ei[k]:
                    kinds = {kind_of(cat[t][0]) for t in (i, j, k)}
                    tag = "trans-delta-offset" if {"offset", "delta"} <= kinds else "trans"
                    col.add("%s:%s:%s:%s" % (tag, uid(cat[i][0]), uid(cat[j][0]), uid(cat[k][0])),
                            "(%s) == (%s) and (%s) == (%s) but (%s) == (%s) is %s"
                            % (qid(cat[i]), qid(cat[j]), qid(cat[j]), qid(cat[k]), qid(cat[i]), qid(cat[k]), E[i][k]),
                            {"part": "trans", "reg": reg, "a": encq(cat[i]), "b": encq(cat[j]), "c": encq(cat[k])})


# =============================================================================== part 2: canonical units of the registry
def rational_chain(name, seen=()):
    """True when every exponent on the way from `name` down to the root units is integral (otherwise the registry
    takes a float root somewhere and its factor is not exact even with Fractions: a C02 matter, not C05)"""
    ref = regs()["ref"]
    r = ref.resolve(name)
    if r is None or name in seen:
        return False
    d = r[1]
    if d.is_base or d.reference is None:
        return True
    for k, v in dict(d.reference).items():
        if Fraction(v).denominator != 1 or not rational_chain(k, seen + (name,)):
            return False
    return True


def canonical_groups():
    """declared multiplicative unit names with an exact positive factor, grouped by dimensionality"""
    ref = regs()["ref"]
    names = sorted({d.name for d in ref.units.values()})
    groups, skipped = {}, []
    for nme in names:
        d = ref.units[nme]
        if not d.is_multiplicative or not rational_chain(nme):
            skipped.append(nme)
            continue
        try:
            dimk, f = unit_info(U((nme, 1)))
        except ValueError:  # irrational scale (a root of a constant): no exact factor
            skipped.append(nme)
            continue
        if f <= 0:
            skipped.append(nme)
            continue
        groups.setdefault(dimk, []).append(nme)
    return groups, skipped


def check_unit_pair(na, nb, mag, col, stats, prefixed=False):
    """Q(mag, na) against the same physical value written in nb, and against a value 1/1000 larger"""
    ua, ub = U((na, 1)), U((nb, 1))
    fa, fb = unit_info(ua)[1], unit_info(ub)[1]
    a = (ua, mag)
    same = (ub, mag * fa / fb)
    more = (ub, mag * fa / fb + abs(mag * fa / fb) * Fr(1, 1000))  # 1/1000 of its size larger, whatever the sign
    names = ":".join(sorted((na, nb)))
    ex = {"part": "units", "a": na, "b": nb, "mag": enc(mag)}
    qa, qs, qm = make("frac", *a), make("frac", *same), make("frac", *more)
    obs = {
        "eq": outcome(operator.eq, qa, qs), "eq-rev": outcome(operator.eq, qs, qa), "ne": outcome(operator.ne, qa, qs),
        "lt": outcome(operator.lt, qa, qs), "gt": outcome(operator.gt, qa, qs), "le": outcome(operator.le, qa, qs),
        "ge": outcome(operator.ge, qa, qs),
        "eq-more": outcome(operator.eq, qa, qm), "lt-more": outcome(operator.lt, qa, qm),
        "gt-more": outcome(operator.gt, qm, qa), "ge-more": outcome(operator.ge, qa, qm),
    }
    want = {"eq": True, "eq-rev": True, "ne": False, "lt": False, "gt": False, "le": True, "ge": True,
            "eq-more": False, "lt-more": True, "gt-more": True, "ge-more": False}
    stats["evals"] += len(obs) + 2
    stats["nontrivial"] += 1
    for k, o in obs.items():
        if not is_bool(o, want[k]):
            col.add("units-%s:%s" % (k.split("-")[0] if k.startswith("eq") else "order", names),
                    "%s of (%s) and (%s): %s, expected %s" % (k, qid(a), qid(same if "more" not in k else more), txt(o),
                                                              want[k]), ex)
    ha, hs = outcome(hash, qa), outcome(hash, qs)
    if ha[0] != "v" or hs[0] != "v" or ha[1] != hs[1]:
        col.add("hash:" + names, "(%s) == (%s) -> %s but the hashes differ (%s, %s)"
                % (qid(a), qid(same), txt(obs["eq"]), txt(ha), txt(hs)), ex)


# =============================================================================== part 3: bare numbers
def check_numbers(reg, a, col, stats):
    units, m = a
    if m != m:
        return
    k = kind_of(units)
    qa = make(reg, *a)
    dimless = dim_of(units) == ()
    v = phys(units, m)
    auto = reg.endswith("auto")
    for n in NUMBERS:
        ex = {"part": "num", "reg": reg, "a": encq(a), "n": enc(n)}
        ident = "%s:%s" % (qid(a), "nan" if n != n else show(n) + type(n).__name__[0])
        zero = n == 0
        nan = n != n
        # --- equality
        if k == "offset" and (zero or nan) and not auto:
            want_eq = None  # refused as ambiguous in the default mode: not fixed by C05
        elif k == "offset" and not (zero or nan):
            want_eq = False
        elif nan:
            want_eq = False
        elif dimless or zero:
            want_eq = v == n
        else:
            want_eq = False
        for label, fn in (("q==n", lambda: qa == n), ("n==q", lambda: n == qa)):
            o = outcome(fn)
            stats["evals"] += 1
            if want_eq is not None and not is_bool(o, want_eq):
                col.add("num-eq:" + ident, "%s for q = (%s), n = %s -> %s, expected %s" % (label, qid(a), show(n), txt(o),
                                                                                        want_eq), ex)
        for label, fn in (("q!=n", lambda: qa != n), ("n!=q", lambda: n != qa)):
            o = outcome(fn)
            stats["evals"] += 1
            if want_eq is not None and not is_bool(o, not want_eq):
                col.add("num-ne:" + ident, "%s for q = (%s), n = %s -> %s, expected %s" % (label, qid(a), show(n), txt(o),
                                                                                        not want_eq), ex)
        # --- ordering
        if k == "offset" and not auto:
            continue
        for opn, f in ORDER_OPS:
            o = outcome(f, qa, n)
            orev = outcome(f, n, qa)
            stats["evals"] += 2
            if dimless or zero or nan:
                w, wrev = bool(f(v, n)), bool(f(n, v))
                if not is_bool(o, w):
                    col.add("num-order:%s:%s" % (opn, ident), "(%s) %s %s -> %s, expected %s" % (qid(a), opn, show(n),
                                                                                               txt(o), w), ex)
                if not is_bool(orev, wrev):
                    col.add("num-order:r%s:%s" % (opn, ident), "%s %s (%s) -> %s, expected %s" % (show(n), opn, qid(a),
                                                                                                txt(orev), wrev), ex)
            else:
                if o[0] != "x":
                    col.add("num-order:%s:%s" % (opn, ident), "(%s) %s %s -> %s, must raise (undefined)"
                            % (qid(a), opn, show(n), txt(o)), ex)
                if orev[0] != "x":
                    col.add("num-order:r%s:%s" % (opn, ident), "%s %s (%s) -> %s, must raise (undefined)"
                            % (show(n), opn, qid(a), txt(orev)), ex)
        stats["nontrivial"] += dimless or zero
    # bool
    o = outcome(bool, qa)
    stats["evals"] += 1
    ex = {"part": "num", "reg": reg, "a": encq(a), "n": enc(0)}
    if k == "offset":
        if o[0] != "x":
            col.add("bool-offset:" + qid(a), "bool(%s) -> %s; ambiguous for an offset unit, must raise" % (qid(a), txt(o)),
                    ex)
    elif not is_bool(o, v != 0):
        col.add("bool:" + qid(a), "bool(%s) -> %s, expected %s" % (qid(a), txt(o), v != 0), ex)


# =============================================================================== part 4: Unit objects
def check_unit_objects(col, stats, groups, every):
    ureg = regs()["frac"]
    ref = regs()["ref"]
    defs = {}
    for key, d in ref.units.items():
        defs.setdefault(d.name, d)
    n = 0
    for name in sorted(defs):
        d = defs[name]
        spellings = [s for s in (tuple(d.aliases) + ((d.symbol,) if d.symbol and d.symbol != name else ())) if s]
        try:
            u0 = ureg.Unit(ureg.UnitsContainer({name: 1}))
        except Exception:  # noqa: BLE001
            continue
        for sp in spellings:
            if ref.units.get(sp) is not d:
                continue  # the spelling is shadowed by another declaration: a C08 matter
            n += 1
            if n % every:
                continue
            ex = {"part": "unit-alias", "name": name, "alias": sp}
            o = outcome(lambda: getattr(ureg, sp) == u0 if sp.isidentifier() else ureg.Unit(sp) == u0)
            h = outcome(lambda: hash(ureg.Unit(sp)) == hash(u0))
            stats["evals"] += 2
            stats["nontrivial"] += 1
            if not is_bool(o, True):
                col.add("unit-eq:%s:%s" % (name, sp), "Unit(%r) == Unit(%r) -> %s" % (sp, name, txt(o)), ex)
            elif not is_bool(h, True):
                col.add("unit-hash:%s:%s" % (name, sp), "Unit(%r) and Unit(%r) are equal but hash differently" % (sp, name),
                        ex)
    # ordering of Unit objects = ordering of 1*unit
    for dimk, names in sorted(groups.items()):
        for na, nb in itertools.combinations(names, 2):
            n += 1
            if n % every:
                continue
            fa, fb = unit_info(U((na, 1)))[1], unit_info(U((nb, 1)))[1]
            a, b = ureg.Unit(ureg.UnitsContainer({na: 1})), ureg.Unit(ureg.UnitsContainer({nb: 1}))
            ex = {"part": "unit-order", "a": na, "b": nb}
            for opn, f in ORDER_OPS:
                o = outcome(f, a, b)
                stats["evals"] += 1
                if not is_bool(o, bool(f(fa, fb))):
                    col.add("unit-order:%s:%s:%s" % (opn, na, nb), "Unit(%s) %s Unit(%s) -> %s, factors %s and %s"
                            % (na, opn, nb, txt(o), show(fa), show(fb)), ex)
            o = outcome(operator.eq, a, b)
            stats["evals"] += 1
            stats["nontrivial"] += 1
            if not is_bool(o, False):
                col.add("unit-eq:%s:%s" % (na, nb), "Unit(%s) == Unit(%s) -> %s for two different declared units"
                        % (na, nb, txt(o)), ex)
    # across dimensions
    reps = [names[0] for _, names in sorted(groups.items())][:12]
    for na, nb in itertools.permutations(reps, 2):
        a, b = ureg.Unit(ureg.UnitsContainer({na: 1})), ureg.Unit(ureg.UnitsContainer({nb: 1}))
        ex = {"part": "unit-order", "a": na, "b": nb}
        for opn, f in ORDER_OPS:
            o = outcome(f, a, b)
            stats["evals"] += 1
            if o != ("x", "DimensionalityError"):
                col.add("unit-order-dim:%s:%s:%s" % (opn, na, nb), "Unit(%s) %s Unit(%s) -> %s, DimensionalityError expected"
                        % (na, opn, nb, txt(o)), ex)
        o = outcome(operator.eq, a, b)
        stats["evals"] += 1
        if not is_bool(o, False):
            col.add("unit-eq:%s:%s" % (na, nb), "Unit(%s) == Unit(%s) -> %s" % (na, nb, txt(o)), ex)


# =============================================================================== workers
_CTX = {}


def _worker(task):
    kind = task[0]
    col = Collector()
    stats = {"evals": 0, "nontrivial": 0, "triples": 0}
    out = None
    if kind == "pairs":
        _, reg, rows = task
        cat = _CTX["cats"][reg]
        out = {}
        for i in rows:
            out[i] = [check_pair(reg, cat[i], cat[j], col, stats) for j in range(len(cat))]
            check_reflexive(reg, cat[i], col, stats)
            check_numbers(reg, cat[i], col, stats)
    elif kind == "units":
        _, pairs, mags, prefixes = task
        for na, nb in pairs:
            for mag in mags:
                check_unit_pair(na, nb, mag, col, stats)
                check_unit_pair(nb, na, mag, col, stats)
    elif kind == "prefixed":
        _, names, prefixes = task
        ref = regs()["ref"]
        for nme in names:
            for p in prefixes:
                pn = p + nme
                if ref.resolve(pn) is None or pn in ref.units:
                    continue
                check_unit_pair(pn, nme, Fr(3, 7), col, stats)
                check_unit_pair(nme, pn, Fr(3, 7), col, stats)
    elif kind == "unitobjects":
        check_unit_objects(col, stats, _CTX["groups"], task[1])
    return kind, task[1] if kind == "pairs" else None, out, stats, col.entries


def build_catalogues(tier, seed):
    cats = {"frac": list(CATALOGUE)}
    if tier != "quick":
        rng = random.Random(seed * 7919 + 11)
        units = sorted({q[0] for q in CATALOGUE}, key=lambda u: (len(u), u))
        # seeded extra magnitudes, and for each of them the same physical value written in a partner unit
        extra = []
        for u in units:
            m = Fraction(rng.randint(-40, 40), rng.choice((1, 2, 3, 7, 10)))
            extra.append((u, m))
        for (u, m) in list(extra):
            partners = [w for w in units if w != u and dim_of(w) == dim_of(u) and kind_of(w) == kind_of(u) == "mult"]
            if partners:
                w = rng.choice(partners)
                extra.append((w, m * unit_info(u)[1] / unit_info(w)[1]))
        cats["frac"] += [q for q in extra if q not in cats["frac"]]
    cats["float"] = list(cats["frac"]) + [(U(("meter", 1)), NAN), (U(("centimeter", 1)), NAN), (U(), NAN)]
    temps = [q for q in cats["frac"] if dim_of(q[0]) == dim_of(U(("kelvin", 1)))]
    cats["frac-auto"] = temps + [(U(("meter", 1)), Fr(0)), (U(), 0), (U(("percent", 1)), 50)]
    return cats


def run(tier: str = "quick", seed: int = 0, **kw) -> dict:
    t0 = time.time()
    cpu0 = _cpu_total()
    workers = int(kw.get("workers", NWORKERS))
    quick = tier == "quick"
    regs()
    cats = build_catalogues(tier, seed)
    groups, skipped = canonical_groups()
    _CTX["cats"], _CTX["groups"] = cats, groups
    tasks = []
    for reg in ("frac", "float", "frac-auto"):
        rows = list(range(len(cats[reg])))
        for i in range(0, len(rows), 4):
            tasks.append(("pairs", reg, rows[i:i + 4]))
    upairs = [(a, b) for _, names in sorted(groups.items()) for a, b in itertools.combinations(names, 2)]
    mags = (Fr(1),) if quick else (Fr(1), Fr(-7, 3))
    for i in range(0, len(upairs), 120):
        tasks.append(("units", upairs[i:i + 120], mags, ()))
    allnames = [n for _, names in sorted(groups.items()) for n in names]
    prefixes = ("kilo", "milli") if not quick else ("kilo",)
    pref_names = allnames if not quick else allnames[seed % 5::5]
    for i in range(0, len(pref_names), 40):
        tasks.append(("prefixed", pref_names[i:i + 40], prefixes))
    every = 4 if quick else 1
    tasks.append(("unitobjects", every))
    ctx = mp.get_context("fork")
    if workers > 1:
        with ctx.Pool(workers, maxtasksperchild=1) as pool:
            results = pool.map(_worker, tasks, chunksize=1)
    else:
        results = [_worker(tk) for tk in tasks]
    col = Collector()
    evals = nontrivial = triples = 0
    by_part = {}
    E = {reg: [None] * len(cats[reg]) for reg in cats}
    for tk, (kind, reg, out, st, entries) in zip(tasks, results):
        evals += st["evals"]
        nontrivial += st["nontrivial"]
        by_part[kind] = by_part.get(kind, 0) + st["evals"]
        col.merge(entries)
        if kind == "pairs":
            for i, row in out.items():
                E[reg][i] = row
    tstats = {"triples": 0}
    for reg in cats:
        # symmetry on pint's own answers, then transitivity over all triples
        cat = cats[reg]
        for i in range(len(cat)):
            for j in range(i + 1, len(cat)):
                if reg == "float" and float_tie(cat[i], cat[j]):
                    continue
                if E[reg][i][j] != E[reg][j][i]:
                    col.add("sym:%s:%s" % (qid(cat[i]), qid(cat[j])), "(%s) == (%s) -> %s but reversed -> %s"
                            % (qid(cat[i]), qid(cat[j]), E[reg][i][j], E[reg][j][i]),
                            {"part": "pair", "reg": reg, "a": encq(cat[i]), "b": encq(cat[j])})
        if reg != "float":
            transitivity(cat, E[reg], col, reg, tstats)
    triples = tstats["triples"]
    entries = sorted(col.entries.values(), key=lambda e: e["case"])
    buckets = {}
    for e in entries:
        buckets.setdefault(e["case"].split(":")[0], []).append(e)
    chosen, i = [], 0
    while len(chosen) < 25 and any(i < len(b) for b in buckets.values()):
        for k in sorted(buckets):
            if i < len(buckets[k]) and len(chosen) < 25:
                chosen.append(buckets[k][i])
        i += 1
    chosen.sort(key=lambda e: e["case"])
    Q = regs()["frac"].Quantity
    samples = [
        {"expression": "Q(1,'inch') == Q(254/100,'cm')", "result": Q(1, "inch") == Q(Fr(254, 100), "cm")},
        {"expression": "Q(0,'degC') == Q(0,'kelvin')", "result": Q(0, "degC") == Q(0, "kelvin")},
        {"expression": "Q(32,'degF') == Q(0,'degC'), hashes equal",
         "result": [Q(32, "degF") == Q(0, "degC"), hash(Q(32, "degF")) == hash(Q(0, "degC"))]},
        {"expression": "Q(1,'Hz') == Q(1,'Bq'), hashes equal",
         "result": [Q(1, "Hz") == Q(1, "Bq"), hash(Q(1, "Hz")) == hash(Q(1, "Bq"))]},
        {"expression": "Q(1,'m') < Q(1,'s')", "result": txt(outcome(lambda: Q(1, "m") < Q(1, "s")))},
        {"expression": "Q(0,'m') == 0, Q(1,'m') == 1, Q(1,'m') < 1",
         "result": [Q(0, "m") == 0, Q(1, "m") == 1, txt(outcome(lambda: Q(1, "m") < 1))]},
    ]
    nf, nfl, na = len(cats["frac"]), len(cats["float"]), len(cats["frac-auto"])
    bound = (
        "catalogue of %d quantities (13 lengths, 5 times, 4 speeds, 6 rates, 12 dimensionless in 7 units, 5 energies, "
        "4 masses, 20 temperatures in kelvin/degR/degC/degF/delta_degC/delta_degF%s): all %d ordered pairs x {==, !=, <, <=, "
        ">, >=, hash} in the Fraction registry, %d pairs in the float registry (decided away from ties, plus NaN), %d in "
        "the autoconvert registry; symmetry on all pairs, transitivity on all %d triples of pint's own answers; %d "
        "canonical multiplicative units in %d dimension groups: all %d same-dimension pairs x both orders x %d "
        "magnitude(s) x 13 comparisons/hashes, %d of the units against their %s-prefixed forms; every catalogue quantity "
        "x %d bare numbers x 10 comparison forms and bool(); Unit objects: %s alias spelling and same-dimension unit pair "
        "(==, hash, <, <=, >, >=), 132 cross-dimension pairs"
        % (nf, "" if quick else "; thorough: seeded extra magnitudes and equal-value partners", nf * nf, nfl * nfl,
           na * na, triples, len(allnames), len(groups), len(upairs), len(mags), len(pref_names), "/".join(prefixes),
           len(NUMBERS), "every 4th" if quick else "every"))
    return {
        "name": NAME,
        "tier": tier,
        "seed": seed,
        "bound": bound,
        "evaluations": evals,
        "evaluations_by_part": by_part,
        "triples_checked": triples,
        "distinct_nontrivial": nontrivial,
        "rule": "full products catalogue x catalogue (x catalogue for transitivity) and all same-dimension pairs of "
                "declared units; non-trivial: pairs of equal dimensionality (equality is decided by values, not by the "
                "dimension test), unit pairs, number comparisons that are defined (dimensionless quantity or zero)",
        "exhaustive": True,
        "units_without_exact_factor_skipped": skipped,
        "violations": chosen,
        "violation_count": len(entries),
        "violation_cases": [e["case"] for e in entries][:1000],
        "violating_evaluations": sum(e["instances"] for e in entries),
        "violation_classes": {k: len(b) for k, b in sorted(buckets.items())},
        "samples": samples,
        "seconds": round(time.time() - t0, 1),
        "cpu_seconds": round(_cpu_total() - cpu0, 1),
    }


# =============================================================================== replay
def replay(data: dict) -> bool:
    regs()
    ok = True
    for ex in data.get("examples", []):
        col = Collector()
        stats = {"evals": 0, "nontrivial": 0, "triples": 0}
        part = ex["part"]
        if part == "pair":
            a, b = decq(ex["a"]), decq(ex["b"])
            r1 = check_pair(ex["reg"], a, b, col, stats)
            r2 = check_pair(ex["reg"], b, a, col, stats)
            if r1 != r2:
                col.add("sym", "asymmetric", ex)
        elif part == "refl":
            check_reflexive(ex["reg"], decq(ex["a"]), col, stats)
        elif part == "trans":
            cat = [decq(ex["a"]), decq(ex["b"]), decq(ex["c"])]
            E = [[check_pair(ex["reg"], x, y, Collector(), stats) for y in cat] for x in cat]
            transitivity(cat, E, col, ex["reg"], stats)
        elif part == "units":
            check_unit_pair(ex["a"], ex["b"], dec(ex["mag"]), col, stats)
        elif part == "num":
            check_numbers(ex["reg"], decq(ex["a"]), col, stats)
        elif part in ("unit-alias", "unit-order"):
            groups, _ = canonical_groups()
            if part == "unit-order":
                names = {ex["a"], ex["b"]}
                groups = {k: [n for n in v if n in names] for k, v in groups.items()}
                groups = {k: v for k, v in groups.items() if v}
            else:
                groups = {}
            check_unit_objects(col, stats, groups, 1)
            if part == "unit-alias":
                col.entries = {k: v for k, v in col.entries.items() if k.endswith(":%s:%s" % (ex["name"], ex["alias"]))}
        else:
            raise ValueError(part)
        if data.get("case") and part not in ("trans",):
            # only the recorded kind of disagreement counts
            head = data["case"].split(":")[0]
            col.entries = {k: v for k, v in col.entries.items() if k.split(":")[0] == head}
        ok = ok and not col.entries
    return ok


if __name__ == "__main__":
    import argparse

    ap = argparse.ArgumentParser()
    ap.add_argument("--tier", default="quick")
    ap.add_argument("--seed", type=int, default=0)
    ap.add_argument("--workers", type=int, default=NWORKERS)
    a = ap.parse_args()
    print(json.dumps(run(a.tier, a.seed, workers=a.workers), indent=1, default=str))
