"""Bounded stand-in for C08: "Unit names resolve deterministically: exact names first, then
prefix + unit + plural".

Real code under test (pint, /repo): UnitRegistry.parse_unit_name / get_name / get_symbol /
get_root_units / parse_units / __contains__ / __getattr__.

Reference (written from the property statement, independent of pint's resolution code): class
`Tables` reads only the *declared tables* of a registry -- `ureg._prefixes` and a snapshot of the
`ureg._units` keys taken right after construction -- and decides which readings
(prefix spelling, unit spelling, plural) a string has by trying every split position.  Only the
documented candidate ORDER used to break ties (suffix '' before 's'; within a suffix the prefixes in
declaration order with the empty prefix first; order preserving dedup; the unprefixed reading
('', p+u) is dropped when (p, u) is present) is pinned from pint's documentation of parse_unit_name.

Checks
 1. full cross product  prefix spelling x declared unit spelling x {"", "s"}  of the default registry
    (thorough: all ~1.4e5 strings; quick: every 5th + every declared spelling) in a *fresh* registry state:
    every string in a registry whose unit table is put back to its state after construction after each
    string, and a stride sample (1/8 thorough, 1/24 quick) additionally in a forked child of a process
    whose registries were never used (a truly untouched registry; forks cost ~10 ms each),
 2. the same strings plus doubly-prefixed strings in registries where all single-prefixed names were
    looked up before (history independence),
 3. case-insensitive lookup (argument and registry option) on case-mutated strings, and hash-seed
    independence of the answer (sub-processes with PYTHONHASHSEED = 0..3),
 4. `in`, getattr, parse_units delta substitution,
 5. a synthetic registry with deliberately colliding spellings: all strings up to length 6 over {a,b,k,s}.
"""
from __future__ import annotations

import fractions
import gc
import itertools
import json
import logging
import math
import multiprocessing
import os
import pickle
import random
import subprocess
import sys
import time

import pint
from pint.errors import OffsetUnitCalculusError, UndefinedUnitError

from standins.ref import F, Ref

NAME = "c08_names"

Fraction = fractions.Fraction
SUFFIXES = ("", "s")
MAX_LISTED = 25
PER_KIND = 4
HASH_SEEDS = (0, 1, 2, 3)


# --------------------------------------------------------------------------------------------
# reference
# --------------------------------------------------------------------------------------------
class Tables:
    """Declared tables of a registry + the reference decomposition."""

    def __init__(self, ureg):
        self.pref_order = list(ureg._prefixes)
        assert self.pref_order[0] == "", "the empty prefix is expected to be declared first"
        self.pref = {}  # spelling -> (declaration index, name, symbol, value)
        self.pref_by_name = {}
        for i, (k, d) in enumerate(ureg._prefixes.items()):
            assert k in (d.name, d.symbol) + tuple(d.aliases), (k, d)
            self.pref[k] = (i, d.name, d.symbol, d.value)
            self.pref_by_name[d.name] = (d.symbol, d.value)
        self.units = {}  # declared spelling -> canonical name   (snapshot)
        self.symbol = {}  # canonical name -> symbol
        self.mult = {}  # canonical name -> is multiplicative
        self.unit_index = {}
        self.lower = {}  # lower-cased spelling -> [declared spellings], declaration order
        # sorted: the position of the few names that pint registers lazily while the registry is built depends on
        # set iteration order (PYTHONHASHSEED); the enumeration order of this module must not
        for i, (k, d) in enumerate(sorted(ureg._units.items())):
            self.units[k] = d.name
            self.unit_index[k] = i
            self.symbol[d.name] = d.defined_symbol if d.defined_symbol else d.name
            self.mult[d.name] = type(d.converter).__name__ == "ScaleConverter"
            self.lower.setdefault(k.lower(), []).append(k)
        self.n_declared = len(self.units)
        # spellings in the snapshot that are themselves "prefix name + unit name" of another unit: they were
        # registered lazily while the registry was built (used only to label case ids)
        pnames = {v[1] for k, v in self.pref.items() if k}
        cn = set(self.units.values())
        self.lazy_like = {
            k for k in self.units if self.units[k] == k and any(k.startswith(p) and k[len(p):] in cn for p in pnames)
        }

    # -- which readings does the string have?  (membership: every split position is tried)
    def slots(self, s, casei=False):
        """-> list of ((suffix index, prefix index), [distinct (prefix name, unit name)]) in pinned order.
        Case sensitive: at most one reading per slot.  Case insensitive: the unit part may differ in
        letter case from a declared spelling (prefixes stay case sensitive), several per slot possible."""
        found = {}
        for si, suf in enumerate(SUFFIXES):
            if suf and not s.endswith(suf):
                continue
            body = s[: len(s) - len(suf)]
            for cut in range(len(body) + 1):
                head, tail = body[:cut], body[cut:]
                if head not in self.pref:
                    continue
                if suf and len(tail) == 1:
                    continue  # single-letter units take no plural
                if casei:
                    spellings = self.lower.get(tail.lower(), ())
                else:
                    spellings = (tail,) if tail in self.units else ()
                for sp in spellings:
                    rd = (self.pref[head][1], self.units[sp])
                    lst = found.setdefault((si, self.pref[head][0]), [])
                    if rd not in lst:
                        lst.append(rd)
        return sorted(found.items())

    @staticmethod
    def dedup(flat):
        out = list(dict.fromkeys(flat))
        for p, u in list(out):
            if p and ("", p + u) in out:
                out.remove(("", p + u))
        return tuple(out)

    def candidates(self, s):
        """pinned candidate tuple for the case-sensitive lookup"""
        return self.dedup([rd for _, lst in self.slots(s) for rd in lst])

    def candidates_casei(self, s):
        """set of candidate tuples that are possible for the case-insensitive lookup (the order of several
        declared spellings with the same lower-case form inside one slot is not documented)"""
        sl = self.slots(s, casei=True)
        per_slot = [list(itertools.permutations(lst)) for _, lst in sl]
        n = 1
        for x in per_slot:
            n *= len(x)
        assert n <= 4096, (s, n)
        return {self.dedup([rd for part in combo for rd in part]) for combo in itertools.product(*per_slot)}

    # -- expected outcomes given a candidate tuple
    def name_outcome(self, s, cands):
        if s == "dimensionless":
            return ("ok", "")
        if s in self.units:  # exact declared spelling first
            return ("ok", self.units[s])
        if not cands:
            return ("exc", "UndefinedUnitError")
        p, u = cands[0]
        if p and not self.mult[u]:
            return ("exc", "OffsetUnitCalculusError")
        return ("ok", p + u)

    def symbol_outcome(self, s, cands):
        """None = not specified by the property (prefixed non-multiplicative unit)"""
        if s in self.units:
            return ("ok", self.symbol[self.units[s]])
        if not cands:
            return ("exc", "UndefinedUnitError")
        p, u = cands[0]
        if p and not self.mult[u]:
            return None
        return ("ok", self.pref_by_name[p][0] + self.symbol[u])

    def chosen(self, s, cands):
        """(prefix name, unit name) the string denotes, or None"""
        if s in self.units:
            return ("", self.units[s])
        return cands[0] if cands else None


class RootRef:
    """expected (factor, root units) of p+u+s  =  prefix value * Factor(u).
    Factor(u) comes from the independent exact `Ref` when it applies and pint's own answer for the
    canonical name is exact as well; otherwise (float scales, fractional powers in the definition chain)
    from pint's answer for the *unprefixed canonical name* in a dedicated registry (metamorphic form of
    "the prefix factor is applied exactly once")."""

    def __init__(self, ureg_base, tables):
        self.ref = Ref(ureg_base, declared_units=set(tables.units))
        self.ub = ureg_base  # dedicated: only canonical names are ever looked up here
        self.t = tables
        self.cache = {}
        self.n_ref = self.n_meta = 0

    def unit(self, uname):
        if uname not in self.cache:
            f, ru = self.ub.get_root_units(self.ub.UnitsContainer({uname: 1}))
            real = (f, {k: F(v) for k, v in ru._units.items()})
            if f is None:
                self.cache[uname] = None
                return None
            try:
                rf, rroots = self.ref.root({uname: 1})
                if isinstance(f, (int, Fraction)):
                    self.n_ref += 1
                    self.cache[uname] = (rf, rroots)
                    return self.cache[uname]
            except (ValueError, AttributeError, KeyError, RecursionError):
                pass
            self.n_meta += 1
            self.cache[uname] = real
        return self.cache[uname]

    def outcome(self, chosen):
        if chosen is None:
            return ("exc", "UndefinedUnitError")
        p, u = chosen
        if not self.t.mult[u]:
            return None
        r = self.unit(u)
        if r is None:
            return None
        f, roots = r
        pv = F(self.t.pref_by_name[p][1])
        return ("ok", _norm_root(pv * f, roots))


def _norm_root(f, roots):
    num = F(f) if isinstance(f, (int, Fraction)) else float(f)
    return (num, tuple(sorted((k, str(F(v))) for k, v in dict(roots).items() if v != 0)))


def _same_root(a, b):
    if a is None or b is None or a[0] != "ok" or b[0] != "ok":
        return a == b
    (fa, ua), (fb, ub) = a[1], b[1]
    if ua != ub:
        return False
    if isinstance(fa, float) or isinstance(fb, float):
        return math.isclose(float(fa), float(fb), rel_tol=1e-12, abs_tol=0.0)
    return fa == fb


# --------------------------------------------------------------------------------------------
# observation of the real code
# --------------------------------------------------------------------------------------------
def _call(fn, *a, **k):
    try:
        return ("ok", fn(*a, **k))
    except Exception as e:  # the exception *type* is part of the observed behaviour
        return ("exc", type(e).__name__)


def _observe(u, uf, s):
    """all observations for one string; non-mutating calls first"""
    o = {}
    r = _call(u.parse_unit_name, s)
    o["cands"] = ("ok", tuple((p, n) for p, n, _ in r[1])) if r[0] == "ok" else r
    o["symbol"] = _call(u.get_symbol, s)
    o["name"] = _call(u.get_name, s)
    if uf is not None:
        try:
            f, ru = uf.get_root_units(uf.UnitsContainer({s: 1}))
            o["root"] = ("ok", _norm_root(f, ru._units)) if f is not None else None
        except Exception as e:
            o["root"] = ("exc", type(e).__name__)
    return o


_SNAPS = {}  # id(registry) -> (registry, unit table right after construction)


def _new_registry(*a, **k):
    r = pint.UnitRegistry(*a, **k)
    _snap(r)
    return r


def _snap(r):
    _SNAPS[id(r)] = (r, dict(r._units.maps[0] if hasattr(r._units, "maps") else r._units))


def _restore(ureg, hint=None):
    """put the unit table back to its state right after construction (quick tier's model of a fresh
    registry: lazily registered prefixed definitions are removed, overwritten entries reinstated).
    `hint`: the observed get_name outcome -- get_name only ever writes the entry of the name it returns,
    which allows a cheap test (the callers verify the complete table at the end of each chunk)."""
    snapshot = _SNAPS[id(ureg)][1]
    d = ureg._units.maps[0] if hasattr(ureg._units, "maps") else ureg._units
    if hint is not None:
        dirty = len(d) != len(snapshot) or (hint[0] == "ok" and d.get(hint[1]) is not snapshot.get(hint[1]))
    else:
        dirty = len(d) != len(snapshot) or any(d[k] is not v for k, v in snapshot.items())
    if dirty:
        d.clear()
        d.update(snapshot)


def _observe_forked(u, uf, s):
    """evaluate in a forked child: the parent's registries are never touched"""
    r, w = os.pipe()
    pid = os.fork()
    if pid == 0:
        code = 0
        try:
            os.close(r)
            data = pickle.dumps(_observe(u, uf, s))
            with os.fdopen(w, "wb") as fh:
                fh.write(data)
        except BaseException:
            code = 1
        finally:
            os._exit(code)
    os.close(w)
    with os.fdopen(r, "rb") as fh:
        data = fh.read()
    _, status = os.waitpid(pid, 0)
    if status != 0 or not data:
        raise RuntimeError(f"harness: forked observation failed for {s!r}")
    return pickle.loads(data)


def _expected(T, R, s):
    c = T.candidates(s)
    e = {"cands": ("ok", c), "name": T.name_outcome(s, c), "symbol": T.symbol_outcome(s, c)}
    if R is not None:
        if e["name"][0] == "ok" and s != "dimensionless":
            e["root"] = R.outcome(T.chosen(s, c))
        elif e["name"] == ("exc", "UndefinedUnitError"):
            e["root"] = ("exc", "UndefinedUnitError")
        else:
            e["root"] = None
    return e


def _diff(obs, exp, keys=("cands", "name", "symbol", "root")):
    out = []
    for k in keys:
        if k not in exp or exp[k] is None or obs.get(k) is None:
            continue
        same = _same_root(obs[k], exp[k]) if k == "root" else obs[k] == exp[k]
        if not same:
            out.append(f"{k}: observed {obs[k]!r}, reference {exp[k]!r}")
    return out


# --------------------------------------------------------------------------------------------
# process-global state (created in the parent before the pools fork)
# --------------------------------------------------------------------------------------------
_G = {}


def _setup():
    if _G:
        return _G
    u = _new_registry()
    uf = _new_registry(non_int_type=Fraction)
    T = Tables(u)
    TF = Tables(uf)
    assert list(T.units) == list(TF.units) and T.pref_order == TF.pref_order
    ub = _new_registry(non_int_type=Fraction)  # only for Factor(canonical unit name)
    R = RootRef(ub, TF)
    for n in dict.fromkeys(TF.units.values()):
        if TF.mult[n]:
            R.unit(n)  # computed once here, inherited by every forked worker
    _G.update(u=u, uf=uf, T=T, TF=TF, R=R)
    return _G


def _warm_names(T):
    """all single-prefixed canonical names: prefix name + unit name"""
    pnames = list(dict.fromkeys(v[1] for k, v in T.pref.items() if k))
    unames = list(dict.fromkeys(T.units.values()))
    return [p + n for p in pnames for n in unames]


def _setup_history():
    g = _setup()
    if "uh" in g:
        return g
    uh = _new_registry()
    ufh = _new_registry(non_int_type=Fraction)
    for w in _warm_names(g["T"]):
        _call(uh.get_name, w)
        _call(ufh.get_name, w)
    g.update(uh=uh, ufh=ufh)
    return g


def _cross_product(T):
    seen = {}
    for p in T.pref_order:
        for un in T.units:
            for suf in SUFFIXES:
                seen.setdefault(p + un + suf, (p, un, suf))
    return seen


def _task_fresh(args):
    strings, forked = args
    g = _G
    u, uf, T, R = g["u"], g["uf"], g["T"], g["R"]
    res = []
    for s in strings:
        if forked:
            obs = _observe_forked(u, uf, s)
        else:
            obs = _observe(u, uf, s)
            _restore(u, obs["name"])
            _restore(uf, obs["name"])
        d = _diff(obs, _expected(T, R, s))
        if d:
            res.append((s, d))
    if not forked:  # harness self-check: the reset really gave back the table of a new registry
        for r in (u, uf):
            snap = _SNAPS[id(r)][1]
            d = r._units.maps[0]
            # (resolving 'kg'/'cm' inside a definition re-registers an *equal* 'kilogram'/'centimeter' entry: harmless)
            assert len(d) == len(snap) and all(d[k] is v or d[k] == v for k, v in snap.items()), "harness: registry reset failed"
    return len(strings), res


def _task_history(strings):
    g = _G
    uh, ufh, T, R = g["uh"], g["ufh"], g["T"], g["R"]
    res = []
    for s in strings:
        obs = _observe(uh, ufh, s)
        d = _diff(obs, _expected(T, R, s))
        if d:
            res.append((s, d))
    return len(strings), res


def _worker_init():
    gc.freeze()  # keep the inherited registries out of the collector: fewer copied pages per fork


def _chunks(lst, n):
    return [lst[i : i + n] for i in range(0, len(lst), n)]


# --------------------------------------------------------------------------------------------
# check 3: case-insensitive lookup
# --------------------------------------------------------------------------------------------
def _mutate_case(rng, s):
    out = []
    for ch in s:
        r = rng.random()
        if r < 0.45 and len(ch.upper()) == 1 and ch.upper().lower() == ch.lower():
            ch = ch.upper()
        elif r < 0.6 and len(ch.lower()) == 1:
            ch = ch.lower()
        out.append(ch)
    return "".join(out)


def _casei_expected(T, s):
    """-> (set of allowed name outcomes, set of allowed candidate tuples)"""
    cs = T.candidates_casei(s)
    return {T.name_outcome(s, c) for c in cs}, cs


def _check_casei_one(ureg, T, s, how):
    """how: 'arg' (case_sensitive=False argument), 'option' (registry built with case_sensitive=False),
    'off' (default: case sensitive).  Returns list of mismatch descriptions."""
    if how == "off":
        exp_c = T.candidates(s)
        names, cands = {T.name_outcome(s, exp_c)}, {exp_c}
        kw = {}
    else:
        names, cands = _casei_expected(T, s)
        kw = {"case_sensitive": False} if how == "arg" else {}
    r = _call(ureg.parse_unit_name, s, **kw)
    oc = ("ok", tuple((p, n) for p, n, _ in r[1])) if r[0] == "ok" else r
    on = _call(ureg.get_name, s, **kw)
    _restore(ureg)
    out = []
    if oc[0] != "ok" or oc[1] not in cands:
        out.append(f"candidates observed {oc!r}, reference allows {sorted(cands)!r}")
    if on not in names:
        out.append(f"get_name observed {on!r}, reference allows {sorted(names)!r}")
    return out


_HASHSEED_SCRIPT = r"""
import json, sys, logging
logging.disable(logging.CRITICAL)
import pint
strings = json.load(sys.stdin)
out = {}
for how in ("arg", "option"):
    ureg = pint.UnitRegistry() if how == "arg" else pint.UnitRegistry(case_sensitive=False)
    snap = dict(ureg._units)
    kw = {"case_sensitive": False} if how == "arg" else {}
    res = out[how] = {}
    for s in strings:
        try:
            res[s] = ["ok", ureg.get_name(s, **kw)]
        except Exception as e:
            res[s] = ["exc", type(e).__name__]
        ureg._units.maps[0].clear()
        ureg._units.maps[0].update(snap)
json.dump(out, sys.stdout)
"""


def _hashseed_runs(strings):
    """{seed: {string: outcome}} from fresh interpreters with PYTHONHASHSEED = seed"""
    procs = []
    for hs in HASH_SEEDS:
        env = dict(os.environ)
        env["PYTHONHASHSEED"] = str(hs)
        p = subprocess.Popen(
            [sys.executable, "-c", _HASHSEED_SCRIPT],
            stdin=subprocess.PIPE,
            stdout=subprocess.PIPE,
            stderr=subprocess.PIPE,
            env=env,
            text=True,
        )
        procs.append((hs, p))
    payload = json.dumps(list(strings))
    res = {}
    for hs, p in procs:
        so, se = p.communicate(payload)
        if p.returncode != 0:
            raise RuntimeError(f"harness: hash-seed subprocess failed: {se[-2000:]}")
        res[hs] = {how: {k: tuple(v) for k, v in d.items()} for how, d in json.loads(so).items()}
    return res


def _hashseed_strings(T):
    """strings whose case-insensitive reading is ambiguous between declared spellings of different
    units that are equal up to letter case, with and without a prefix"""
    groups = [v for v in T.lower.values() if len({T.units[x] for x in v}) > 1]
    out = []
    for g in groups:
        variants = list(dict.fromkeys(list(g) + [g[0].lower(), g[0].upper()]))
        for v in variants:
            for p in ("k", "c", "milli"):
                out.append(p + v)
            if v not in T.units:
                out.append(v)
    return list(dict.fromkeys(out)), len(groups)


def _hashseed_verdict(T, s, per_seed, how="arg"):
    """None if fine, else description"""
    call = f"get_name({s!r}, case_sensitive=False)" if how == "arg" else f"UnitRegistry(case_sensitive=False).get_name({s!r})"
    cs = T.candidates(s)
    exact = T.name_outcome(s, cs)
    vals = {hs: per_seed[hs] for hs in HASH_SEEDS}
    allowed, _ = _casei_expected(T, s)
    if exact[0] == "ok":
        bad = {hs: v for hs, v in vals.items() if v != exact}
        if bad:
            return (
                f"{call} by PYTHONHASHSEED: {vals!r}; the case-sensitive "
                f"reading {exact!r} must be kept (case-insensitive lookup only *adds* spellings)"
            )
        return None
    if len(set(vals.values())) > 1:
        return f"{call} depends on PYTHONHASHSEED: {vals!r}"
    if any(v not in allowed for v in vals.values()):
        return f"{call} = {vals!r}, reference allows {sorted(allowed)!r}"
    return None


# --------------------------------------------------------------------------------------------
# check 4: membership, getattr, delta substitution
# --------------------------------------------------------------------------------------------
def _check_contains_getattr(ureg, T, s):
    c = T.candidates(s)
    exp = T.name_outcome(s, c)
    out = []
    oc = _call(lambda: s in ureg)
    _restore(ureg)
    og = _call(getattr, ureg, s)
    _restore(ureg)
    blocked = s.endswith("__") or len(s.lstrip("_")) == 0 or (s.startswith("_") and not s.lstrip("_")[0].isdigit())
    if blocked:
        return out  # documented: underscore names are never units through attribute access
    if s not in T.units and (hasattr(type(ureg), s) or s in ureg.__dict__):
        return out  # a real attribute of the registry object (Python semantics), not a declared spelling
    if exp[0] == "ok":
        if oc != ("ok", True):
            out.append(f"({s!r} in ureg) observed {oc!r}, reference True")
        want = ureg.Unit(ureg.UnitsContainer({exp[1]: 1})) if exp[1] else ureg.Unit(ureg.UnitsContainer())
        if og[0] != "ok" or not isinstance(og[1], ureg.Unit) or og[1] != want or dict(og[1]._units) != dict(want._units):
            out.append(f"getattr(ureg, {s!r}) observed {og!r}, reference {want!r}")
    elif exp[1] == "UndefinedUnitError":
        if oc != ("ok", False):
            out.append(f"({s!r} in ureg) observed {oc!r}, reference False")
        if og != ("exc", "UndefinedUnitError"):
            out.append(f"getattr(ureg, {s!r}) observed {og!r}, reference UndefinedUnitError")
    else:  # prefixed non-multiplicative unit
        if og != ("exc", "OffsetUnitCalculusError"):
            out.append(f"getattr(ureg, {s!r}) observed {og!r}, reference OffsetUnitCalculusError")
        if oc not in (("ok", False), ("exc", "OffsetUnitCalculusError")):
            out.append(f"({s!r} in ureg) observed {oc!r}, reference False or OffsetUnitCalculusError")
    return out


def _render_expr(terms):
    """terms: [(spelling, exponent, op)] -> expression string; op in '*', '/' (first term: '*' or '1/')"""
    s = ""
    for i, (name, e, op) in enumerate(terms):
        t = name if e == 1 else f"{name}**{e}" if e > 0 else f"{name}**({e})"
        if i == 0:
            s = t if op == "*" else "1/" + t
        else:
            s += f" {op} " + t
    return s


def _delta_expected(T, terms, as_delta):
    """independent reading of the delta rule: in a compound expression (more than one distinct unit left after
    cancellation, or an exponent other than 1) non-multiplicative units denote their delta_ counterpart unless
    disabled.  Units are identified by what the spelling denotes, not by the spelling (aliases are the same unit)."""
    acc = {}
    for name, e, op in terms:
        cn = T.name_outcome(name, T.candidates(name))
        assert cn[0] == "ok", name
        acc[cn[1]] = acc.get(cn[1], 0) + (e if op == "*" else -e)
    acc = {k: v for k, v in acc.items() if v != 0}  # factors that cancel do not make the expression compound
    many = len(acc) > 1
    out = {}
    for cn, e in acc.items():
        if as_delta is not False and (many or e != 1) and not T.mult[cn]:
            cn = "delta_" + cn
        out[cn] = out.get(cn, 0) + e
    return {k: v for k, v in out.items() if v != 0}


def _delta_cases(T, rng, n_random):
    offs = [k for k, n in T.units.items() if not T.mult[n] and ("delta_" + n) in T.units]
    logs = [k for k, n in T.units.items() if not T.mult[n] and ("delta_" + n) not in T.units]
    partners = ["meter", "s", "kelvin", "km", "delta_degC"]
    cases = []
    for o in offs + logs:
        for pre in ((), (o,), (o + "/meter",)):
            for ad in (None, True, False):
                cases.append(([(o, 1, "*")], ad, pre))
        for ad in (None, True, False):
            for m in partners[:3]:
                cases.append(([(o, 1, "*"), (m, 1, "/")], ad, ()))
                cases.append(([(m, 1, "*"), (o, 1, "/")], ad, ()))
                cases.append(([(o, 1, "*"), (m, 2, "*")], ad, ()))
            cases.append(([(o, 2, "*")], ad, ()))
            cases.append(([(o, 1, "/")], ad, ()))
            cases.append(([(o, 1, "*"), (o, 1, "*")], ad, ()))
    allnm = offs + logs
    for _ in range(n_random):
        k = rng.choice((2, 2, 3))
        terms = []
        for _j in range(k):
            nm = rng.choice(allnm if rng.random() < 0.5 else partners)
            terms.append((nm, rng.choice((1, 1, 2, 3)), rng.choice("*/")))
        cases.append((terms, rng.choice((None, True, False)), ()))
    return cases, offs, logs


def _check_delta_one(ureg, T, terms, as_delta, pre):
    terms = [tuple(t) for t in terms]
    expr = _render_expr(terms)
    exp = _delta_expected(T, terms, as_delta)
    for p in pre:
        _call(ureg.parse_units, p)
    kw = {} if as_delta is None else {"as_delta": as_delta}
    r = _call(ureg.parse_units, expr, **kw)
    out = []
    undefined = []
    if r[0] != "ok":
        out.append(f"parse_units({expr!r}, {kw}) raised {r[1]}, reference {exp!r}")
    else:
        got = {k: v for k, v in r[1]._units.items()}
        if got != exp or any(got[k] != exp[k] for k in got):
            out.append(
                f"parse_units({expr!r}, {kw}) after {list(pre)!r} = {got!r}, reference {exp!r} "
                "(reference: factors of the same unit cancel whichever alias spells them)"
            )
        undefined = [k for k in got if k not in T.units and T.name_outcome(k, T.candidates(k))[0] != "ok"]
    return expr, out, undefined


# --------------------------------------------------------------------------------------------
# check 5: synthetic registry with colliding spellings
# --------------------------------------------------------------------------------------------
SYN_DEFS = [
    "a- = 10",
    "ab- = 100 = k-",
    "kb- = 1000 = sk- = bk-",
    "b = [x]",
    "bs = 3 b = sb",
    "ka = [y] = as = aka",
    "bb = 5 b = _ = kab",
    "ss = 7 b = s",
    "abb = 11 ka",
    "kk = b; offset: 1 = ak",
    "delta_kk = b",
]
SYN_ALPHABET = "abks"
SYN_MAXLEN = 6


def _syn_registry(non_int_type=float):
    r = _new_registry(None, non_int_type=non_int_type)
    for d in SYN_DEFS:
        r.define(d)
    _snap(r)
    return r


def _syn_strings():
    for n in range(1, SYN_MAXLEN + 1):
        for t in itertools.product(SYN_ALPHABET, repeat=n):
            yield "".join(t)


def _check_syn(history):
    u, uf = _syn_registry(), _syn_registry(Fraction)
    T = Tables(u)
    R = RootRef(_syn_registry(Fraction), Tables(uf))
    res, n = [], 0
    for s in _syn_strings():
        obs = _observe(u, uf, s)
        if not history:
            _restore(u)
            _restore(uf)
        d = _diff(obs, _expected(T, R, s))
        n += 1
        if d:
            res.append((s, d))
    return n, res


# --------------------------------------------------------------------------------------------
# run
# --------------------------------------------------------------------------------------------
def _random_strings(T, rng, n):
    frags = [k for k in T.pref if k] + list(T.units) + list("abcdegkmnstuµ_") + ["s", "ss", "es"]
    out = []
    while len(out) < n:
        k = rng.choice((1, 2, 2, 3, 3, 4))
        s = "".join(rng.choice(frags) for _ in range(k))
        if rng.random() < 0.3 and len(s) > 1:
            i = rng.randrange(len(s))
            s = s[:i] + s[i + 1 :]
        if s and s.isidentifier() and len(s) < 40:
            out.append(s)
    return list(dict.fromkeys(out))


HIST_CHUNK = 1024
QUICK_STRIDE = 5


def _all_strings(T, tier, seed):
    """the deterministic list of strings of a run (also used by replay to rebuild a lookup history)"""
    rng = random.Random(seed)
    cross = _cross_product(T)
    strings = list(cross)
    rand_strings = _random_strings(T, rng, 4000 if tier == "quick" else 20000)
    warm = _warm_names(T)
    wok = [w for w in warm if T.name_outcome(w, T.candidates(w))[0] == "ok" and w not in T.units]
    wr = random.Random(seed + 1)
    wsample = sorted(set(wr.sample(wok, 40 if tier == "quick" else 400)) | {"millifoot"})  # 'kilomillifoot': the documented example
    double_src = {}
    for w in wsample:
        for p in T.pref_order:
            if p:
                for suf in SUFFIXES:
                    double_src.setdefault(p + w + suf, w)
    double = [s for s in double_src if s not in cross]
    if tier == "quick":  # odd stride: consecutive strings differ in the plural suffix
        sel = [s for i, s in enumerate(strings) if i % QUICK_STRIDE == seed % QUICK_STRIDE or s in T.units]
    else:
        sel = strings
    all_fresh = sel + [s for s in rand_strings if s not in cross and s not in double_src] + double
    return cross, strings, rand_strings, double_src, double, all_fresh, warm


def run(tier: str = "quick", seed: int = 0, **kw) -> dict:
    assert tier in ("quick", "thorough")
    t0 = time.time()
    workers = int(kw.get("workers", min(16, os.cpu_count() or 1)))
    plog = logging.getLogger("pint")
    old_level = plog.level
    plog.setLevel(logging.ERROR)  # get_name logs one warning per string with several readings
    try:
        return _run(tier, seed, workers, t0, int(kw.get("max_listed", MAX_LISTED)))
    finally:
        plog.setLevel(old_level)


def _run(tier, seed, workers, t0, max_listed):
    g = _setup()
    T = g["T"]
    ctx = multiprocessing.get_context("fork")
    viol = []  # (kind, case, what, data)
    timings = {}

    def add(kind, case, what, **data):
        viol.append({"case": case, "what": what, "kind": kind, **data})

    cross, strings, rand_strings, double_src, double, all_fresh, warm = _all_strings(T, tier, seed)
    evaluations = 0

    # ---- check 1: fresh state (the history registries do not exist yet: smaller processes, cheaper forks)
    t = time.time()
    fresh_bad = {}
    fstride = 24 if tier == "quick" else 8
    sample = [s for i, s in enumerate(all_fresh) if i % fstride == seed % fstride]
    tasks = [(c, False) for c in _chunks(all_fresh, 1024)] + [(c, True) for c in _chunks(sample, 64)]
    forked_n = len(sample)
    with ctx.Pool(workers, initializer=_worker_init) as pool:
        for n, res in pool.imap(_task_fresh, tasks):
            evaluations += n
            for s, d in res:
                fresh_bad.setdefault(s, d)
    for s in sorted(fresh_bad):
        add("resolve", f"resolve:{s}", "; ".join(fresh_bad[s]), s=s)
    timings["fresh"] = round(time.time() - t, 1)

    # ---- check 2: history
    t = time.time()
    g = _setup_history()
    hist_strings = all_fresh
    hist_index = {s: i for i, s in enumerate(hist_strings)}
    hist_bad = {}
    with ctx.Pool(workers, maxtasksperchild=1) as pool:
        for n, res in pool.imap(_task_history, _chunks(hist_strings, HIST_CHUNK)):
            evaluations += n
            for s, d in res:
                hist_bad.setdefault(s, d)
    n_hist_only = 0
    for s in sorted(hist_bad):
        if s in fresh_bad:
            continue
        n_hist_only += 1
        add(
            "history",
            f"history:{s}",
            "answer differs after earlier lookups (fresh registry agrees with the reference): " + "; ".join(hist_bad[s]),
            s=s,
            **(
                {"warm": [double_src[s]]}
                if s in double_src
                else {"warm": "all", "tier": tier, "seed": seed, "chunk": hist_index[s] // HIST_CHUNK}
            ),
        )
    timings["history"] = round(time.time() - t, 1)

    # ---- check 3: case-insensitive
    t = time.time()
    n_ci = 3000 if tier == "quick" else 20000
    crng = random.Random(seed + 2)
    base = crng.sample(strings, n_ci)
    ci_strings = list(dict.fromkeys(_mutate_case(crng, s) for s in base))
    u_ci = _new_registry()
    u_opt = _new_registry(case_sensitive=False)
    assert set(T.units) <= set(u_opt._units)
    n_ci_changed = 0
    for s in ci_strings:
        if s not in cross:
            n_ci_changed += 1
        for how, reg in (("arg", u_ci), ("option", u_opt), ("off", u_ci)):
            evaluations += 1
            d = _check_casei_one(reg, T, s, how)
            if d:
                lazy = any(un in T.lazy_like for c in T.candidates_casei(s) for _, un in c)
                add("casei-lazy" if lazy else "casei", f"casei-{'lazy-' if lazy else ''}{how}:{s}", "; ".join(d), s=s, how=how)
    hs_strings, n_groups = _hashseed_strings(T)
    per_seed = _hashseed_runs(hs_strings)
    for s in hs_strings:
        for how in ("arg", "option"):
            evaluations += len(HASH_SEEDS)
            v = _hashseed_verdict(T, s, {hs: per_seed[hs][how][s] for hs in HASH_SEEDS}, how)
            if v:
                add("casei-hashseed", f"casei-hashseed-{how}:{s}", v, s=s, how=how)
    timings["casei"] = round(time.time() - t, 1)

    # ---- check 4: membership / getattr / delta
    t = time.time()
    u4 = _new_registry()
    mrng = random.Random(seed + 3)
    msample = list(T.units) + mrng.sample(strings, 3000 if tier == "quick" else 30000) + rand_strings[:2000]
    msample = list(dict.fromkeys(msample))
    for s in msample:
        evaluations += 1
        d = _check_contains_getattr(u4, T, s)
        if d:
            k = "member" if s.isidentifier() else "member-nonident"
            add(k, f"{k}:{s}", "; ".join(d), s=s)
    dcases, offs, logs = _delta_cases(T, random.Random(seed + 4), 300 if tier == "quick" else 3000)
    u5 = _new_registry()
    undefined_seen = {}
    for terms, ad, pre in dcases:
        evaluations += 1
        expr, d, undefined = _check_delta_one(u5, T, terms, ad, pre)
        involves_log = any(nm in logs for nm, _, _ in terms)
        if d:
            add("delta", f"delta:{expr}:{ad}", "; ".join(d), terms=[list(x) for x in terms], as_delta=ad, pre=list(pre))
        for k in undefined:
            if k not in undefined_seen:
                undefined_seen[k] = expr
                add(
                    "delta-undefined",
                    f"delta-undefined:{k}",
                    f"parse_units({expr!r}) returns the unit name {k!r}, which no definition declares "
                    f"(converting it raises UndefinedUnitError)" + (" [logarithmic unit]" if involves_log else ""),
                    terms=[list(x) for x in terms],
                    as_delta=ad,
                    pre=list(pre),
                    name=k,
                )
    timings["member_delta"] = round(time.time() - t, 1)

    # ---- check 5: synthetic
    t = time.time()
    n, res = _check_syn(history=False)
    evaluations += n
    syn_bad = dict(res)
    for s, d in res:
        add("syn", f"syn:{s}", "; ".join(d), s=s, history=False)
    n, res = _check_syn(history=True)
    evaluations += n
    for s, d in res:
        if s not in syn_bad:
            add("syn-history", f"history:syn:{s}", "; ".join(d), s=s, history=True)
    timings["synthetic"] = round(time.time() - t, 1)

    # ---- summary
    n_rand = sum(1 for s in all_fresh if s not in cross and s not in double_src)
    n_sel = len(all_fresh) - n_rand - len(double)
    done = all_fresh[:n_sel]  # the cross-product strings that were executed
    two = sum(1 for s in done if s not in T.units and len(T.candidates(s)) > 1)
    resolvable = sum(1 for s in done if s not in T.units and T.candidates(s))
    exact = sum(1 for s in done if s in T.units)
    kinds = {}
    for v in viol:
        kinds[v["kind"]] = kinds.get(v["kind"], 0) + 1
    listed, per = [], {}
    for v in viol:
        if per.get(v["kind"], 0) < PER_KIND and len(listed) < max_listed:
            per[v["kind"]] = per.get(v["kind"], 0) + 1
            listed.append(v)
    for v in viol:
        if len(listed) >= max_listed:
            break
        if v not in listed:
            listed.append(v)
    samples = []
    for s in (done[200], done[len(done) // 2 + 1], "amps", "kilodegC", double[7]):
        c = T.candidates(s)
        samples.append({"string": s, "reference_candidates": [list(x) for x in c], "reference_get_name": list(T.name_outcome(s, c))})
    return {
        "name": NAME,
        "bound": (
            f"default registry: {n_sel} of the {len(strings)} distinct strings p+u+s (p over {len(T.pref_order)} prefix spellings incl. the "
            f"empty one, u over {T.n_declared} declared unit spellings, s in '', 's'"
            + ("; all of them" if tier == "thorough" else f"; every {QUICK_STRIDE}th in enumeration order plus every declared spelling itself")
            + f") + {n_rand} random non-cross-product strings + {len(double)} doubly prefixed strings, each in a fresh state (registry reset to "
            f"its table after construction after every string; {forked_n} of them also in a forked child of a never used registry) and again "
            f"after {len(warm)} earlier lookups of single-prefixed names; {len(ci_strings)} case-mutated strings x 3 modes; "
            f"{len(hs_strings)} case-ambiguous strings x 2 modes x PYTHONHASHSEED {list(HASH_SEEDS)}; {len(msample)} strings for in/getattr; "
            f"{len(dcases)} delta expressions; synthetic colliding registry: all {sum(len(SYN_ALPHABET) ** k for k in range(1, SYN_MAXLEN + 1))} "
            f"strings of length <= {SYN_MAXLEN} over '{SYN_ALPHABET}', fresh and with history"
        ),
        "evaluations": evaluations,
        "distinct_nontrivial": resolvable + exact,
        "rule": (
            "cross product enumerated prefix-major (declaration order of prefixes, sorted unit spellings); a string is non-trivial if the reference finds a reading "
            f"({exact} exact declared spellings, {resolvable} prefix/plural readings, {two} of them with two or more candidate readings; "
            f"{n_sel - exact - resolvable} have none and must raise UndefinedUnitError); {n_ci_changed} case-mutated strings differ from "
            f"every cross-product string; {n_groups} groups of declared spellings equal up to case"
        ),
        "exhaustive": tier == "thorough",  # refers to the cross product; the other parts are samples by construction
        "exhaustive_parts": {
            "cross product prefix x unit x plural": tier == "thorough",
            "synthetic registry, strings of length <= 6": True,
            "doubly prefixed / random / case-mutated / delta expressions": False,
        },
        "violations": listed,
        "violation_count": len(viol),
        "violation_kinds": kinds,
        "samples": samples,
        "timings_s": timings,
        "wall_s": round(time.time() - t0, 1),
        "tier": tier,
        "seed": seed,
    }


# --------------------------------------------------------------------------------------------
# replay
# --------------------------------------------------------------------------------------------
def replay(data: dict) -> bool:
    plog = logging.getLogger("pint")
    old_level = plog.level
    plog.setLevel(logging.ERROR)
    before = set(_SNAPS)
    try:
        return _replay(data)
    finally:
        plog.setLevel(old_level)
        for k in set(_SNAPS) - before:
            del _SNAPS[k]


def _replay(data):
    kind = data["kind"]
    if kind in ("resolve", "history"):
        u = _new_registry()
        uf = _new_registry(non_int_type=Fraction)
        T, TF = Tables(u), Tables(uf)
        R = RootRef(_new_registry(non_int_type=Fraction), TF)
        if kind == "history":
            warm = _warm_names(T) if data.get("warm") == "all" else data["warm"]
            for w in warm:
                _call(u.get_name, w)
                _call(uf.get_name, w)
            if data.get("warm") == "all":  # plus the lookups made earlier in the same chunk of the run
                all_fresh = _all_strings(T, data["tier"], data["seed"])[5]
                for e in _chunks(all_fresh, HIST_CHUNK)[data["chunk"]]:
                    if e == data["s"]:
                        break
                    _observe(u, uf, e)
        return not _diff(_observe(u, uf, data["s"]), _expected(T, R, data["s"]))
    if kind in ("casei", "casei-lazy"):
        how = data["how"]
        u = _new_registry(case_sensitive=False) if how == "option" else _new_registry()
        return not _check_casei_one(u, Tables(u), data["s"], how)
    if kind == "casei-hashseed":
        T = Tables(_new_registry())
        per_seed = _hashseed_runs([data["s"]])
        how = data.get("how", "arg")
        return _hashseed_verdict(T, data["s"], {hs: per_seed[hs][how][data["s"]] for hs in HASH_SEEDS}, how) is None
    if kind in ("member", "member-nonident"):
        u = _new_registry()
        return not _check_contains_getattr(u, Tables(u), data["s"])
    if kind in ("delta", "delta-undefined"):
        u = _new_registry()
        _, d, undefined = _check_delta_one(u, Tables(u), data["terms"], data["as_delta"], data["pre"])
        return not d if kind == "delta" else data["name"] not in undefined
    if kind in ("syn", "syn-history"):
        u, uf = _syn_registry(), _syn_registry(Fraction)
        T = Tables(u)
        R = RootRef(_syn_registry(Fraction), Tables(uf))
        if data["history"]:
            for s in _syn_strings():
                if s == data["s"]:
                    break
                _observe(u, uf, s)
        return not _diff(_observe(u, uf, data["s"]), _expected(T, R, data["s"]))
    raise ValueError(f"unknown violation kind {kind!r}")


if __name__ == "__main__":
    import argparse

    ap = argparse.ArgumentParser()
    ap.add_argument("--tier", default="quick", choices=("quick", "thorough"))
    ap.add_argument("--seed", type=int, default=0)
    a = ap.parse_args()
    print(json.dumps(run(a.tier, a.seed), indent=1, default=str, ensure_ascii=False))
