"""Bounded stand-in for C20 "The bundled registry carries the internationally standardised values".

Every row of the independently curated table /verif/tables/standards.json (written from knowledge of the standards it
cites, not from pint's definition files) whose name exists in the default registry is checked:

 * Fraction registry (non_int_type=Fraction): Quantity(Fraction(1), name).to(<SI units of the row>) and
   .to_root_units() have EXACTLY the standard factor (pint's root unit of mass is the gram: the root factor is the SI
   factor x 1000**(exponent of kilogram)) and the result is a Fraction; rows whose value involves pi are compared to a
   relative 1e-47 (pint's pi has 50 digits), rows of kind `measured` to one unit of the last digit given in the table;
 * ureg.get_dimensionality(name) equals the dimensionality of the row's SI units;
 * ureg.get_symbol(name) is the standard symbol (where the row gives one; a list = accepted alternatives);
 * float registry: Quantity(1.0, name).to(SI) within FLOAT_ULPS ulp of the correctly rounded standard factor;
 * prefixes: prefix+meter (binary prefixes: prefix+byte) converts to the unprefixed unit with exactly the standard
   factor, by name and by every standard symbol, and get_symbol(prefix+meter) is symbol+'m';
 * offset scales: T/K = scale * t + offset exactly for t in OFFSET_POINTS, both directions, plus the fixed points
   0 degC = 273.15 K, 32 degF = 0 degC, 212 degF = 100 degC;
 * Gaussian units (kind `correspondence`): symbol, and the numerical correspondence through the 'Gaussian' context when
   the registry has it (relative 1e-9, not exact: the context works with square roots).

Rows with `accept` list several standardised values (e.g. chain: international foot / U.S. survey foot); the row holds
if the registry equals one of them, and which one is reported.  Rows whose name the registry does not know are counted
in `missing`, not as violations.  The space is the table: exhaustive.
"""
from __future__ import annotations

import ast
import io
import json
import math
import os
import time
import tokenize
from fractions import Fraction

NAME = "c20_standards"
FLOAT_ULPS = 8  # "within a few ulp" (C02); the default registry peaks at 7.9 ulp (c02_factors)
PI_RTOL = Fraction(1, 10 ** 47)
OFFSET_POINTS = (-40, 0, 32, 100, 212, Fraction(373, 10))
TABLE = os.path.join(os.path.dirname(os.path.dirname(os.path.abspath(__file__))), "tables", "standards.json")
PI = Fraction("3.141592653589793238462643383279502884197169399375105820974944")
DIMS = {"kilogram": "[mass]", "meter": "[length]", "second": "[time]", "ampere": "[current]", "kelvin": "[temperature]",
        "mole": "[substance]", "candela": "[luminosity]", "radian": None, "bit": None}


def _exc_text(e):
    try:
        return str(e)
    except Exception:  # noqa: BLE001
        return "<str() of the exception failed>"


# =============================================================================== exact expression evaluator
class Evaluator:
    """value expressions: decimal literals (read exactly), + - * / ** (integer exponents), parentheses, the names of
    the table's `constants` and `pi`.  -> (Fraction, uses_pi)"""

    def __init__(self, constants):
        self.constants = constants
        self.cache = {}

    def eval(self, text):
        text = str(text)
        if text in self.cache:
            return self.cache[text]
        toks = []
        for tok in tokenize.generate_tokens(io.StringIO(text).readline):
            if tok.type == tokenize.NUMBER:
                toks.append((tokenize.NAME, "F"))
                toks.append((tokenize.OP, "("))
                toks.append((tokenize.STRING, repr(tok.string)))
                toks.append((tokenize.OP, ")"))
            elif tok.type in (tokenize.NAME, tokenize.OP):
                toks.append((tok.type, tok.string))
        tree = ast.parse(tokenize.untokenize(toks).strip(), mode="eval")
        self._pi = False
        val = self._ev(tree.body)
        out = self.cache[text] = (val, self._pi)
        return out

    def _ev(self, node):
        if isinstance(node, ast.Call) and isinstance(node.func, ast.Name) and node.func.id == "F" and len(node.args) == 1:
            return Fraction(node.args[0].value)
        if isinstance(node, ast.Name):
            if node.id == "pi":
                self._pi = True
                return PI
            if node.id in self.constants:
                saved = self._pi
                v, p = Evaluator.eval(self, self.constants[node.id])
                self._pi = saved or p
                return v
            raise ValueError("unknown name %r in a table expression" % node.id)
        if isinstance(node, ast.UnaryOp) and isinstance(node.op, (ast.USub, ast.UAdd)):
            v = self._ev(node.operand)
            return -v if isinstance(node.op, ast.USub) else v
        if isinstance(node, ast.BinOp):
            a, b = self._ev(node.left), self._ev(node.right)
            if isinstance(node.op, ast.Add):
                return a + b
            if isinstance(node.op, ast.Sub):
                return a - b
            if isinstance(node.op, ast.Mult):
                return a * b
            if isinstance(node.op, ast.Div):
                return a / b
            if isinstance(node.op, ast.Pow):
                if b.denominator != 1:
                    raise ValueError("non-integer exponent in a table expression")
                return a ** int(b)
        raise ValueError("unsupported syntax in a table expression: %s" % ast.dump(node))


def last_digit_unit(text):
    """'9.1093837139e-31' -> Fraction(10)**-41: one unit of the last digit given"""
    t = text.strip().lstrip("+-").lower()
    mant, _, exp = t.partition("e")
    decimals = len(mant.partition(".")[2])
    return Fraction(10) ** (int(exp or 0) - decimals)


def fstr(fr):
    fr = Fraction(fr)
    s = "%d/%d" % (fr.numerator, fr.denominator) if fr.denominator != 1 else "%d" % fr.numerator
    return s if len(s) <= 48 else "~%.17g" % float(fr)


# =============================================================================== environment
class Env:
    def __init__(self):
        import pint

        self.pint = pint
        self.uf = pint.UnitRegistry(non_int_type=Fraction)
        self.ud = pint.UnitRegistry()
        with open(TABLE, encoding="utf-8") as fh:
            self.table = json.load(fh)
        self.ev = Evaluator(self.table["constants"])
        self.rows = self.table["rows"]

    def known(self, ureg, name):
        try:
            ureg.get_name(name)
            return True
        except self.pint.UndefinedUnitError:
            return False

    def dims(self, si_units):
        out = {}
        for k, v in si_units.items():
            d = DIMS[k]
            if d is not None and v != 0:
                out[d] = Fraction(v)
        return out


_ENV = []


def env():
    if not _ENV:
        _ENV.append(Env())
    return _ENV[0]


def dimkey(d):
    return tuple(sorted((k, Fraction(v)) for k, v in dict(d).items() if v != 0))


# =============================================================================== comparisons
def value_problem(got, want, mode, tol, what):
    """mode: exact | pi | measured"""
    if isinstance(got, float) or not isinstance(got, (int, Fraction)) or isinstance(got, bool):
        if mode == "exact":
            return "%s = %r of type %s; the standard value is exactly %s" % (what, got, type(got).__name__, fstr(want))
        got = Fraction(got)
    got = Fraction(got)
    if mode == "exact":
        if got != want:
            return "%s = %s; the standard value is exactly %s (ratio %.15g)" % (what, fstr(got), fstr(want),
                                                                             float(got / want) if want else float("nan"))
        return None
    if mode == "pi":
        if abs(got - want) > PI_RTOL * abs(want):
            return "%s = %.17g; the standard value is %.17g (relative difference %.3g)" % (
                what, float(got), float(want), float(abs(got - want) / abs(want)))
        return None
    if abs(got - want) > tol:
        return "%s = %.17g; the table gives %.17g (difference %.3g, one unit of the last digit is %.3g)" % (
            what, float(got), float(want), float(abs(got - want)), float(tol))
    return None


def float_problem(got, want, extra_tol, what):
    if not isinstance(got, float) or not math.isfinite(got):
        return "%s = %r (%s) in the float registry" % (what, got, type(got).__name__)
    if want == 0:
        return None if got == 0 else "%s = %r, expected 0" % (what, got)
    cr = float(want)
    err = abs(Fraction(got) - want)
    if err <= FLOAT_ULPS * Fraction(math.ulp(cr)) or err <= extra_tol:
        return None
    return "%s = %r in the float registry; the standard value rounds to %r (off by %.1f ulp > %d)" % (
        what, got, cr, float(err / Fraction(math.ulp(cr))), FLOAT_ULPS)


def symbol_problem(ureg, name, symbol):
    accepted = symbol if isinstance(symbol, list) else [symbol]
    try:
        got = ureg.get_symbol(name)
    except Exception as e:  # noqa: BLE001
        return "get_symbol(%r) raised %s" % (name, type(e).__name__)
    if got not in accepted:
        return "get_symbol(%r) = %r; the standard symbol is %s" % (name, got, " or ".join(repr(s) for s in accepted))
    return None


# =============================================================================== row checks
def check_unit_row(e, row):
    """-> (list of (check, problem text), info dict)"""
    uf, ud = e.uf, e.ud
    name = row["name"]
    kind = row["kind"]
    problems = []
    info = {}
    alts = row.get("accept") or [{"value": row["value"], "source": row.get("source")}]
    si = row["si_units"]
    sic_f = uf.Unit(uf.UnitsContainer(dict(si)))
    kgexp = si.get("kilogram", 0)
    # dimensionality
    try:
        gd = dimkey(uf.get_dimensionality(name))
    except Exception as ex:  # noqa: BLE001
        gd = "raised %s" % type(ex).__name__
    if gd != dimkey(e.dims(si)):
        problems.append(("dimensionality", "get_dimensionality(%r) = %s; the standard unit is expressed in %s, i.e. %s"
                         % (name, gd, si, dimkey(e.dims(si)))))
    else:
        # factor (exact registry)
        try:
            got = uf.Quantity(Fraction(1), name).to(sic_f).magnitude
            got_root = uf.Quantity(Fraction(1), name).to_root_units().magnitude
        except Exception as ex:  # noqa: BLE001
            problems.append(("factor", "Quantity(1, %r).to(SI) raised %s: %s" % (name, type(ex).__name__, _exc_text(ex))))
            got = None
        if got is not None:
            found = first = None
            for alt in alts:
                want, uses_pi = e.ev.eval(alt["value"])
                mode = "measured" if kind == "measured" else ("pi" if uses_pi else "exact")
                tol = last_digit_unit(alt["value"]) if mode == "measured" else 0
                p1 = value_problem(got, want, mode, tol, "Quantity(1, %r).to(%s)" % (name, _si_text(si)))
                p2 = value_problem(got_root, want * Fraction(1000) ** kgexp, mode, tol * Fraction(1000) ** kgexp,
                                   "Quantity(1, %r).to_root_units()" % name)
                if p1 is None and p2 is None:
                    found = alt
                    break
                if first is None:
                    first = (p1, p2)
            if found is None:
                p1, p2 = first
                if len(alts) > 1:
                    extra = "; none of the %d standardised values matches (%s)" % (
                        len(alts), ", ".join("%s = %s [%s]" % (a["value"], fstr(e.ev.eval(a["value"])[0]), a["source"]) for a in alts))
                else:
                    extra = ""
                if p1:
                    problems.append(("factor", p1 + extra))
                if p2 and not p1:
                    problems.append(("root-factor", p2 + extra))
            else:
                if len(alts) > 1:
                    info["matched"] = found["source"]
                # float registry against the matched value
                want, uses_pi = e.ev.eval(found["value"])
                try:
                    gf = ud.Quantity(1.0, name).to(ud.Unit(ud.UnitsContainer(dict(si)))).magnitude
                    p = float_problem(gf, want, last_digit_unit(found["value"]) if kind == "measured" else 0,
                                      "Quantity(1.0, %r).to(%s)" % (name, _si_text(si)))
                except Exception as ex:  # noqa: BLE001
                    p = "float registry: Quantity(1.0, %r).to(SI) raised %s" % (name, type(ex).__name__)
                if p:
                    problems.append(("float", p))
    if "symbol" in row:
        p = symbol_problem(uf, name, row["symbol"])
        if p:
            problems.append(("symbol", p))
    return problems, info


def _si_text(si):
    return "*".join("%s^%d" % kv if kv[1] != 1 else kv[0] for kv in si.items()) or "dimensionless"


def check_prefix_row(e, row):
    uf, ud = e.uf, e.ud
    name = row["name"]
    want, _ = e.ev.eval(row["value"])
    binary = want.denominator == 1 and want.numerator & (want.numerator - 1) == 0 and want > 1
    carrier, csym = ("byte", "B") if binary else ("meter", "m")
    symbols = row["symbol"] if isinstance(row["symbol"], list) else [row["symbol"]]
    problems = []
    target = uf.Unit(uf.UnitsContainer({carrier: 1}))
    spellings = [name + carrier] + [s + csym for s in symbols]
    for sp in spellings:
        try:
            got = uf.Quantity(Fraction(1), uf.UnitsContainer({sp: 1})).to(target).magnitude
        except Exception as ex:  # noqa: BLE001
            problems.append(("factor", "Quantity(1, %r).to(%r) raised %s: %s" % (sp, carrier, type(ex).__name__, _exc_text(ex))))
            continue
        p = value_problem(got, want, "exact", 0, "Quantity(1, %r).to(%r)" % (sp, carrier))
        if p:
            problems.append(("factor", p))
    p = symbol_problem(uf, name + carrier, [s + csym for s in symbols])
    if p:
        problems.append(("symbol", p))
    try:
        gf = ud.Quantity(1.0, name + carrier).to(carrier).magnitude
        p = float_problem(gf, want, 0, "Quantity(1.0, %r).to(%r)" % (name + carrier, carrier))
    except Exception as ex:  # noqa: BLE001
        p = "float registry: %r raised %s" % (name + carrier, type(ex).__name__)
    if p:
        problems.append(("float", p))
    return problems, {}


def check_offset_row(e, row):
    uf, ud = e.uf, e.ud
    name = row["name"]
    scale, _ = e.ev.eval(row["scale"])
    offset, _ = e.ev.eval(row["offset"])
    problems = []
    for t in OFFSET_POINTS:
        t = Fraction(t)
        want = scale * t + offset
        try:
            got = uf.Quantity(t, name).to("kelvin").magnitude
            back = uf.Quantity(want, "kelvin").to(name).magnitude
        except Exception as ex:  # noqa: BLE001
            problems.append(("scale", "Quantity(%s, %r).to('kelvin') raised %s: %s" % (t, name, type(ex).__name__, _exc_text(ex))))
            continue
        p = value_problem(got, want, "exact", 0, "Quantity(%s, %r).to('kelvin')" % (t, name)) \
            or value_problem(back, t, "exact", 0, "Quantity(%s, 'kelvin').to(%r)" % (fstr(want), name))
        if p:
            problems.append(("scale", p))
        try:
            gf = ud.Quantity(float(t), name).to("kelvin").magnitude
            if not isinstance(gf, float) or abs(Fraction(gf) - want) > FLOAT_ULPS * Fraction(math.ulp(max(abs(float(want)), abs(float(offset))))):
                problems.append(("float", "float registry: Quantity(%r, %r).to('kelvin') = %r, standard %r" % (float(t), name, gf, float(want))))
        except Exception as ex:  # noqa: BLE001
            problems.append(("float", "float registry: Quantity(%r, %r).to('kelvin') raised %s" % (float(t), name, type(ex).__name__)))
    if "symbol" in row:
        p = symbol_problem(uf, name, row["symbol"])
        if p:
            problems.append(("symbol", p))
    return problems, {}


FIXED_POINTS = (
    ("0 degC = 273.15 K", 0, "degC", "kelvin", Fraction("273.15")),
    ("32 degF = 0 degC", 32, "degF", "degC", Fraction(0)),
    ("212 degF = 100 degC", 212, "degF", "degC", Fraction(100)),
    ("-40 degF = -40 degC", -40, "degF", "degC", Fraction(-40)),
    ("491.67 degR = 0 degC", Fraction("491.67"), "degR", "degC", Fraction(0)),
    ("0 K = -459.67 degF", 0, "kelvin", "degF", Fraction("-459.67")),
)


def check_fixed_point(e, fp):
    label, t, src, dst, want = fp
    try:
        got = e.uf.Quantity(Fraction(t), src).to(dst).magnitude
    except Exception as ex:  # noqa: BLE001
        return "Quantity(%s, %r).to(%r) raised %s: %s" % (t, src, dst, type(ex).__name__, _exc_text(ex))
    return value_problem(got, want, "exact", 0, "Quantity(%s, %r).to(%r)" % (t, src, dst))


def check_correspondence_row(e, row):
    """Gaussian unit: symbol; the numerical correspondence through the Gaussian context (not exact)"""
    uf, ud = e.uf, e.ud
    name = row["name"]
    problems, info = [], {}
    if "symbol" in row:
        p = symbol_problem(uf, name, row["symbol"])
        if p:
            problems.append(("symbol", p))
    want, _ = e.ev.eval(row["value"])
    si = row["si_units"]
    same_dim = False
    try:
        same_dim = dimkey(ud.get_dimensionality(name)) == dimkey(e.dims(si))
    except Exception:  # noqa: BLE001
        pass
    info["si_dimensionality_in_registry"] = same_dim
    try:
        if same_dim:
            got = ud.Quantity(1.0, name).to(ud.Unit(ud.UnitsContainer(dict(si)))).magnitude
        else:
            got = ud.Quantity(1.0, name).to(ud.Unit(ud.UnitsContainer(dict(si))), "Gaussian").magnitude
        if abs(Fraction(got) - want) > Fraction(1, 10 ** 9) * abs(want):
            problems.append(("correspondence", "1 %s corresponds to %.12g %s in the registry (%s); the standard correspondence "
                             "is %.12g" % (name, got, _si_text(si), "directly" if same_dim else "Gaussian context", float(want))))
        info["via"] = "direct" if same_dim else "Gaussian context"
    except Exception as ex:  # noqa: BLE001
        info["via"] = "not convertible (%s)" % type(ex).__name__
    return problems, info


def check_row(e, row):
    kind = row["kind"]
    if kind == "prefix":
        return check_prefix_row(e, row)
    if kind == "offset":
        return check_offset_row(e, row)
    if kind == "correspondence":
        return check_correspondence_row(e, row)
    return check_unit_row(e, row)


def row_known(e, row):
    if row["kind"] == "prefix":
        want, _ = e.ev.eval(row["value"])
        binary = want > 1 and want.denominator == 1 and want.numerator & (want.numerator - 1) == 0
        return e.known(e.uf, row["name"] + ("byte" if binary else "meter"))
    return e.known(e.uf, row["name"])


# =============================================================================== driver
def run(tier: str = "quick", seed: int = 0, **kw) -> dict:
    t0 = time.time()
    e = env()
    violations = []
    missing = []
    matched = {}
    evals = checked = 0
    by_kind = {}
    notes = {}
    for row in e.rows:
        if not row_known(e, row):
            missing.append(row["name"])
            continue
        checked += 1
        by_kind[row["kind"]] = by_kind.get(row["kind"], 0) + 1
        problems, info = check_row(e, row)
        nsym = len(row["symbol"]) if isinstance(row.get("symbol"), list) else 1
        evals += {"prefix": 3 + nsym, "offset": 3 * len(OFFSET_POINTS) + 1, "correspondence": 2}.get(
            row["kind"], 5 if "symbol" in row else 4)
        if "matched" in info:
            matched[row["name"]] = info["matched"]
        if row["kind"] == "correspondence":
            notes[row["name"]] = info
        for check, text in problems:
            violations.append({"case": "standards:%s:%s" % (row["name"], check), "what": text, "instances": 1,
                               "row": {k: row[k] for k in row if k != "note"},
                               "examples": [{"part": "row", "name": row["name"], "check": check}]})
    for fp in FIXED_POINTS:
        evals += 1
        p = check_fixed_point(e, fp)
        if p:
            violations.append({"case": "standards:fixed-point:%s" % fp[0].replace(" ", ""), "what": p, "instances": 1,
                               "examples": [{"part": "fixed", "label": fp[0]}]})
    merged = {}
    for v in violations:  # one entry per case id (a scale row fails at several points)
        if v["case"] in merged:
            merged[v["case"]]["instances"] += 1
        else:
            merged[v["case"]] = v
    violations = sorted(merged.values(), key=lambda v: v["case"])
    rows = e.rows
    sample_rows = [r for r in rows if r["name"] in ("pound", "planck_constant", "kibi", "torr", "electron_mass")]
    samples = []
    for r in sample_rows:
        if r["kind"] in ("prefix", "offset"):
            samples.append({"row": r})
        else:
            samples.append({"row": {k: r[k] for k in ("name", "kind", "value", "si_units", "source")},
                            "standard factor": fstr(e.ev.eval(r["value"])[0])})
    return {
        "name": NAME,
        "tier": tier,
        "seed": seed,
        "bound": "all %d rows of tables/standards.json (%d known to the default registry: %s; %d missing) + %d temperature "
                 "fixed points; each row: exact factor to SI and to root units in the Fraction registry, dimensionality, "
                 "symbol where standardised (%d rows), float registry within %d ulp"
                 % (len(rows), checked, ", ".join("%d %s" % (v, k) for k, v in sorted(by_kind.items())), len(missing),
                    len(FIXED_POINTS), sum(1 for r in rows if "symbol" in r), FLOAT_ULPS),
        "evaluations": evals,
        "distinct_nontrivial": checked + len(FIXED_POINTS),
        "rule": "one case per table row (each with its factor / root-factor / dimensionality / symbol / float checks); "
                "every row is non-trivial (an independent standard value); both tiers are identical",
        "exhaustive": True,
        "violations": violations[:25] if not kw.get("all_violations") else violations,
        "violation_count": len(violations),
        "rows": len(rows),
        "rows_checked": checked,
        "missing": missing,
        "rows_by_kind": by_kind,
        "rows_with_alternatives_matched": matched,
        "gaussian_correspondence": notes,
        "samples": samples[:5],
        "seconds": round(time.time() - t0, 1),
    }


def replay(data: dict) -> bool:
    e = env()
    ok = True
    for ex in data.get("examples", []):
        if ex.get("part") == "fixed":
            fp = [f for f in FIXED_POINTS if f[0] == ex["label"]][0]
            ok = check_fixed_point(e, fp) is None and ok
        elif ex.get("part") == "row":
            row = [r for r in e.rows if r["name"] == ex["name"]][0]
            if not row_known(e, row):
                continue
            problems, _ = check_row(e, row)
            ok = not [p for p in problems if p[0] == ex["check"]] and ok
        else:
            raise ValueError("unknown example %r" % (ex,))
    return ok


if __name__ == "__main__":
    import argparse

    ap = argparse.ArgumentParser()
    ap.add_argument("--tier", default="quick")
    ap.add_argument("--seed", type=int, default=0)
    a = ap.parse_args()
    print(json.dumps(run(a.tier, a.seed), indent=1, default=str, ensure_ascii=False))
