"""Bounded stand-in for C03 "Arithmetic results do not depend on the units used to express the operands".

Universe: a Fraction registry (`UnitRegistry(non_int_type=Fraction)`, exact) and, for the array in-place forms, a float
registry.  Seven dimension classes, each with several ways to write the same quantity:
    L lengths {meter, centimeter, inch, kilometer}, T times {second, millisecond, hour}, M masses {gram, kilogram, pound},
    V speeds written as compounds {meter/second, kilometer/hour, inch/millisecond}, D dimensionless {dimensionless,
    percent, radian, meter/centimeter}, A areas {meter**2, centimeter**2, inch**2, hectare}, F rates {1/second, hertz,
    1/hour, becquerel}  (thorough tier: more units per class, e.g. foot, mile, day, ounce, knot, mph, count, ppm, degree,
    acre, kilohertz, and extra seeded random values).
A catalogue quantity is (class, physical value in root units as an exact Fraction).  Every way to write it is built
directly as magnitude = value / factor(unit) (factor from standins.ref.Ref, i.e. from the definition table, not from
pint's conversion code); that `home.to(unit)` gives the same magnitude is checked on the side.

Oracle (independent of the code under test): the operators evaluated on (dimensionality, physical value) pairs in plain
Python rational arithmetic -- `expected()` below, written from the property statement:
    +,-      DimensionalityError unless same dimensionality; a bare number is accepted iff it is zero/NaN or the
             quantity is dimensionless;     *,/  values multiply/divide, dimensionalities add/subtract;
    //,%,divmod   on physical values (floor semantics of Python), DimensionalityError across dimensions;
    **       scalar or dimensionless-quantity exponent, value**e and dimensionality*e, e==0 -> dimensionless 1;
    <,<=,>,>=  DimensionalityError across dimensions;  ==/!= False/True across dimensions;
    reflected forms (2+q, 2-q, 2*q, 2/q, 2//q, 2%q, divmod(2,q), 2**q; and the __r*__ methods called with a quantity)
    and in-place forms (+=, -=, *=, /=, //=, %=, **=) have the value of the plain form.
Checks for every operator form and operand combination, over *every* choice of units for both operands:
    cov:  all unit choices give the same outcome (same dimensionality and physical value -- exactly, as Fractions, or
          within 1e-12 relative when Python itself produced a float, e.g. Fraction**Fraction(1,2), int**-1 -- or an
          exception of the same class);
    val:  that outcome is the oracle's;
    operand:  no operator form changes its operands (magnitude, type, units), and for in-place forms the other operand
          keeps its hash.
Further parts: float ndarray magnitudes through the real in-place code (`_iadd_sub`, `_imul_div`, `__ifloordiv__`,
`__imod__`, `__ipow__`; tolerance 1e-9), and seeded random expression trees of depth <= 3 evaluated under several unit
assignments against the oracle evaluated on physical values.

The value read-out of a result does not use pint's conversion either: dimensionality and factor of the result's units
come from Ref (root units such as radian/count carry factor 1, so dimensionless results in different root units compare
by value as the property's note on radian/count asks).
"""
from __future__ import annotations

import copy
import json
import math
import multiprocessing as mp
import numbers
import operator
import random
import time
from fractions import Fraction

NAME = "c03_arith"
NWORKERS = 16
RTOL = 1e-12
ARTOL = 1e-9
NAN = float("nan")


def _cpu_total():
    import resource

    a = resource.getrusage(resource.RUSAGE_SELF)
    b = resource.getrusage(resource.RUSAGE_CHILDREN)
    return a.ru_utime + a.ru_stime + b.ru_utime + b.ru_stime


# =============================================================================== universe
def U(*pairs):
    return tuple(pairs)


UNITS_QUICK = {
    "L": [U(("meter", 1)), U(("centimeter", 1)), U(("inch", 1)), U(("kilometer", 1))],
    "T": [U(("second", 1)), U(("millisecond", 1)), U(("hour", 1))],
    "M": [U(("gram", 1)), U(("kilogram", 1)), U(("pound", 1))],
    "V": [U(("meter", 1), ("second", -1)), U(("kilometer", 1), ("hour", -1)), U(("inch", 1), ("millisecond", -1))],
    "D": [U(), U(("percent", 1)), U(("radian", 1)), U(("meter", 1), ("centimeter", -1))],
    "A": [U(("meter", 2)), U(("centimeter", 2)), U(("inch", 2)), U(("hectare", 1))],
    "F": [U(("second", -1)), U(("hertz", 1)), U(("hour", -1)), U(("becquerel", 1))],
}
UNITS_EXTRA = {
    "L": [U(("foot", 1)), U(("mile", 1)), U(("millimeter", 1))],
    "T": [U(("minute", 1)), U(("day", 1)), U(("microsecond", 1))],
    "M": [U(("ounce", 1)), U(("metric_ton", 1)), U(("milligram", 1))],
    "V": [U(("knot", 1)), U(("mile_per_hour", 1)), U(("foot", 1), ("minute", -1))],
    "D": [U(("count", 1)), U(("ppm", 1)), U(("degree", 1))],
    "A": [U(("acre", 1)), U(("foot", 2)), U(("kilometer", 2))],
    "F": [U(("kilohertz", 1)), U(("minute", -1)), U(("count", 1), ("hour", -1))],
}
Fr = Fraction
VALUES_QUICK = {
    "L": [Fr(0), Fr(1), Fr(127, 50), Fr(-3, 2), Fr(1000), Fr(1, 3)],
    "T": [Fr(0), Fr(3600), Fr(1, 2), Fr(-90), Fr(7)],
    "M": [Fr(1000), Fr(45359237, 100000), Fr(-1), Fr(5, 2), Fr(0)],
    "V": [Fr(1), Fr(5, 18), Fr(10), Fr(-127, 5), Fr(0)],
    "D": [Fr(0), Fr(1), Fr(1, 2), Fr(2), Fr(-1), Fr(3), Fr(-1, 2), Fr(1, 100)],
    "A": [Fr(4), Fr(1, 4), Fr(16129, 25000000), Fr(10000), Fr(-9), Fr(0)],
    "F": [Fr(1), Fr(1, 3600), Fr(50), Fr(-2)],
}
CLASS_ORDER = ("L", "T", "M", "V", "D", "A", "F")
NUMS = (0, 2, -1, Fraction(3, 2), Fraction(0), NAN, 1)
EXPONENTS = (-2, -1, 0, 1, 2, 3, Fraction(1, 2), Fraction(-1, 2), Fraction(3, 2), Fraction(2), Fraction(0), Fraction(1))


def build_universe(tier, seed):
    units = {c: list(UNITS_QUICK[c]) for c in CLASS_ORDER}
    values = {c: list(VALUES_QUICK[c]) for c in CLASS_ORDER}
    if tier != "quick":
        rng = random.Random(seed * 7919 + 3)
        for c in CLASS_ORDER:
            units[c] += UNITS_EXTRA[c]
            n = 0
            while n < 4:
                v = Fraction(rng.randint(-60, 60), rng.choice((1, 1, 2, 3, 5, 7, 10, 12, 254)))
                if c == "D":
                    v = Fraction(rng.randint(-4, 4), rng.choice((1, 2, 3)))
                if v not in values[c]:
                    values[c].append(v)
                    n += 1
    cat = [(c, v) for c in CLASS_ORDER for v in values[c]]
    return units, cat


# =============================================================================== registries / reference
_R = {}


def regs():
    if not _R:
        import pint
        from standins.ref import Ref

        _R["frac"] = pint.UnitRegistry(non_int_type=Fraction)
        _R["float"] = pint.UnitRegistry()
        _R["ref"] = Ref(_R["frac"])
        _R["ucache"] = {}
        _R["f1"] = {}
    return _R


def _f1(name):
    c = regs()["f1"]
    if name not in c:
        c[name] = regs()["ref"].factor({name: 1})
    return c[name]


def unit_info(units):
    """(dimensionality as a sorted tuple, factor to root units) of a mapping unit->exponent; the factor is an exact
    Fraction when every exponent is integral, else a float"""
    key = tuple(sorted((k, Fraction(v)) for k, v in dict(units).items()))
    c = regs()["ucache"]
    if key not in c:
        d = regs()["ref"].dim(dict(key))
        dimk = tuple(sorted((k, Fraction(v)) for k, v in d.items()))
        fac = Fraction(1)
        for k, e in key:
            f = _f1(k)
            if e.denominator == 1:
                fac = fac * f ** int(e)
            else:
                fac = float(fac) * float(f) ** float(e)
        c[key] = (dimk, fac)
    return c[key]


def class_dim(units, c):
    return unit_info(units[c][0])[0]


# =============================================================================== normal forms
def is_nan(x):
    return isinstance(x, float) and x != x


def is_exact(x):
    return isinstance(x, (int, Fraction)) and not isinstance(x, bool)


def same_val(x, y, rtol=RTOL):
    if is_exact(x) and is_exact(y):
        return x == y
    if is_nan(x) or is_nan(y):
        return is_nan(x) and is_nan(y)
    try:
        cx, cy = complex(x), complex(y)
    except Exception:  # noqa: BLE001
        return False
    if cx == cy:
        return True
    if any(math.isinf(t) or math.isnan(t) for t in (cx.real, cx.imag, cy.real, cy.imag)):
        return False
    return abs(cx - cy) <= rtol * max(abs(cx), abs(cy))


def same_nf(a, b, rtol=RTOL):
    if a[0] != b[0]:
        return False
    if a[0] == "q":
        return a[1] == b[1] and same_val(a[2], b[2], rtol)
    if a[0] == "b":
        return a[1] == b[1]
    if a[0] == "x":
        return a[1] == b[1] or "*" in (a[1], b[1])
    if a[0] == "t":
        return len(a) == len(b) and all(same_nf(x, y, rtol) for x, y in zip(a[1:], b[1:]))
    if a[0] == "arr":
        return a[1] == b[1] and len(a[2]) == len(b[2]) and all(same_val(x, y, rtol) for x, y in zip(a[2], b[2]))
    raise AssertionError(a)


def nf_of(r):
    """normal form of something pint returned"""
    import numpy as np

    if isinstance(r, (bool, np.bool_)):
        return ("b", bool(r))
    if isinstance(r, tuple):
        return ("t",) + tuple(nf_of(x) for x in r)
    if hasattr(r, "_units") and hasattr(r, "_magnitude"):
        dimk, fac = unit_info(r._units)
        m = r._magnitude
        if isinstance(m, np.ndarray):
            return ("arr", dimk, tuple(float(x) * float(fac) for x in m.tolist()))
        return ("q", dimk, m * fac)
    if r is NotImplemented:
        return ("x", "NotImplemented-returned")
    if isinstance(r, numbers.Number):
        return ("q", (), r)
    raise TypeError("unexpected result %r" % (r,))


def run_op(fn, *args):
    try:
        r = fn(*args)
    except Exception as e:  # noqa: BLE001 - the class of the exception is the observation
        return ("x", type(e).__name__)
    return nf_of(r)


def show_val(x):
    if isinstance(x, Fraction):
        return "%d/%d" % (x.numerator, x.denominator) if x.denominator != 1 else str(x.numerator)
    return repr(x)


def show_nf(n):
    if n[0] == "q":
        return "%s [%s]" % (show_val(n[2]), "*".join("%s^%s" % (k, show_val(v)) for k, v in n[1]) or "1")
    if n[0] == "arr":
        return "%s [%s]" % (list(n[2]), "*".join("%s^%s" % (k, show_val(v)) for k, v in n[1]) or "1")
    if n[0] == "b":
        return str(n[1])
    if n[0] == "x":
        return "raises " + n[1]
    return "(" + ", ".join(show_nf(x) for x in n[1:]) + ")"


# =============================================================================== the oracle (physical values only)
class Expected(Exception):
    pass


def _dimerr():
    raise Expected("DimensionalityError")


def Qn(dim, phys):
    return ("q", dim, phys)


def dim_mul(d, e):
    e = Fraction(e)
    return tuple((k, v * e) for k, v in d if v * e != 0)


def dim_add(d1, d2, sign):
    acc = dict(d1)
    for k, v in d2:
        acc[k] = acc.get(k, Fraction(0)) + sign * v
    return tuple(sorted((k, v) for k, v in acc.items() if v != 0))


def zero_or_nan(x):
    return x == 0 or is_nan(x)


def o_addsub(A, B, op):
    if A[0] == "q" and B[0] == "q":
        if A[1] != B[1]:
            _dimerr()
        return Qn(A[1], op(A[2], B[2]))
    q, n = (A, B) if A[0] == "q" else (B, A)
    x, y = (A[2], B[1]) if A[0] == "q" else (A[1], B[2])
    if zero_or_nan(n[1]):
        return Qn(q[1], op(x, y))
    if q[1] == ():
        return Qn((), op(x, y))
    _dimerr()


def _tdiv(x, y):
    """true division as the property means it in rational arithmetic: int/int is a Fraction, not a float"""
    if is_exact(x) and is_exact(y):
        return Fraction(x) / y
    return x / y


def o_muldiv(A, B, op, sign):
    if A[0] == "q" and B[0] == "q":
        return Qn(dim_add(A[1], B[1], sign), op(A[2], B[2]))
    if A[0] == "q":
        return Qn(A[1], op(A[2], B[1]))
    return Qn(B[1] if sign == 1 else dim_mul(B[1], -1), op(A[1], B[2]))


def _pair_values(A, B):
    """values of the operands of //, %, divmod (a bare number counts as a dimensionless quantity)"""
    da = A[1] if A[0] == "q" else ()
    db = B[1] if B[0] == "q" else ()
    if da != db:
        _dimerr()
    return da, (A[2] if A[0] == "q" else A[1]), (B[2] if B[0] == "q" else B[1])


def o_floordiv(A, B):
    d, x, y = _pair_values(A, B)
    return Qn((), x // y)


def o_mod(A, B):
    d, x, y = _pair_values(A, B)
    return Qn(d, x % y)


def o_divmod(A, B):
    d, x, y = _pair_values(A, B)
    q, r = divmod(x, y)
    return ("t", Qn((), q), Qn(d, r))


def o_pow(A, B):
    if A[0] == "n":  # number ** quantity -> a bare number
        if B[1] != ():
            _dimerr()
        if is_nan(A[1]) or is_nan(B[2]):
            return None
        return Qn((), A[1] ** B[2])
    if B[0] == "q":
        if B[1] != ():
            _dimerr()
        e = B[2]
    else:
        e = B[1]
    if is_nan(e):
        return None
    if e == 1:
        return A
    if e == 0:
        return Qn((), 1)
    return Qn(dim_mul(A[1], e), A[2] ** e)


def o_cmp(A, B, op):
    if A[0] == "q" and B[0] == "q":
        if A[1] != B[1]:
            _dimerr()
        return ("b", bool(op(A[2], B[2])))
    q, n = (A, B) if A[0] == "q" else (B, A)
    if q[1] == () or zero_or_nan(n[1]):
        x, y = (A[2], B[1]) if A[0] == "q" else (A[1], B[2])
        return ("b", bool(op(x, y)))
    raise Expected("*")  # undefined: must raise (class not fixed by the statement)


def o_eq(A, B, negate):
    if A[0] == "q" and B[0] == "q":
        r = A[1] == B[1] and A[2] == B[2]
    else:
        q, n = (A, B) if A[0] == "q" else (B, A)
        r = (q[1] == () or zero_or_nan(n[1])) and q[2] == n[1]
    return ("b", bool(r) != negate)


ORACLE = {
    "add": lambda A, B: o_addsub(A, B, operator.add),
    "sub": lambda A, B: o_addsub(A, B, operator.sub),
    "mul": lambda A, B: o_muldiv(A, B, operator.mul, 1),
    "truediv": lambda A, B: o_muldiv(A, B, _tdiv, -1),
    "floordiv": o_floordiv,
    "mod": o_mod,
    "divmod": o_divmod,
    "pow": o_pow,
    "lt": lambda A, B: o_cmp(A, B, operator.lt),
    "le": lambda A, B: o_cmp(A, B, operator.le),
    "gt": lambda A, B: o_cmp(A, B, operator.gt),
    "ge": lambda A, B: o_cmp(A, B, operator.ge),
    "eq": lambda A, B: o_eq(A, B, False),
    "ne": lambda A, B: o_eq(A, B, True),
    "neg": lambda A: Qn(A[1], -A[2]),
    "pos": lambda A: Qn(A[1], +A[2]),
    "abs": lambda A: Qn(A[1], abs(A[2])),
}


def expected(opname, *operands):
    """-> normal form, or None when the statement fixes nothing (NaN exponent)"""
    try:
        return ORACLE[opname](*operands)
    except Expected as e:
        return ("x", e.args[0])
    except ZeroDivisionError:
        return ("x", "ZeroDivisionError")
    except OverflowError:
        return None


# =============================================================================== operator forms on pint objects
def _inplace(iop):
    def f(a, b):
        t = copy.copy(a)
        return iop(t, b)

    return f


def _idivmod_absent(a, b):
    raise AssertionError


# name -> (base operator for the oracle, callable on (a, b), swap operands for the oracle?)
FORMS = {
    "add": ("add", operator.add, False),
    "sub": ("sub", operator.sub, False),
    "mul": ("mul", operator.mul, False),
    "truediv": ("truediv", operator.truediv, False),
    "floordiv": ("floordiv", operator.floordiv, False),
    "mod": ("mod", operator.mod, False),
    "divmod": ("divmod", divmod, False),
    "pow": ("pow", operator.pow, False),
    "lt": ("lt", operator.lt, False),
    "le": ("le", operator.le, False),
    "gt": ("gt", operator.gt, False),
    "ge": ("ge", operator.ge, False),
    "eq": ("eq", operator.eq, False),
    "ne": ("ne", operator.ne, False),
    # in-place statements
    "iadd": ("add", _inplace(operator.iadd), False),
    "isub": ("sub", _inplace(operator.isub), False),
    "imul": ("mul", _inplace(operator.imul), False),
    "itruediv": ("truediv", _inplace(operator.itruediv), False),
    "ifloordiv": ("floordiv", _inplace(operator.ifloordiv), False),
    "imod": ("mod", _inplace(operator.imod), False),
    "ipow": ("pow", _inplace(operator.ipow), False),
    # reflected methods called directly: b.__rop__(a) must be `a op b`
    "m_radd": ("add", lambda a, b: b.__radd__(a), False),
    "m_rsub": ("sub", lambda a, b: b.__rsub__(a), False),
    "m_rmul": ("mul", lambda a, b: b.__rmul__(a), False),
    "m_rfloordiv": ("floordiv", lambda a, b: b.__rfloordiv__(a), False),
    "m_rmod": ("mod", lambda a, b: b.__rmod__(a), False),
    "m_rdivmod": ("divmod", lambda a, b: b.__rdivmod__(a), False),
}
# forms with the bare number on the left: callable gets (q, n) and evaluates `n op q`
RFORMS = {
    "radd": ("add", lambda q, n: n + q),
    "rsub": ("sub", lambda q, n: n - q),
    "rmul": ("mul", lambda q, n: n * q),
    "rtruediv": ("truediv", lambda q, n: n / q),
    "rfloordiv": ("floordiv", lambda q, n: n // q),
    "rmod": ("mod", lambda q, n: n % q),
    "rdivmod": ("divmod", lambda q, n: divmod(n, q)),
    "rpow": ("pow", lambda q, n: n ** q),
    "rlt": ("lt", lambda q, n: n < q),
    "rge": ("ge", lambda q, n: n >= q),
    "req": ("eq", lambda q, n: n == q),
    "rne": ("ne", lambda q, n: n != q),
}
PAIR_FORMS = tuple(FORMS)
NUM_FORMS = tuple(k for k in FORMS if not k.startswith("m_"))
INPLACE = frozenset(k for k in FORMS if k.startswith("i"))
UNARY = {"neg": operator.neg, "pos": operator.pos, "abs": abs}


# =============================================================================== quantities
def magnitude_for(value, units, flavour):
    """magnitude that writes the physical `value` in `units`; ints are used for integral magnitudes on every other
    flavour so that both the int and the Fraction code paths are exercised"""
    fac = unit_info(units)[1]
    m = value / fac
    if m.denominator == 1 and flavour % 2 == 0:
        return int(m)
    return m


def make(m, units, reg="frac"):
    ureg = regs()[reg]
    return ureg.Quantity(m, ureg.UnitsContainer(dict(units)))


def enc(x):
    if isinstance(x, Fraction):
        return ["F", x.numerator, x.denominator]
    if isinstance(x, bool):
        raise TypeError
    if isinstance(x, int):
        return ["i", x]
    return ["f", repr(x)]


def dec(e):
    if e[0] == "F":
        return Fraction(e[1], e[2])
    if e[0] == "i":
        return int(e[1])
    return float(e[1])


def uid(units):
    return "*".join(k if v == 1 else "%s^%s" % (k, v) for k, v in units) or "dimensionless"


def qid(c, v):
    return "%s=%s" % (c, show_val(v))


def nid(n):
    return "num=" + (show_val(n) if not is_nan(n) else "nan") + ("F" if isinstance(n, Fraction) else "")


def snapshot(q):
    return (q._magnitude, type(q._magnitude), dict(q._units))


def unchanged(q, snap):
    m = q._magnitude
    same_m = (m == snap[0]) or (is_nan(m) and is_nan(snap[0]))
    return bool(same_m) and type(m) is snap[1] and dict(q._units) == snap[2]


# =============================================================================== collector
class Collector:
    def __init__(self):
        self.entries = {}

    def add(self, case, what, example):
        e = self.entries.get(case)
        if e is None:
            e = self.entries[case] = {"case": case, "what": what, "instances": 0, "examples": []}
        e["instances"] += 1
        if len(e["examples"]) < 2:
            e["examples"].append(example)

    def merge(self, entries):
        for case, o in entries.items():
            e = self.entries.get(case)
            if e is None:
                self.entries[case] = {"case": case, "what": o["what"], "instances": o["instances"],
                                      "examples": list(o["examples"][:2])}
            else:
                e["instances"] += o["instances"]
                for ex in o["examples"]:
                    if len(e["examples"]) < 2:
                        e["examples"].append(ex)


# =============================================================================== part 1: pairs of quantities
def check_pair(units, qa, qb, col, stats, forms=PAIR_FORMS):
    (ca, va), (cb, vb) = qa, qb
    A = Qn(class_dim(units, ca), va)
    B = Qn(class_dim(units, cb), vb)
    exp = {f: expected(FORMS[f][0], A, B) for f in forms}
    first = {}
    for f in forms:
        stats["cases"] += 1
        if exp[f] is not None and exp[f][0] != "x":
            stats["nontrivial"] += 1
    for ia, ua in enumerate(units[ca]):
        for ib, ub in enumerate(units[cb]):
            ma = magnitude_for(va, ua, ia + ib)
            mb = magnitude_for(vb, ub, ia)
            a, b = make(ma, ua), make(mb, ub)
            sa, sb = snapshot(a), snapshot(b)
            for f in forms:
                ex = {"part": "pair", "form": f, "a": [ca, enc(va), [list(u) for u in ua], enc(ma)],
                      "b": [cb, enc(vb), [list(u) for u in ub], enc(mb)]}
                hb = None
                if f in INPLACE:
                    hb = hash(b)
                got = run_op(FORMS[f][1], a, b)
                stats["evals"] += 1
                ident = "%s:%s:%s" % (f, qid(ca, va), qid(cb, vb))
                if FORMS[f][0] == "pow" and vb == 0 and B[1] != ():
                    # one id per class of exponent: `q ** (zero with units)` (see module doc / report)
                    ident = "%s:dimensional-zero-exponent:%s" % (f, cb)
                here = "(%s %s) %s (%s %s)" % (show_val(ma), uid(ua), f, show_val(mb), uid(ub))
                if f not in first:
                    first[f] = (got, here)
                elif not same_nf(got, first[f][0]):
                    col.add("cov:" + ident, "result depends on the operand units: %s -> %s, but %s -> %s"
                            % (first[f][1], show_nf(first[f][0]), here, show_nf(got)), ex)
                if exp[f] is not None and not same_nf(got, exp[f]) and "dimensional-zero-exponent" not in ident:
                    col.add("val:" + ident, "%s -> %s, expected %s" % (here, show_nf(got), show_nf(exp[f])), ex)
                if not unchanged(a, sa) or not unchanged(b, sb):
                    col.add("operand:" + ident, "%s changed an operand: now %r %s and %r %s"
                            % (here, a._magnitude, dict(a._units), b._magnitude, dict(b._units)), ex)
                    a, b = make(ma, ua), make(mb, ub)
                elif hb is not None and hash(b) != hb:
                    col.add("operand-hash:" + ident, "%s changed the hash of the right operand" % here, ex)


# =============================================================================== part 2: quantity with a bare number
def check_num(units, qa, n, col, stats):
    ca, va = qa
    A = Qn(class_dim(units, ca), va)
    N = ("n", n)
    forms = [(f, FORMS[f][0], FORMS[f][1], False) for f in NUM_FORMS] + \
            [(f, RFORMS[f][0], RFORMS[f][1], True) for f in RFORMS]
    exp = {}
    for f, base, _, swapped in forms:
        exp[f] = expected(base, N, A) if swapped else expected(base, A, N)
        stats["cases"] += 1
        if exp[f] is not None and exp[f][0] != "x":
            stats["nontrivial"] += 1
    first = {}
    for ia, ua in enumerate(units[ca]):
        ma = magnitude_for(va, ua, ia)
        a = make(ma, ua)
        sa = snapshot(a)
        for f, base, fn, swapped in forms:
            if exp[f] is None:
                continue
            ex = {"part": "num", "form": f, "a": [ca, enc(va), [list(u) for u in ua], enc(ma)], "n": enc(n)}
            got = run_op(fn, a, n)
            stats["evals"] += 1
            ident = "%s:%s:%s" % (f, qid(ca, va), nid(n))
            here = "(%s %s) %s %s" % (show_val(ma), uid(ua), f, show_val(n))
            if f not in first:
                first[f] = (got, here)
            elif not same_nf(got, first[f][0]):
                col.add("cov:" + ident, "result depends on the operand units: %s -> %s, but %s -> %s"
                        % (first[f][1], show_nf(first[f][0]), here, show_nf(got)), ex)
            if not same_nf(got, exp[f]):
                col.add("val:" + ident, "%s -> %s, expected %s" % (here, show_nf(got), show_nf(exp[f])), ex)
            if not unchanged(a, sa):
                col.add("operand:" + ident, "%s changed its operand: now %r %s" % (here, a._magnitude, dict(a._units)),
                        ex)
                a = make(ma, ua)


# =============================================================================== part 3: unary forms and scalar powers
def check_unary(units, qa, col, stats):
    ca, va = qa
    A = Qn(class_dim(units, ca), va)
    forms = [(f, expected(f, A), fn) for f, fn in UNARY.items()]
    for e in EXPONENTS:
        tag = "pow(%s%s)" % (show_val(e), "F" if isinstance(e, Fraction) else "")
        forms.append((tag, expected("pow", A, ("n", e)), (lambda q, e=e: q ** e)))
        forms.append(("i" + tag, expected("pow", A, ("n", e)), (lambda q, e=e: operator.ipow(copy.copy(q), e))))
    first = {}
    for f, exp, _ in forms:
        stats["cases"] += 1
        stats["nontrivial"] += exp is not None and exp[0] != "x"
    for ia, ua in enumerate(units[ca]):
        for flavour in (0, 1):
            ma = magnitude_for(va, ua, flavour)
            if flavour == 1 and isinstance(magnitude_for(va, ua, 0), Fraction):
                continue  # same object as flavour 0
            a = make(ma, ua)
            sa = snapshot(a)
            for f, exp, fn in forms:
                if exp is None:
                    continue
                ex = {"part": "unary", "form": f, "a": [ca, enc(va), [list(u) for u in ua], enc(ma)]}
                got = run_op(fn, a)
                stats["evals"] += 1
                ident = "%s:%s" % (f, qid(ca, va))
                here = "%s(%s %s)" % (f, show_val(ma), uid(ua))
                if f not in first:
                    first[f] = (got, here)
                elif not same_nf(got, first[f][0]):
                    col.add("cov:" + ident, "result depends on the operand units: %s -> %s, but %s -> %s"
                            % (first[f][1], show_nf(first[f][0]), here, show_nf(got)), ex)
                if not same_nf(got, exp):
                    col.add("val:" + ident, "%s -> %s, expected %s" % (here, show_nf(got), show_nf(exp)), ex)
                if not unchanged(a, sa):
                    col.add("operand:" + ident, "%s changed its operand" % here, ex)
                    a = make(ma, ua)


def check_to(units, qa, col, stats):
    """side check: writing the catalogue quantity in another unit through pint's own `.to` gives the magnitude the
    reference factor gives (the arithmetic checks do not depend on it)"""
    ca, va = qa
    home = units[ca][0]
    h = make(magnitude_for(va, home, 1), home)
    ureg = regs()["frac"]
    for ua in units[ca][1:]:
        stats["evals"] += 1
        want = magnitude_for(va, ua, 1)
        try:
            got = h.to(ureg.UnitsContainer(dict(ua)))._magnitude
            bad = got != want
            txt = show_val(got) if not bad or is_exact(got) else repr(got)
        except Exception as e:  # noqa: BLE001
            bad, txt = True, "raised " + type(e).__name__
        if bad:
            col.add("to:%s:%s" % (qid(ca, va), uid(ua)), "(%s %s).to(%s) -> %s, reference %s"
                    % (show_val(h._magnitude), uid(home), uid(ua), txt, show_val(want)),
                    {"part": "to", "a": [ca, enc(va), [list(u) for u in ua]]})


# =============================================================================== part 4: float arrays, real in-place code
ARRAY_FORMS = ("iadd", "isub", "imul", "itruediv", "ifloordiv", "imod", "add", "sub", "mul", "truediv", "floordiv", "mod")


def _arr_values(v):
    return (v, 2 * v + Fraction(3, 8))


def _risky_quotient(xs, ys):
    """float floor/mod results are unit dependent within rounding when a quotient is (almost) an integer"""
    for x, y in zip(xs, ys):
        if y == 0:
            return True
        q = x / y
        if abs(q - round(q)) < Fraction(1, 10 ** 6) * max(1, abs(q)):
            return True
    return False


def make_arr(vals, units):
    import numpy as np

    fac = unit_info(units)[1]
    ureg = regs()["float"]
    return ureg.Quantity(np.array([float(v / fac) for v in vals], dtype=float), ureg.UnitsContainer(dict(units)))


def same_arr(got, exp, atols):
    if got[0] != "arr" or exp[0] != "arr":
        return same_nf(got, exp, ARTOL)
    if got[1] != exp[1] or len(got[2]) != len(exp[2]):
        return False
    for g, e, t in zip(got[2], exp[2], atols):
        if same_val(g, e, ARTOL):
            continue
        if is_nan(g) or is_nan(e) or math.isinf(g) or math.isinf(e) or abs(g - e) > t:
            return False
    return True


def _atols(base, xs, ys):
    """sums and remainders of floats carry the absolute error of their operands"""
    if base in ("add", "sub", "mod"):
        return tuple(ARTOL * float(max(abs(x), abs(y))) if not (is_nan(x) or is_nan(y)) else 0.0
                     for x, y in zip(xs, ys))
    return tuple(0.0 for _ in xs)


def _arr_expected(base, dima, xs, dimb, ys):
    out = []
    dim = None
    for x, y in zip(xs, ys):
        e = expected(base, Qn(dima, x), Qn(dimb, y) if dimb is not None else ("n", y))
        if e is None:
            return None
        if e[0] == "x":
            return e
        dim = e[1]
        out.append(e[2])
    return ("arr", dim, tuple(float(v) for v in out))


def check_array_pair(units, qa, qb, variants, col, stats):
    import numpy as np

    (ca, va), (cb, vb) = qa, qb
    dima, dimb = class_dim(units, ca), class_dim(units, cb)
    xs, ys = _arr_values(va), _arr_values(vb)
    for f in ARRAY_FORMS:
        base = FORMS[f][0]
        if base in ("truediv", "floordiv", "mod") and any(y == 0 for y in ys):
            continue  # numpy: warnings and inf/nan instead of exceptions
        if base in ("floordiv", "mod") and dima == dimb and _risky_quotient(xs, ys):
            continue
        exp = _arr_expected(base, dima, xs, dimb, ys)
        stats["cases"] += 1
        stats["nontrivial"] += exp[0] != "x"
        for ua, ub in variants:
            a, b = make_arr(xs, ua), make_arr(ys, ub)
            b0 = (b._magnitude.copy(), dict(b._units))
            a0 = (a._magnitude.copy(), dict(a._units))
            ex = {"part": "array", "form": f, "a": [ca, enc(va), [list(u) for u in ua]],
                  "b": [cb, enc(vb), [list(u) for u in ub]]}
            ident = "array:%s:%s:%s" % (f, qid(ca, va), qid(cb, vb))
            here = "(%s %s) %s (%s %s)" % (a._magnitude.tolist(), uid(ua), f, b._magnitude.tolist(), uid(ub))
            inpl = f in INPLACE
            try:
                with np.errstate(all="ignore"):
                    if inpl:
                        r = getattr(operator, f)(a, b)
                    else:
                        r = FORMS[f][1](a, b)
                got = nf_of(r)
            except Exception as e:  # noqa: BLE001
                r, got = None, ("x", type(e).__name__)
            stats["evals"] += 1
            if not same_arr(got, exp, _atols(base, xs, ys)):
                col.add("val:" + ident, "%s -> %s, expected %s" % (here, show_nf(got), show_nf(exp)), ex)
            if not (np.array_equal(b._magnitude, b0[0]) and dict(b._units) == b0[1]):
                col.add("operand:" + ident, "%s changed the right operand: now %s %s"
                        % (here, b._magnitude.tolist(), dict(b._units)), ex)
            if inpl:
                if r is not None and r is not a:
                    col.add("target:" + ident, "%s: the array in-place form did not return its target" % here, ex)
            elif not (np.array_equal(a._magnitude, a0[0]) and dict(a._units) == a0[1]):
                col.add("operand:" + ident, "%s changed the left operand" % here, ex)


def check_array_num(units, qa, n, col, stats):
    import numpy as np

    ca, va = qa
    dima = class_dim(units, ca)
    xs = _arr_values(va)
    for f in ("iadd", "isub", "imul", "itruediv", "ifloordiv", "imod", "ipow"):
        base = FORMS[f][0]
        if base in ("truediv", "floordiv", "mod") and (n == 0 or is_nan(n)):
            continue
        if base == "pow" and (is_nan(n) or isinstance(n, Fraction) and n.denominator != 1 or n < 0
                              and any(x == 0 for x in xs)):
            continue
        if base in ("floordiv", "mod") and dima == () and _risky_quotient(xs, (n, n)):
            continue
        exp = _arr_expected(base, dima, xs, None, (n, n))
        if exp is None:
            continue
        stats["cases"] += 1
        stats["nontrivial"] += exp[0] != "x"
        for ua in units[ca]:
            a = make_arr(xs, ua)
            ex = {"part": "arraynum", "form": f, "a": [ca, enc(va), [list(u) for u in ua]], "n": enc(n)}
            ident = "array:%s:%s:%s" % (f, qid(ca, va), nid(n))
            here = "(%s %s) %s %s" % (a._magnitude.tolist(), uid(ua), f, show_val(n))
            nn = float(n) if isinstance(n, Fraction) else n
            try:
                with np.errstate(all="ignore"):
                    r = getattr(operator, f)(a, nn)
                got = nf_of(r)
            except Exception as e:  # noqa: BLE001
                r, got = None, ("x", type(e).__name__)
            stats["evals"] += 1
            if not same_arr(got, exp, _atols(base, xs, (n, n))):
                col.add("val:" + ident, "%s -> %s, expected %s" % (here, show_nf(got), show_nf(exp)), ex)
            if r is not None and r is not a:
                col.add("target:" + ident, "%s: the array in-place form did not return its target" % here, ex)


# =============================================================================== part 5: random expression trees
TREE_BIN = ("add", "sub", "mul", "truediv", "floordiv", "mod", "add", "sub", "mul", "truediv")
TREE_ROOT_EXTRA = ("lt", "ge", "eq", "ne", "divmod")


def _stop(o):
    """oracle outcomes under which a tree is not grown further: an exception (the tree collapses to the failing
    subtree), nothing fixed, or a float (later floors of floats would be unit dependent within rounding)"""
    return o is None or o[0] == "x" or (o[0] == "q" and not is_exact(o[2]))


def gen_tree(rng, cat, by_dim, units, depth):
    """-> (tree, oracle normal form); tree = ('leaf', idx) | ('num', n) | ('un', op, t) | ('powi', t, e) | ('bin', op, l, r)"""
    if depth == 0 or rng.random() < 0.25:
        if rng.random() < 0.1:
            n = rng.choice((0, 2, -1, Fraction(3, 2)))
            return ("num", n), ("n", n)
        i = rng.randrange(len(cat))
        c, v = cat[i]
        return ("leaf", i), Qn(class_dim(units, c), v)
    r = rng.random()
    if r < 0.1:
        t, o = gen_tree(rng, cat, by_dim, units, depth - 1)
        op = rng.choice(("neg", "abs"))
        if _stop(o) or o[0] != "q":
            return t, o
        return ("un", op, t), expected(op, o)
    if r < 0.2:
        t, o = gen_tree(rng, cat, by_dim, units, depth - 1)
        e = rng.choice((-1, 2, 0, 3, -2))
        if _stop(o) or o[0] != "q":
            return t, o
        return ("powi", t, e), expected("pow", o, ("n", e))
    op = rng.choice(TREE_BIN)
    lt, lo = gen_tree(rng, cat, by_dim, units, depth - 1)
    if _stop(lo):
        return lt, lo
    if op == "truediv" and lo[0] == "n":
        op = "mul"  # int / int-magnitude would be a float in pint (no cast in __rtruediv__)
    if op in ("add", "sub", "floordiv", "mod") and lo[0] == "q" and lo[1] in by_dim and rng.random() < 0.8:
        i = rng.choice(by_dim[lo[1]])
        rt, ro = ("leaf", i), Qn(lo[1], cat[i][1])
    else:
        rt, ro = gen_tree(rng, cat, by_dim, units, depth - 1)
    if _stop(ro):
        return rt, ro
    if lo[0] == "n" and ro[0] == "n":
        return lt, lo
    return ("bin", op, lt, rt), expected(op, lo, ro)


def tree_leaves(t, out):
    if t[0] == "leaf":
        out.append(t[1])
    elif t[0] == "un":
        tree_leaves(t[2], out)
    elif t[0] == "powi":
        tree_leaves(t[1], out)
    elif t[0] == "bin":
        tree_leaves(t[2], out)
        tree_leaves(t[3], out)
    return out


def eval_tree(t, leafq):
    """evaluate on pint objects; leafq is an iterator of the leaf quantities in tree_leaves order"""
    if t[0] == "leaf":
        return next(leafq)
    if t[0] == "num":
        return t[1]
    if t[0] == "un":
        return UNARY[t[1]](eval_tree(t[2], leafq))
    if t[0] == "powi":
        return eval_tree(t[1], leafq) ** t[2]
    a = eval_tree(t[2], leafq)
    b = eval_tree(t[3], leafq)
    return FORMS[t[1]][1](a, b)


def tree_text(t, cat):
    if t[0] == "leaf":
        return qid(*cat[t[1]])
    if t[0] == "num":
        return show_val(t[1])
    if t[0] == "un":
        return "%s(%s)" % (t[1], tree_text(t[2], cat))
    if t[0] == "powi":
        return "(%s)**%d" % (tree_text(t[1], cat), t[2])
    return "(%s %s %s)" % (tree_text(t[2], cat), t[1], tree_text(t[3], cat))


def tree_enc(t):
    if t[0] == "num":
        return ["num", enc(t[1])]
    if t[0] == "leaf":
        return ["leaf", t[1]]
    if t[0] == "un":
        return ["un", t[1], tree_enc(t[2])]
    if t[0] == "powi":
        return ["powi", tree_enc(t[1]), t[2]]
    return ["bin", t[1], tree_enc(t[2]), tree_enc(t[3])]


def tree_dec(e):
    if e[0] == "num":
        return ("num", dec(e[1]))
    if e[0] == "leaf":
        return ("leaf", e[1])
    if e[0] == "un":
        return ("un", e[1], tree_dec(e[2]))
    if e[0] == "powi":
        return ("powi", tree_dec(e[1]), e[2])
    return ("bin", e[1], tree_dec(e[2]), tree_dec(e[3]))


def check_tree(units, cat, tree, exp, assignments, col, stats, tree_no):
    leaves = tree_leaves(tree, [])
    first = None
    ident = "tree:%d:%s" % (tree_no, tree_text(tree, cat))
    for asg in assignments:
        qs = []
        for j, i in enumerate(leaves):
            c, v = cat[i]
            ua = units[c][asg[j] % len(units[c])]
            qs.append(make(magnitude_for(v, ua, 1), ua))  # Fractions: see _stop
        written = ", ".join("%s %s" % (show_val(q._magnitude), uid(tuple(q._units.items()))) for q in qs)
        got = run_op(lambda: eval_tree(tree, iter(qs)))
        stats["evals"] += 1
        ex = {"part": "tree", "tree": tree_enc(tree), "cat": [[c, enc(v)] for c, v in (cat[i] for i in leaves)],
              "assignment": list(asg), "tier_units": len(units["L"])}
        if first is None:
            first = (got, written)
        elif not same_nf(got, first[0]):
            col.add("cov:" + ident, "result depends on the leaf units: [%s] -> %s, but [%s] -> %s"
                    % (first[1], show_nf(first[0]), written, show_nf(got)), ex)
        if exp is not None and not same_nf(got, exp):
            col.add("val:" + ident, "leaves [%s] -> %s, expected %s" % (written, show_nf(got), show_nf(exp)), ex)


def make_trees(seed, n, units, cat):
    rng = random.Random(seed * 104729 + 17)
    by_dim = {}
    for i, (c, v) in enumerate(cat):
        by_dim.setdefault(class_dim(units, c), []).append(i)
    out = []
    guard = 0
    while len(out) < n:
        guard += 1
        if guard > 60 * n:
            raise RuntimeError("tree generation does not converge")
        t, o = gen_tree(rng, cat, by_dim, units, 3)
        if t[0] != "bin" and t[0] != "powi":
            continue
        if o is None or (o[0] == "q" and not is_exact(o[2])):
            continue
        if o[0] == "q" and rng.random() < 0.15 and t[0] == "bin":
            # a comparison / divmod at the root against a catalogue quantity of the same dimensionality
            if o[1] in by_dim:
                i = rng.choice(by_dim[o[1]])
                op = rng.choice(TREE_ROOT_EXTRA)
                o2 = expected(op, o, Qn(o[1], cat[i][1]))
                if o2 is None:
                    continue
                t, o = ("bin", op, t, ("leaf", i)), o2
        if o[0] == "x" and rng.random() > 0.12:
            continue
        nleaves = len(tree_leaves(t, []))
        if nleaves < 2:
            continue
        asg = [tuple(rng.randrange(7 * 2) for _ in range(nleaves))]
        out.append((t, o, asg))
    return out


# =============================================================================== workers
_CTX = {}


def _worker(task):
    kind = task[0]
    units, cat = _CTX["units"], _CTX["cat"]
    col = Collector()
    stats = {"evals": 0, "cases": 0, "nontrivial": 0}
    if kind == "pairs":
        for ia, ib in task[1]:
            check_pair(units, cat[ia], cat[ib], col, stats)
    elif kind == "nums":
        for ia in task[1]:
            for n in NUMS:
                check_num(units, cat[ia], n, col, stats)
            check_unary(units, cat[ia], col, stats)
            check_to(units, cat[ia], col, stats)
    elif kind == "arrays":
        for ia, ib, variants in task[1]:
            check_array_pair(units, cat[ia], cat[ib], variants, col, stats)
    elif kind == "arraynums":
        for ia in task[1]:
            for n in (0, 2, 3, Fraction(3, 2), NAN, -1):
                check_array_num(units, cat[ia], n, col, stats)
    elif kind == "trees":
        for no, (t, o, asgs) in task[1]:
            check_tree(units, cat, t, o, asgs, col, stats, no)
            stats["cases"] += 1
            stats["nontrivial"] += o is not None and o[0] != "x"
    return kind, stats, col.entries


def chunks(seq, n):
    seq = list(seq)
    return [seq[i:i + n] for i in range(0, len(seq), n)]


def run(tier: str = "quick", seed: int = 0, **kw) -> dict:
    t0 = time.time()
    cpu0 = _cpu_total()
    workers = int(kw.get("workers", NWORKERS))
    quick = tier == "quick"
    regs()
    units, cat = build_universe(tier, seed)
    _CTX["units"], _CTX["cat"] = units, cat
    n = len(cat)
    rng = random.Random(seed)
    tasks = []
    pairs = [(a, b) for a in range(n) for b in range(n)]
    # most expensive pairs (many unit variants) first
    pairs.sort(key=lambda p: -len(units[cat[p[0]][0]]) * len(units[cat[p[1]][0]]))
    for ch in chunks(pairs, 24 if quick else 40):
        tasks.append(("pairs", ch))
    for ch in chunks(range(n), 3):
        tasks.append(("nums", ch))
    # arrays: every ordered pair, home units + 2 seeded variants (thorough: 5)
    arr = []
    nvar = 2 if quick else 5
    for a, b in pairs:
        ua_all, ub_all = units[cat[a][0]], units[cat[b][0]]
        variants = [(ua_all[0], ub_all[0])]
        for _ in range(nvar):
            variants.append((ua_all[rng.randrange(len(ua_all))], ub_all[rng.randrange(len(ub_all))]))
        arr.append((a, b, variants))
    for ch in chunks(arr, 60):
        tasks.append(("arrays", ch))
    for ch in chunks(range(n), 8):
        tasks.append(("arraynums", ch))
    ntrees = int(kw.get("trees", 4000 if quick else 60000))
    nasg = 3 if quick else 6
    trees = make_trees(seed, ntrees, units, cat)
    trng = random.Random(seed * 31 + 5)
    numbered = []
    for no, (t, o, asg) in enumerate(trees):
        k = len(asg[0])
        asgs = [tuple(0 for _ in range(k))] + [tuple(trng.randrange(7 * 2) for _ in range(k)) for _ in range(nasg)]
        numbered.append((no, (t, o, asgs)))
    for ch in chunks(numbered, 250):
        tasks.append(("trees", ch))
    ctx = mp.get_context("fork")
    if workers > 1:
        with ctx.Pool(workers, maxtasksperchild=1) as pool:
            results = pool.map(_worker, tasks, chunksize=1)
    else:
        results = [_worker(tk) for tk in tasks]
    col = Collector()
    evals = cases = nontrivial = 0
    by_part = {}
    for kind, st, entries in results:
        evals += st["evals"]
        cases += st["cases"]
        nontrivial += st["nontrivial"]
        by_part[kind] = by_part.get(kind, 0) + st["evals"]
        col.merge(entries)
    entries = sorted(col.entries.values(), key=lambda e: e["case"])
    buckets = {}
    for e in entries:
        parts = e["case"].split(":")
        buckets.setdefault(":".join(parts[:2]), []).append(e)
    chosen, i = [], 0
    while len(chosen) < 25 and any(i < len(b) for b in buckets.values()):
        for k in sorted(buckets):
            if i < len(buckets[k]) and len(chosen) < 25:
                chosen.append(buckets[k][i])
        i += 1
    chosen.sort(key=lambda e: e["case"])

    def sample(f, a, b):
        qa = make(*a)
        qb = make(*b) if isinstance(b, tuple) else b
        return {"expression": "(%s %s) %s %s" % (show_val(a[0]), uid(a[1]), f,
                                                  "(%s %s)" % (show_val(b[0]), uid(b[1])) if isinstance(b, tuple)
                                                  else show_val(b)),
                "outcome": show_nf(run_op(FORMS[f][1] if f in FORMS else RFORMS[f][1], qa, qb))}

    samples = [
        sample("add", (Fraction(127, 50), U(("meter", 1))), (100, U(("inch", 1)))),
        sample("floordiv", (Fraction(1, 2), U(("kilometer", 1))), (3, U(("centimeter", 1)))),
        sample("mod", (50, U(("percent", 1))), (Fraction(1, 3), U(("radian", 1)))),
        sample("pow", (4, U(("hectare", 1))), (50, U(("percent", 1)))),
        sample("rsub", (5, U(("meter", 1), ("centimeter", -1))), 2),
    ]
    nu = {c: len(units[c]) for c in CLASS_ORDER}
    bound = (
        "Fraction registry; catalogue of %d quantities (physical values) in 7 dimension classes written in %s units; "
        "(1) all %d ordered pairs x %d operator forms (+ - * / // %% divmod ** < <= > >= == !=, 7 in-place statements, "
        "6 reflected methods) x every combination of operand units (%d unit-variant pairs); (2) every quantity x every "
        "unit x %d bare numbers (0, 2, -1, 3/2, Fraction(0), nan, 1) x %d forms (plain, in-place, number-on-the-left); "
        "(3) neg/pos/abs and ** / **= with %d scalar exponents (ints and Fractions incl. 0, 1, 1/2) x every unit x "
        "int/Fraction magnitude; (4) float ndarray magnitudes: all ordered pairs x %d forms (6 in-place through "
        "_iadd_sub/_imul_div/__ifloordiv__/__imod__) x %d unit variants and quantity x 6 numbers x 7 in-place forms; "
        "(5) %d seeded random expression trees (depth <= 3, <= 8 leaves) x %d unit assignments"
        % (n, "/".join("%s:%d" % (c, nu[c]) for c in CLASS_ORDER), len(pairs), len(PAIR_FORMS),
           sum(nu[cat[a][0]] * nu[cat[b][0]] for a, b in pairs), len(NUMS), len(NUM_FORMS) + len(RFORMS),
           len(EXPONENTS), len(ARRAY_FORMS), nvar + 1, ntrees, nasg + 1))
    return {
        "name": NAME,
        "tier": tier,
        "seed": seed,
        "bound": bound,
        "evaluations": evals,
        "evaluations_by_part": by_part,
        "distinct_cases": cases,
        "distinct_nontrivial": nontrivial,
        "rule": "a case is (operator form, catalogue operand(s)) -- enumerated as the full product catalogue x "
                "catalogue x forms (parts 1-4) or drawn by random.Random(seed) (extra values of the thorough tier, "
                "array unit variants, trees); every case is executed under all (parts 1-3) or several (parts 4-5) ways "
                "of writing its operands; non-trivial: the oracle outcome is a value or a boolean, not an exception",
        "exhaustive": False,
        "exhaustive_scope": "parts 1-3 enumerate the stated product (catalogue x catalogue x forms x all unit "
                            "combinations) completely; parts 4-5 are seeded samples of unit assignments / trees as "
                            "stated in `bound`, hence the flag is False for the module as a whole",
        "violations": chosen,
        "violation_count": len(entries),
        "violation_cases": [e["case"] for e in entries][:1000],
        "violating_evaluations": sum(e["instances"] for e in entries),
        "violation_classes": {k: len(b) for k, b in sorted(buckets.items())},
        "samples": samples,
        "seconds": round(time.time() - t0, 1),
        "cpu_seconds": round(_cpu_total() - cpu0, 1),
    }


# =============================================================================== replay
def _replay_example(ex):
    regs()
    col = Collector()
    stats = {"evals": 0, "cases": 0, "nontrivial": 0}
    part = ex["part"]

    def one_unit(e):
        return {e[0]: [tuple(tuple(u) for u in e[2])]}

    if part == "pair":
        a, b = ex["a"], ex["b"]
        ua, ub = tuple(tuple(u) for u in a[2]), tuple(tuple(u) for u in b[2])
        # the home unit of each class first (reference variant), then the recorded one
        units = {c: list(UNITS_QUICK[c]) + list(UNITS_EXTRA[c]) for c in CLASS_ORDER}
        units = {c: [units[c][0]] + ([u] if u != units[c][0] else []) for c, u in ((a[0], ua), (b[0], ub))} | \
                {c: units[c][:1] for c in CLASS_ORDER if c not in (a[0], b[0])}
        if a[0] == b[0]:
            both = [units[a[0]][0]] + [u for u in (ua, ub) if u != units[a[0]][0]]
            units[a[0]] = list(dict.fromkeys(both))
        check_pair(units, (a[0], dec(a[1])), (b[0], dec(b[1])), col, stats, forms=(ex["form"],))
    elif part in ("num", "unary", "to"):
        a = ex["a"]
        ua = tuple(tuple(u) for u in a[2])
        units = {c: list(UNITS_QUICK[c][:1]) for c in CLASS_ORDER}
        if ua != units[a[0]][0]:
            units[a[0]].append(ua)
        if part == "num":
            check_num(units, (a[0], dec(a[1])), dec(ex["n"]), col, stats)
        elif part == "unary":
            check_unary(units, (a[0], dec(a[1])), col, stats)
        else:
            check_to(units, (a[0], dec(a[1])), col, stats)
        col.entries = {k: v for k, v in col.entries.items() if part == "to" or k.split(":")[1] == ex["form"]}
    elif part == "array":
        a, b = ex["a"], ex["b"]
        ua, ub = tuple(tuple(u) for u in a[2]), tuple(tuple(u) for u in b[2])
        units = {c: list(UNITS_QUICK[c][:1]) for c in CLASS_ORDER}
        check_array_pair(units, (a[0], dec(a[1])), (b[0], dec(b[1])), [(ua, ub)], col, stats)
        col.entries = {k: v for k, v in col.entries.items() if k.split(":")[2] == ex["form"]}
    elif part == "arraynum":
        a = ex["a"]
        units = {c: list(UNITS_QUICK[c][:1]) for c in CLASS_ORDER}
        units[a[0]] = [tuple(tuple(u) for u in a[2])]
        check_array_num(units, (a[0], dec(a[1])), dec(ex["n"]), col, stats)
        col.entries = {k: v for k, v in col.entries.items() if k.split(":")[2] == ex["form"]}
    elif part == "tree":
        units = {c: list(UNITS_QUICK[c]) for c in CLASS_ORDER}
        if ex["tier_units"] > len(UNITS_QUICK["L"]):
            for c in CLASS_ORDER:
                units[c] += UNITS_EXTRA[c]
        tree = tree_dec(ex["tree"])
        # rebuild a private catalogue holding just this tree's leaves, renumbering them in leaf order
        cat = [(c, dec(v)) for c, v in ex["cat"]]
        counter = iter(range(len(cat)))

        def renumber(t):
            if t[0] == "leaf":
                return ("leaf", next(counter))
            if t[0] == "un":
                return ("un", t[1], renumber(t[2]))
            if t[0] == "powi":
                return ("powi", renumber(t[1]), t[2])
            if t[0] == "bin":
                left = renumber(t[2])
                return ("bin", t[1], left, renumber(t[3]))
            return t

        tree = renumber(tree)

        def oracle(t):
            if t[0] == "leaf":
                c, v = cat[t[1]]
                return Qn(class_dim(units, c), v)
            if t[0] == "num":
                return ("n", t[1])
            if t[0] == "un":
                o = oracle(t[2])
                return o if o is None or o[0] == "x" else expected(t[1], o)
            if t[0] == "powi":
                o = oracle(t[1])
                return o if o is None or o[0] == "x" else expected("pow", o, ("n", t[2]))
            lo = oracle(t[2])
            if lo is None or lo[0] == "x":
                return lo
            ro = oracle(t[3])
            if ro is None or ro[0] == "x":
                return ro
            return expected(t[1], lo, ro)

        k = len(cat)
        check_tree(units, cat, tree, oracle(tree), [tuple(0 for _ in range(k)), tuple(ex["assignment"])], col, stats, 0)
    else:
        raise ValueError(part)
    return not col.entries


def replay(data: dict) -> bool:
    ok = True
    for ex in data.get("examples", []):
        ok = _replay_example(ex) and ok
    return ok


if __name__ == "__main__":
    import argparse

    ap = argparse.ArgumentParser()
    ap.add_argument("--tier", default="quick")
    ap.add_argument("--seed", type=int, default=0)
    ap.add_argument("--workers", type=int, default=NWORKERS)
    a = ap.parse_args()
    print(json.dumps(run(a.tier, a.seed, workers=a.workers), indent=1, default=str))
