"""Bounded stand-in (C03): the dimension rules of + - and ordering do not depend on active contexts.

"Adding, subtracting or ordering quantities of different dimensionality always raises DimensionalityError":
with a context active that links the two dimensions (so that `to()` between them succeeds), the operators
must still refuse.  All bundled contexts x rule endpoints x operator forms."""
from __future__ import annotations

import json
import operator

NAME = "c03_context"
FORMS = {
    "add": lambda a, b: a + b, "sub": lambda a, b: a - b, "radd": lambda a, b: b + a, "rsub": lambda a, b: b - a,
    "iadd": lambda a, b: operator.iadd(a, b), "isub": lambda a, b: operator.isub(a, b),
    "lt": lambda a, b: a < b, "le": lambda a, b: a <= b, "gt": lambda a, b: a > b, "ge": lambda a, b: a >= b,
}
# (context, kwargs, unit of one dimension, unit of the linked dimension)
PAIRS = [("sp", {}, "nanometer", "terahertz"), ("sp", {}, "nanometer", "electron_volt"), ("sp", {}, "1/centimeter", "hertz"),
         ("boltzmann", {}, "kelvin", "joule"), ("energy", {}, "joule", "kilogram"),
         ("chemistry", {"mw": "18 g/mol"}, "gram", "mole"), ("Gaussian", {}, "coulomb", "franklin")]


def _one(ureg, ctx, kw, ua, ub, form):
    import pint

    a, b = ureg.Quantity(500.0, ua), ureg.Quantity(600.0, ub)
    kwargs = {k: ureg.Quantity(v) if isinstance(v, str) else v for k, v in kw.items()}
    with ureg.context(ctx, **kwargs):
        try:
            linked = True
            a.to(ub)
        except Exception:  # noqa: BLE001
            linked = False
        try:
            r = FORMS[form](a, b)
        except pint.DimensionalityError:
            return linked, None
        except Exception as e:  # noqa: BLE001
            return linked, f"raised {type(e).__name__} instead of DimensionalityError"
        return linked, f"returned {r!r}"


def run(tier="quick", seed=0, **kw):
    import pint

    ureg = pint.UnitRegistry()
    evals, nontrivial, viols, samples = 0, 0, [], []
    for ctx, ckw, ua, ub in PAIRS:
        if ctx not in ureg._contexts:
            continue
        for form in FORMS:
            evals += 1
            linked, msg = _one(ureg, ctx, ckw, ua, ub, form)
            nontrivial += bool(linked)
            if msg:
                viols.append({"case": f"ctx-op:{ctx}:{form}:{ua}:{ub}", "what": f"inside `with ureg.context({ctx!r})`: "
                              f"(500 {ua}) {form} (600 {ub}) {msg}; quantities of different dimensionality must raise "
                              "DimensionalityError whatever contexts are active",
                              "ctx": ctx, "kw": ckw, "ua": ua, "ub": ub, "form": form})
            if len(samples) < 4:
                samples.append({"context": ctx, "form": form, "units": [ua, ub], "linked_by_context": linked})
    return {"name": NAME, "bound": f"{len(PAIRS)} (context, dimension pair) x {len(FORMS)} operator forms, exhaustive",
            "evaluations": evals, "distinct_nontrivial": nontrivial,
            "rule": "non-trivial = the active context really links the two dimensions (to() succeeds)",
            "exhaustive": True, "violations": viols[:25], "violation_count": len(viols), "samples": samples}


def replay(data):
    import pint

    _, msg = _one(pint.UnitRegistry(), data["ctx"], data["kw"], data["ua"], data["ub"], data["form"])
    return msg is None


if __name__ == "__main__":
    print(json.dumps(run(), indent=1, default=str))
