"""Bounded stand-in (C15): each in-place rewriting form leaves the object equal to what the functional form returns --
also while contexts that redefine units are (or have been) active, for every order of warming the registry's memos.

Only the in-place == functional clause is judged here (the value clause under contexts belongs to C11/C13, where the
stale base-unit memo is a recorded finding)."""
from __future__ import annotations

import itertools
import json

NAME = "c15_context"
PAIRS = [("to_root_units", "ito_root_units"), ("to_base_units", "ito_base_units"), ("to_reduced_units", "ito_reduced_units")]
REDEFS = [("foot = 0.5 meter", "foot"), ("inch = 0.03 meter", "inch"), ("pound = 0.5 kilogram", "pound")]
UNITS = {"foot": ["foot", "foot**2", "foot/second", "yard", "mile/hour", "foot*pound"],
         "inch": ["inch", "inch**3", "foot*inch", "inch/minute"],
         "pound": ["pound", "pound*foot/second**2", "pound/inch**2", "ounce"]}
SYSTEMS = ["mks", "cgs", "imperial"]
# a history is a sequence of steps executed before the comparison; "W" warms both forms on the operand's units,
# "E"/"X" enter / leave the redefining context
HISTORIES = ["", "W", "E", "WE", "EW", "EWX", "WEX", "WEWX", "EXW", "WEXE"]


def _same(a, b):
    return type(a) is type(b) and a.units == b.units and (a.magnitude == b.magnitude or
                                                           abs(a.magnitude - b.magnitude) <= 1e-12 * max(abs(a.magnitude), abs(b.magnitude)))


def _group(args):
    """One fresh registry per (redefinition, unit, system, history); the three pairs are compared in it one after another."""
    import pint

    redef, unit, system, hist, pairs = args
    ureg = pint.UnitRegistry(system=system)
    ctx = pint.Context("c15ctx")
    ctx.redefine(redef)
    ureg.add_context(ctx)
    active = False
    out = []
    try:
        for step in hist:
            if step == "W":
                for fn, ifn in pairs:
                    getattr(ureg.Quantity(3.0, unit), fn)()
                    getattr(ureg.Quantity(3.0, unit), ifn)()
            elif step == "E" and not active:
                ureg.enable_contexts("c15ctx")
                active = True
            elif step == "X" and active:
                ureg.disable_contexts(1)
                active = False
        for fn, ifn in pairs:
            functional = getattr(ureg.Quantity(2.0, unit), fn)()
            q = ureg.Quantity(2.0, unit)
            getattr(q, ifn)()
            out.append((fn, ifn, None if _same(functional, q) else f"{fn}() -> {functional!r} but {ifn}() leaves {q!r}"))
        return args, out
    finally:
        if active:
            ureg.disable_contexts(1)


def run(tier="quick", seed=0, **kw):
    import multiprocessing as mp

    evals, viols, seen, samples = 0, [], {}, []
    systems = SYSTEMS if tier == "thorough" else SYSTEMS[:1] + SYSTEMS[2:]
    jobs = [(redef, unit, system, hist, PAIRS) for (redef, key), system, hist in itertools.product(REDEFS, systems, HISTORIES)
            for unit in UNITS[key]]
    with mp.get_context("fork").Pool(min(16, mp.cpu_count())) as pool:
        results = pool.map(_group, jobs, chunksize=4)
    for (redef, unit, system, hist, _), out in results:
        for fn, ifn, msg in out:
            evals += 1
            if msg:
                case = f"inplace-vs-functional:{ifn}:{'ctx-active' if hist.count('E') > hist.count('X') else 'ctx-left'}"
                if case in seen:
                    seen[case]["count"] += 1
                    continue
                v = {"case": case, "count": 1, "what": f"context redefining `{redef}`, system {system}, history {hist or '-'} "
                     f"(W = warm both forms, E/X = enter/leave the context), 2.0 {unit}: {msg}",
                     "redef": redef, "unit": unit, "system": system, "hist": hist, "fn": fn, "ifn": ifn}
                seen[case] = v
                viols.append(v)
            elif len(samples) < 4 and evals % 211 == 0:
                samples.append({"redefinition": redef, "unit": unit, "system": system, "history": hist, "pair": [fn, ifn]})
    return {"name": NAME, "bound": f"{len(REDEFS)} redefining contexts x {len(systems)} systems x {len(HISTORIES)} warm/enter/leave histories x "
            f"{len(PAIRS)} functional/in-place pairs x 4-6 units each, exhaustive",
            "evaluations": evals, "distinct_nontrivial": evals,
            "rule": "every case compares a fresh operand rewritten functionally and in place in the same registry state",
            "exhaustive": True, "violations": viols[:25], "violation_count": sum(v["count"] for v in viols), "samples": samples}


def replay(data):
    _, out = _group((data["redef"], data["unit"], data["system"], data["hist"], [(data["fn"], data["ifn"])]))
    return out[0][2] is None


if __name__ == "__main__":
    import sys

    print(json.dumps(run(sys.argv[sys.argv.index("--tier") + 1] if "--tier" in sys.argv else "quick"), indent=1, default=str))
