"""Bounded stand-in for C12 -- "Context activation is scoped, stack-like, atomic and leaves no residue".

Part 1 (breadth-first exploration).  ALL sequences of length <= 4 (quick) / <= 5 (thorough) over the 16
operations of `OPS` (enable by name / alias / object with and without kwargs, two kinds of failing
activation, a multi-context activation whose second member fails, disable(1|2|all), with-enter (three
variants, one failing), with-exit, exception leaving a with-block, probe) are run on a real registry
holding a pool of 4 contexts:

    c12A  rules           [length] -> [time]: value * xp s/m                     (xp = 2, equation string)
    c12B  rules + redef   [length] -> [time]: value*10*xq s/m ; [time] -> [mass]: value*xq kg/s (python
                          functions, xq = 7) ; pound = 0.5 kilogram
    c12R  redefinition    yard = 1 meter      (foot, inch, mile, kilofoot depend on it)
    c12F  failing         inch = 1 meter (valid) ; meter = 2 foot (invalid: base unit) -> activation raises

and compared, after the last operation of every sequence, with a REFERENCE STACK MODEL written here
(`Model`): the active contexts are exactly the stack the operations imply, a failed activation changes
nothing, parameters are call kwargs > innermost enclosing context > declared defaults.  Observables:
11 probe conversions (some only valid inside a context, some changed by the redefinitions), 4
get_root_units / get_base_units answers, get_compatible_units of 2 units.  Then every open with-block
is closed, everything is disabled, and all answers must equal the initial answers.  Every prefix of a
sequence is itself one of the enumerated sequences, so this is a check after every step; a sequence is
extended only if it showed no violation (model and system have diverged after one).

Part 2: Context objects shared by two registries / re-entered with other parameters are never modified
by activation (defaults, funcs keys and function identities, redefinitions compared before/after),
over all interleavings of enter/exit in two registries x parameter choices.
"""
from __future__ import annotations

import itertools
import json
import multiprocessing as mp
import sys
import time

NAME = "c12_context_stack"
RTOL = 1e-9
MAXV = 25

YARD = 0.9144
POUND = 0.45359237

# ------------------------------------------------------------------------------------------------------
# operations
# ------------------------------------------------------------------------------------------------------
# (short name, kind, context refs, kwargs, fails)
#   refs are (pool key, how) with how in name / alias / object
OPS = [
    ("eA", "enable", [("A", "name")], {}, False),
    ("eA3", "enable", [("A", "object")], {"xp": 3.0}, False),
    ("eB", "enable", [("B", "alias")], {}, False),
    ("eR", "enable", [("R", "name")], {}, False),
    ("eF", "enable", [("F", "name")], {}, True),
    ("eX", "enable", [("X", "name")], {}, True),
    ("eAF", "enable", [("A", "name"), ("F", "object")], {}, True),
    ("d1", "disable", 1, None, False),
    ("d2", "disable", 2, None, False),
    ("dall", "disable", None, None, False),
    ("wR", "with", [("R", "alias")], {}, False),
    ("wB5", "with", [("B", "name")], {"xq": 5.0}, False),
    ("wF", "with", [("F", "name")], {}, True),
    ("wx", "exit", None, None, False),
    ("wr", "raise", None, None, False),
    ("p", "probe", None, None, False),
]
NOPS = len(OPS)
OPNAMES = [o[0] for o in OPS]
DECLARED = {"A": {"xp": 2.0}, "B": {"xq": 7.0}, "R": {}, "F": {}}
NAMES = {"A": ("c12A", "c12a"), "B": ("c12B", "c12b"), "R": ("c12R", "c12r"), "F": ("c12F", "c12f"), "X": ("c12nosuch", "c12nosuch")}


class Boom(Exception):
    """The exception that leaves a with-block in operation `wr`."""


def _decode(code, length):
    return tuple((code >> (4 * i)) & 15 for i in range(length))


def _encode(seq):
    c = 0
    for i, o in enumerate(seq):
        c |= o << (4 * i)
    return c


def _seqname(seq):
    return "-".join(OPNAMES[o] for o in seq)


# ------------------------------------------------------------------------------------------------------
# reference model
# ------------------------------------------------------------------------------------------------------
class Model:
    def __init__(self):
        self.stack = []  # oldest first: (pool key, effective parameters)
        self.frames = []  # open with-blocks: number of contexts each one entered
        self.maxdepth = 0

    def apply(self, op):
        """-> False if the operation is not applicable (exit/raise without an open with-block)."""
        _, kind, arg, kw, fails = op
        if kind in ("enable", "with"):
            if fails:
                return True  # a failed activation changes nothing
            enclosing = dict(self.stack[-1][1]) if self.stack else {}
            for (key, _how) in arg:
                eff = dict(DECLARED[key])
                eff.update(enclosing)
                eff.update(kw)
                self.stack.append((key, eff))
            if kind == "with":
                self.frames.append(len(arg))
        elif kind == "disable":
            self._pop(arg)
        elif kind in ("exit", "raise"):
            if not self.frames:
                return False
            self._pop(self.frames.pop())
        self.maxdepth = max(self.maxdepth, len(self.stack))
        return True

    def _pop(self, n):
        if n is None:
            del self.stack[:]
        elif n > 0:
            del self.stack[-n:]

    def teardown(self):
        while self.frames:
            self._pop(self.frames.pop())
        del self.stack[:]

    def key(self):
        return tuple((k, tuple(sorted(e.items()))) for k, e in self.stack)

    # ---- expected answers -------------------------------------------------------------------------
    def active(self, key):
        return any(k == key for k, _ in self.stack)

    def lt_rule(self):
        """multiplier (s per m) of the [length]->[time] rule in force: most recently enabled wins."""
        for k, eff in reversed(self.stack):
            if k == "A":
                return eff["xp"]
            if k == "B":
                return 10.0 * eff["xq"]
        return None

    def tm_rule(self):
        for k, eff in reversed(self.stack):
            if k == "B":
                return eff["xq"]
        return None

    def reachable(self, start):
        g = {"L": set(), "T": set(), "M": set()}
        if self.lt_rule() is not None:
            g["L"].add("T")
        if self.tm_rule() is not None:
            g["T"].add("M")
        seen = {start}
        todo = [start]
        while todo:
            for y in g[todo.pop()]:
                if y not in seen:
                    seen.add(y)
                    todo.append(y)
        return seen

    def answers(self):
        """name -> ('ok', number) | ('dimerr',) | ('units', factor, {unit: exponent})"""
        yard = 1.0 if self.active("R") else YARD
        pound = 0.5 if self.active("B") else POUND
        lt, tm = self.lt_rule(), self.tm_rule()
        a = {}
        a["3 foot->meter"] = ("ok", 3 * yard / 3)
        a["2 inch->meter"] = ("ok", 2 * yard / 36)
        a["1 mile->kilometer"] = ("ok", 1760 * yard / 1000)
        a["1 kilofoot->meter"] = ("ok", 1000 * yard / 3)
        a["4 pound->kilogram"] = ("ok", 4 * pound)
        a["7 kilometer->meter"] = ("ok", 7000.0)
        a["5 meter->second"] = ("ok", 5 * lt) if lt is not None else ("dimerr",)
        a["2 second->gram"] = ("ok", 2 * tm * 1000) if tm is not None else ("dimerr",)
        a["1 yard->pound"] = ("ok", yard * lt * tm / pound) if (lt is not None and tm is not None) else ("dimerr",)
        a["5 second->meter"] = ("dimerr",)
        a["1 kilogram->meter"] = ("dimerr",)
        a["root foot"] = ("units", yard / 3, {"meter": 1})
        a["root mile/hour"] = ("units", 1760 * yard / 3600, {"meter": 1, "second": -1})
        a["root pound"] = ("units", pound * 1000, {"gram": 1})
        a["base mile"] = ("units", 1760 * yard, {"meter": 1})
        return a


PROBES = [
    ("3 foot->meter", 3.0, "foot", "meter"),
    ("2 inch->meter", 2.0, "inch", "meter"),
    ("1 mile->kilometer", 1.0, "mile", "kilometer"),
    ("1 kilofoot->meter", 1.0, "kilofoot", "meter"),
    ("4 pound->kilogram", 4.0, "pound", "kilogram"),
    ("7 kilometer->meter", 7.0, "kilometer", "meter"),
    ("5 meter->second", 5.0, "meter", "second"),
    ("2 second->gram", 2.0, "second", "gram"),
    ("1 yard->pound", 1.0, "yard", "pound"),
    ("5 second->meter", 5.0, "second", "meter"),
    ("1 kilogram->meter", 1.0, "kilogram", "meter"),
]
UNITQ = [("root foot", "root", "foot"), ("root mile/hour", "root", "mile/hour"), ("root pound", "root", "pound"), ("base mile", "base", "mile")]
COMPAT = [("compat meter", "meter", "L"), ("compat second", "second", "T")]


# ------------------------------------------------------------------------------------------------------
# the real system
# ------------------------------------------------------------------------------------------------------
def _make_pool():
    from pint import Context

    A = Context.from_lines(["@context(xp=2) c12A = c12a", "[length] -> [time]: value * xp * second / meter"])
    B = Context("c12B", aliases=("c12b",), defaults={"xq": 7.0})

    def lt(ureg, value, **kw):
        return ureg.Quantity(value.to("meter").magnitude * 10.0 * kw["xq"], "second")

    def tm(ureg, value, **kw):
        return ureg.Quantity(value.to("second").magnitude * kw["xq"], "kilogram")

    B.add_transformation("[length]", "[time]", lt)
    B.add_transformation("[time]", "[mass]", tm)
    B.redefine("pound = 0.5 kilogram")
    R = Context("c12R", aliases=("c12r",))
    R.redefine("yard = 1 meter")
    F = Context("c12F", aliases=("c12f",))
    F.redefine("inch = 1 meter")
    F.redefine("meter = 2 foot")
    return {"A": A, "B": B, "R": R, "F": F}


def _fresh_registry():
    """A new default registry with a new pool (measured: ~0.2 s here; copy.deepcopy of a pristine registry is
    ~0.1 s but WeakValueDictionary.__deepcopy__ keeps pointing at the ORIGINAL Context objects, so the copy
    is not equivalent to a fresh registry and is not used)."""
    import pint

    u = pint.UnitRegistry()
    pool = _make_pool()
    for c in pool.values():
        u.add_context(c)
    return u, pool


class System:
    def __init__(self, warm=True):
        self.u, self.pool = _fresh_registry()
        self.frames = []
        self.rebuilds = 0
        # a "fresh" system has answered the whole battery once with no context active, so that every
        # sequence starts from the same cache state (cold registries are the subject of part 1b)
        self.warm = self.observe() if warm else None

    def ref(self, key, how):
        if how == "object":
            return self.pool[key]
        return NAMES[key][0 if how == "name" else 1]

    def apply(self, op):
        """-> None if the operation completed, else the exception it raised."""
        _, kind, arg, kw, fails = op
        u = self.u
        try:
            if kind == "enable":
                u.enable_contexts(*[self.ref(k, h) for k, h in arg], **kw)
            elif kind == "disable":
                u.disable_contexts(arg)
            elif kind == "with":
                cm = u.context(*[self.ref(k, h) for k, h in arg], **kw)
                cm.__enter__()  # what the with statement does; raises if the activation fails
                self.frames.append(cm)
            elif kind == "exit":
                cm = self.frames.pop()
                cm.__exit__(None, None, None)
            elif kind == "raise":
                cm = self.frames.pop()
                try:
                    raise Boom("inside with-block")
                except Boom as exc:
                    swallowed = cm.__exit__(Boom, exc, exc.__traceback__)
                if swallowed:
                    return RuntimeError("the with-block swallowed the exception")
            elif kind == "probe":
                self.observe()
        except Exception as exc:  # compared with the model by the caller
            return exc
        return None

    def teardown(self):
        """Close every open with-block (innermost first), disable everything.  -> first exception or None."""
        first = None
        while self.frames:
            cm = self.frames.pop()
            try:
                cm.__exit__(None, None, None)
            except Exception as exc:
                first = first or exc
        try:
            self.u.disable_contexts()
        except Exception as exc:
            first = first or exc
        return first

    def observe(self):
        import pint

        u = self.u
        out = {}
        for (name, v, s, d) in PROBES:
            try:
                out[name] = ("ok", float(u.Quantity(v, s).to(d).magnitude))
            except pint.DimensionalityError:
                out[name] = ("dimerr",)
            except Exception as exc:
                out[name] = ("err", type(exc).__name__ + ": " + str(exc)[:80])
        for (name, which, unit) in UNITQ:
            try:
                f, un = (u.get_root_units if which == "root" else u.get_base_units)(unit)
                out[name] = ("units", float(f), {k: float(e) for k, e in un._units.items()})
            except Exception as exc:
                out[name] = ("err", type(exc).__name__ + ": " + str(exc)[:80])
        for (name, unit, _node) in COMPAT:
            try:
                out[name] = frozenset(k for x in u.get_compatible_units(unit) for k in x._units)
            except Exception as exc:
                out[name] = ("err", type(exc).__name__ + ": " + str(exc)[:80])
        return out


def _close(a, b):
    return a == b or abs(a - b) <= RTOL * max(abs(a), abs(b))


def _same(obs, exp):
    if obs[0] != exp[0]:
        return False
    if exp[0] == "ok":
        return _close(obs[1], exp[1])
    if exp[0] == "units":
        return _close(obs[1], exp[1]) and obs[2] == {k: float(v) for k, v in exp[2].items()}
    return True


GROUP = {"base mile": "base-units"}


def _compare(obs, model, base_compat, memo):
    """-> {group: [(question, observed, expected), ...]} for the disagreements.  Groups: 'stack' (conversions
    and root units: they show which contexts are in force), 'base-units' (get_base_units), 'compat'."""
    bad = {}
    exp = model.answers()
    for q, e in exp.items():
        if not _same(obs[q], e):
            bad.setdefault(GROUP.get(q, "stack"), []).append((q, obs[q], e))
    if "stack" in bad:
        return bad  # the active stack is not the reference stack: the other observers say nothing more
    skey = model.key()
    for (q, unit, node) in COMPAT:
        o = obs[q]
        if not isinstance(o, frozenset):
            bad.setdefault("compat", []).append((q, o, "a set of units"))
            continue
        lo = base_compat[node]
        hi = frozenset().union(*[base_compat[n] for n in model.reachable(node)])
        if not (lo <= o <= hi):
            bad.setdefault("compat", []).append((q, sorted(o ^ lo)[:6], "between the plain answer and the union over the dimensions reachable by active rules"))
            continue
        prev = memo.setdefault((skey, q), o)
        if prev != o:
            bad.setdefault("compat", []).append((q, sorted(o ^ prev)[:6], "same answer as earlier for the same active stack"))
    return bad


def _fmt(bad):
    return "; ".join(f"{q}: observed {o!r}, expected {e!r}" for q, o, e in bad[:4])[:600]


# ------------------------------------------------------------------------------------------------------
# running one sequence
# ------------------------------------------------------------------------------------------------------
_STATE = {}


def _system():
    if "sys" not in _STATE:
        s = System()
        init = s.warm
        m = Model()
        exp = m.answers()
        for q, e in exp.items():
            if not _same(init[q], e):
                raise RuntimeError(f"harness: initial answer {q} = {init[q]!r}, reference says {e!r}")
        _STATE["sys"] = s
        _STATE["init"] = init
        # plain (no context) compatible-unit sets per dimension node, taken once from the pristine registry
        _STATE["base_compat"] = {node: frozenset(k for x in s.u.get_compatible_units(unit) for k in x._units)
                                 for node, unit in (("L", "meter"), ("T", "second"), ("M", "pound"))}
        _STATE["memo"] = {}
    return _STATE["sys"]


def _rebuild():
    s = System()
    s.rebuilds = _STATE["sys"].rebuilds + 1
    _STATE["sys"] = s
    return s


def run_sequence(seq, fresh=False):
    """Run one operation sequence.  -> (applicable, list of violation dicts, nontrivial, diverged).
    `diverged` = the active stack itself visibly differs from the reference (group 'stack', an unexpected
    exception, or residue after closing everything): such a sequence is not extended."""
    s = _system()
    if fresh:
        s = _rebuild()
    init, base_compat, memo = _STATE["init"], _STATE["base_compat"], _STATE["memo"]
    m = Model()
    for oi in seq:  # applicability is decided on the model alone, before the system is touched
        if not m.apply(OPS[oi]):
            return False, [], False, False
    m = Model()
    recs = []  # (case prefix, step, text)
    nontrivial = False
    diverged = False
    n = len(seq)
    last_fails = OPS[seq[-1]][4]
    for i, oi in enumerate(seq):
        op = OPS[oi]
        m.apply(op)
        exc = s.apply(op)
        if op[4]:
            nontrivial = True
            if exc is None and not diverged:
                # an activation that must fail (invalid redefinition / unknown name) was accepted silently: the
                # registry now runs with a context the reference stack does not contain
                diverged = True
                recs.append(("failed-activation-accepted", i,
                             f"operation {op[0]} must raise (its activation is invalid) but it returned normally; "
                             f"reference stack after it: {[k for k, _ in m.stack]}"))
        else:
            if op[1] == "raise":
                nontrivial = True
            if exc is not None and not diverged:
                diverged = True
                recs.append(("stack", i, f"operation {op[0]} raised {type(exc).__name__}: {str(exc)[:120]} (reference stack after it: {[k for k, _ in m.stack]})"))
    if m.maxdepth >= 2:
        nontrivial = True
    # answers after the last operation
    if not diverged:
        bad = _compare(s.observe(), m, base_compat, memo)
        where = f"after the last operation (reference stack {[k for k, _ in m.stack]}): "
        if "stack" in bad:
            diverged = True
            recs.append(("failed-activation" if last_fails else "stack", n - 1, where + _fmt(bad["stack"])))
        if "base-units" in bad and not diverged:
            recs.append(("stale-base-units", n - 1, where + _fmt(bad["base-units"])))
        if "compat" in bad and not diverged:
            recs.append(("compat", n - 1, where + _fmt(bad["compat"])))
    # close everything: answers must be the initial ones
    exc = s.teardown()
    m.teardown()
    final = s.observe()
    dirty = False
    if exc is not None:
        dirty = True
        if not diverged:
            diverged = True
            recs.append(("residue", n, f"closing the open with-blocks / disabling everything raised {type(exc).__name__}: {str(exc)[:120]}"))
    diff = [(q, final[q], init[q]) for q in init if final[q] != init[q] and not (isinstance(init[q], tuple) and _same(final[q], init[q]))]
    if diff:
        dirty = True
        if not diverged:
            diverged = True
            recs.append(("residue", n, "after everything was disabled the answers differ from the initial ones: " + _fmt(diff)))
    if dirty:
        _rebuild()
    name = _seqname(seq)
    out = [{"case": f"{p}:{name}", "what": t, "part": "bfs", "ops": [OPNAMES[o] for o in seq], "step": st, "kind": p} for (p, st, t) in recs]
    return True, out, nontrivial, diverged


def _expand_job(args):
    """Run all children (parent + one op) of a list of parent codes of a given length."""
    parents, plen, want_survivors = args
    _rebuild() if "sys" in _STATE else _system()  # every job starts from a fresh registry: results depend on the job only
    evals = nontriv = 0
    counts = {}
    viols = {}
    survivors = []
    for code in parents:
        pseq = _decode(code, plen)
        for oi in range(NOPS):
            seq = pseq + (oi,)
            ok, vs, nt, diverged = run_sequence(seq)
            if not ok:
                continue
            evals += 1
            nontriv += nt
            for v in vs:
                k = v["kind"]
                counts[k] = counts.get(k, 0) + 1
                if len(viols.setdefault(k, [])) < 3:
                    viols[k].append(v)
            if want_survivors and not diverged:
                survivors.append(_encode(seq))
    return evals, nontriv, counts, [v for vs in viols.values() for v in vs], survivors


def _bfs(maxlen, workers, budget_s):
    """Level by level.  If the wall-clock budget runs out inside a level, the jobs not yet finished are dropped and
    the result says so (`complete` False): on the unchanged tree both tiers finish well inside the budget."""
    t0 = time.time()
    frontier = [0]  # the empty sequence (code 0, length 0)
    plen = 0
    evals = nontriv = 0
    counts = {}
    viols = []
    per_level = []
    complete = True
    pool = mp.get_context("fork").Pool(workers) if workers > 1 else None
    try:
        while plen < maxlen and frontier:
            # each job starts with a new registry (~0.3 s): few jobs for short levels
            njobs = 1 if len(frontier) < 8 else min(len(frontier), workers * 2 if len(frontier) < 20000 else workers * 16)
            csize = -(-len(frontier) // njobs)
            jobs = [(frontier[i:i + csize], plen, plen + 1 < maxlen) for i in range(0, len(frontier), csize)]
            it = pool.imap(_expand_job, jobs, chunksize=1) if pool else map(_expand_job, jobs)
            nxt = []
            lv_e = 0
            lv_c = {}
            done = 0
            for (e, n, cs, vs, sv) in it:
                done += 1
                evals += e
                nontriv += n
                lv_e += e
                for k, c in cs.items():
                    counts[k] = counts.get(k, 0) + c
                    lv_c[k] = lv_c.get(k, 0) + c
                viols.extend(vs)
                nxt.extend(sv)
                if time.time() - t0 > budget_s and done < len(jobs):
                    complete = False
                    break
            per_level.append({"length": plen + 1, "sequences": lv_e, "violations": lv_c, "extended": len(nxt),
                              "jobs_done": done, "jobs": len(jobs)})
            if not complete:
                break
            frontier = nxt
            plen += 1
    finally:
        if pool:
            pool.terminate()
            pool.join()
    return evals, nontriv, counts, viols, per_level, complete


# ------------------------------------------------------------------------------------------------------
# Part 1b: cold registries -- the first time a question is asked is INSIDE a context
# ------------------------------------------------------------------------------------------------------
COLD = [
    # (id, context op, question): ask inside first (brand-new registry, nothing cached), leave, ask again
    ("base mile", "eR"), ("root foot", "eR"), ("3 foot->meter", "eR"), ("1 kilofoot->meter", "eR"), ("root mile/hour", "eR"),
    ("4 pound->kilogram", "eB"), ("root pound", "eB"), ("5 meter->second", "eA"), ("compat meter", "eB"), ("1 yard->pound", "eB"),
]


def _ask(s, q):
    """One question of the battery, alone."""
    import pint

    u = s.u
    for (name, v, a, b) in PROBES:
        if name == q:
            try:
                return ("ok", float(u.Quantity(v, a).to(b).magnitude))
            except pint.DimensionalityError:
                return ("dimerr",)
    for (name, which, unit) in UNITQ:
        if name == q:
            f, un = (u.get_root_units if which == "root" else u.get_base_units)(unit)
            return ("units", float(f), {k: float(e) for k, e in un._units.items()})
    for (name, unit, _n) in COMPAT:
        if name == q:
            return frozenset(k for x in u.get_compatible_units(unit) for k in x._units)
    raise KeyError(q)


def _cold_case(q, opname):
    s = System(warm=False)
    m = Model()
    op = OPS[OPNAMES.index(opname)]
    m.apply(op)
    exc = s.apply(op)
    if exc is not None:
        return f"{opname} raised {exc!r}"
    inside = _ask(s, q)
    s.u.disable_contexts()
    after = _ask(s, q)
    if "plain" not in _STATE:
        _STATE["plain"] = System(warm=False)  # never enters any context
    plain = _ask(_STATE["plain"], q)
    if isinstance(plain, frozenset):
        if after != plain:
            return f"asked inside first, then after leaving: {sorted(after ^ plain)[:6]} differ from a registry that never entered the context"
        return None
    e_in, e_out = m.answers()[q], Model().answers()[q]
    if not _same(inside, e_in):
        return f"first asked inside the context: observed {inside!r}, expected {e_in!r}"
    if not _same(after, e_out) or not _same(plain, e_out):
        return f"asked inside first, then after leaving: observed {after!r}, expected {e_out!r} (a registry that never entered gives {plain!r})"
    return None


def _cold_all():
    viols = []
    for (q, opname) in COLD:
        w = _cold_case(q, opname)
        if w:
            kind = "stale-base-units" if q.startswith("base") else "residue"
            viols.append({"case": f"{kind}:cold:{opname}:{q}", "what": w, "part": "cold", "q": q, "op": opname, "kind": kind})
    return len(COLD), viols


# ------------------------------------------------------------------------------------------------------
# Part 2: shared / re-parameterised Context objects are not modified
# ------------------------------------------------------------------------------------------------------
def _snapshot(ctx):
    return {
        "name": ctx.name,
        "aliases": tuple(ctx.aliases),
        "defaults": dict(ctx.defaults),
        "funcs": sorted((repr(sorted(dict(k[0]).items())), repr(sorted(dict(k[1]).items())), id(f)) for k, f in ctx.funcs.items()),
        "redefinitions": [id(d) for d in ctx.redefinitions],
        "redefinition_values": [repr(d) for d in ctx.redefinitions],
    }


def _shared_contexts():
    from pint import Context

    S1 = Context.from_lines(["@context(xp=2) c12S1 = c12s1", "[length] -> [time]: value * xp * second / meter"])
    S2 = Context.from_lines(["@context(xp=2) c12S2 = c12s2", "[length] -> [time]: value * xp * second / meter", "foot = 0.5 * meter"])
    return {"S1": S1, "S2": S2}


_SHARED = {}


def _shared_setup():
    if not _SHARED:
        import pint

        _SHARED["u"] = [pint.UnitRegistry(), pint.UnitRegistry()]
        _SHARED["ctx"] = _shared_contexts()
        # first activation normalises rule end points once (documented); do it before the snapshots
        for c in _SHARED["ctx"].values():
            for u in _SHARED["u"]:
                with u.context(c):
                    pass
    return _SHARED


KWS = [{}, {"xp": 3.0}, {"xp": 4.0}]
INTERLEAVINGS = [p for p in set(itertools.permutations(["in0", "in1", "out0", "out1"])) if p.index("in0") < p.index("out0") and p.index("in1") < p.index("out1")]
INTERLEAVINGS.sort()


def _shared_case(ckey, k0, k1, order, same_registry=False):
    """Enter/leave `ckey` in registry 0 with KWS[k0] and in registry 1 (or again registry 0) with KWS[k1],
    in the given interleaving.  -> list of problems."""
    sh = _shared_setup()
    ctx = sh["ctx"][ckey]
    regs = [sh["u"][0], sh["u"][0] if same_registry else sh["u"][1]]
    kws = [KWS[k0], KWS[k1]]
    before = _snapshot(ctx)
    problems = []
    active = [[], []] if not same_registry else None
    stack = []  # for the same-registry case: stack of effective xp
    cms = {}
    redefines = bool(ctx.redefinitions)

    def expect(r):
        """(expected 5 m -> s, expected foot in m) for registry slot r"""
        if same_registry:
            st = stack
        else:
            st = active[r]
        return (5 * st[-1] if st else None), (0.5 if (st and redefines) else 0.3048)

    def check(tag):
        import pint

        for r in ((0,) if same_registry else (0, 1)):
            u = regs[r]
            e_conv, e_foot = expect(r)
            try:
                o = float(u.Quantity(5.0, "meter").to("second").magnitude)
            except pint.DimensionalityError:
                o = None
            except Exception as exc:
                o = repr(exc)
            if (o is None) != (e_conv is None) or (e_conv is not None and not (isinstance(o, float) and _close(o, e_conv))):
                problems.append(f"{tag}: registry {r}: 5 m -> s gave {o!r}, expected {e_conv!r}")
            try:
                f = float(u.Quantity(1.0, "foot").to("meter").magnitude)
            except Exception as exc:
                f = repr(exc)
            if not (isinstance(f, float) and _close(f, e_foot)):
                problems.append(f"{tag}: registry {r}: 1 foot -> m gave {f!r}, expected {e_foot!r}")
        now = _snapshot(ctx)
        if now != before:
            diff = [k for k in before if before[k] != now[k]]
            problems.append(f"{tag}: the shared Context object was modified: fields {diff}: {[(before[k], now[k]) for k in diff]!r}"[:400])

    check("before")
    for stepname in order:
        r = int(stepname[-1])
        if stepname.startswith("in"):
            kw = kws[r]
            st = stack if same_registry else active[r]
            inherited = st[-1] if st else None
            eff = kw.get("xp", inherited if inherited is not None else 2.0)
            cm = regs[r].context(ctx, **kw)
            cm.__enter__()
            cms[r] = cm
            st.append(eff)
        else:
            cms[r].__exit__(None, None, None)
            (stack if same_registry else active[r]).pop()
        check(stepname)
    return problems


def _shared_all():
    evals = 0
    viols = []
    for ckey in ("S1", "S2"):
        for k0 in range(3):
            for k1 in range(3):
                for order in INTERLEAVINGS:
                    for same in (False, True):
                        if same and not (order.index("in0") < order.index("in1") < order.index("out1") < order.index("out0")):
                            continue  # in one registry only properly nested blocks are meaningful
                        problems = _shared_case(ckey, k0, k1, order, same)
                        evals += 1
                        if problems:
                            viols.append({"case": f"shared-context:{ckey}:{k0}{k1}:{'.'.join(order)}:{'same' if same else 'two'}",
                                          "what": problems[0], "part": "shared", "kind": "shared-context", "ops": [], "ckey": ckey, "k0": k0, "k1": k1,
                                          "order": list(order), "same": same})
    return evals, viols


# ------------------------------------------------------------------------------------------------------
def run(tier: str = "quick", seed: int = 0, **kw) -> dict:
    t0 = time.time()
    workers = int(kw.get("workers", 16))
    maxlen = int(kw.get("maxlen", 4 if tier == "quick" else 5))
    budget = float(kw.get("budget_s", 50 if tier == "quick" else 520))
    evals, nontriv, counts, viols, per_level, complete = _bfs(maxlen, workers, budget)
    t1 = time.time()
    e1b, v1b = _cold_all()
    e2, v2 = _shared_all()
    for d in v1b + v2:
        counts[d["kind"]] = counts.get(d["kind"], 0) + 1
    viols.sort(key=lambda d: (len(d["ops"]), d["case"]))
    # representative list: shortest sequences first, at most 25, some of every kind
    kept = []
    per_kind = {}
    quota = max(3, MAXV // max(1, len(counts)))
    for d in v1b + v2 + viols:
        k = d["kind"]
        if per_kind.get(k, 0) < quota and len(kept) < MAXV:
            kept.append(d)
            per_kind[k] = per_kind.get(k, 0) + 1
    # the listed ones are re-run from a brand-new registry (exactly what replay does)
    for d in kept:
        d["reproduces_on_fresh_registry"] = not replay(d)
    total_space = sum(NOPS ** k for k in range(1, maxlen + 1))
    return {
        "name": NAME,
        "bound": (
            f"all operation sequences of length 1..{maxlen} over {NOPS} operations {OPNAMES} with a pool of 4 contexts "
            f"({total_space} strings; exit/raise without an open with-block are not applicable; a sequence is extended only while the active stack "
            f"has not visibly diverged from the reference): {evals} sequences executed, each compared with the reference stack model after its last "
            f"operation and again after closing/disabling everything; {e1b} cold-registry orderings (question first asked inside a context); "
            f"{e2} two-registry / re-parameterisation interleavings for the non-modification of shared Context objects"
        ),
        "evaluations": evals + e1b + e2,
        "distinct_nontrivial": nontriv,
        "rule": (
            "breadth-first by length, children = parent + each of the 16 operations; non-trivial = at some point >= 2 contexts are active, "
            "or the sequence contains a failing activation or an exception leaving a with-block"
        ),
        "exhaustive": bool(complete),
        "exhaustive_note": "complete" if complete else f"wall-clock budget of {budget:.0f} s exhausted: the last level is only partly covered (see per_level jobs_done/jobs)",
        "violations": kept,
        "violation_count": sum(counts.values()),
        "violations_by_kind": counts,
        "per_level": per_level,
        "timing": {"bfs_s": round(t1 - t0, 2), "cold_shared_replay_s": round(time.time() - t1, 2)},
        "seconds": round(time.time() - t0, 2),
        "samples": [
            {"sequence": "eA3-wB5-p-wr", "meaning": "enable c12A(xp=3) by object; with c12B(xq=5); probe battery; exception leaves the with-block",
             "reference_stack_after": ["A"], "checked": "5 m -> 15 s, 2 s -> g raises DimensionalityError, pound back to 0.45359237 kg"},
            {"sequence": "eR-eAF-p", "meaning": "enable c12R; enable(c12A, c12F) fails on its second member; probe",
             "reference_stack_after": ["R"], "checked": "3 foot -> 1 m, 5 m -> s raises DimensionalityError (c12A must not stay active)"},
            {"sequence": "wR-eB-wx-dall", "meaning": "with c12R; enable c12B inside; leave the with-block (pops the most recent one: c12B); disable all",
             "reference_stack_after": [], "checked": "all 17 answers equal the initial ones"},
        ],
    }


def replay(data: dict) -> bool:
    part = data.get("part")
    if part == "shared":
        _SHARED.clear()
        return not _shared_case(data["ckey"], data["k0"], data["k1"], tuple(data["order"]), data["same"])
    if part == "cold":
        return _cold_case(data["q"], data["op"]) is None
    seq = tuple(OPNAMES.index(o) for o in data["ops"])
    _system()
    ok, vs, _, _ = run_sequence(seq, fresh=True)
    kind = data.get("kind")
    return ok and not [v for v in vs if kind is None or v["kind"] == kind]


if __name__ == "__main__":
    import argparse

    ap = argparse.ArgumentParser()
    ap.add_argument("--tier", default="quick")
    ap.add_argument("--seed", type=int, default=0)
    ap.add_argument("--replay", default=None)
    a = ap.parse_args()
    if a.replay:
        with open(a.replay) as fh:
            print(json.dumps({"holds": replay(json.load(fh))}))
        sys.exit(0)
    print(json.dumps(run(a.tier, a.seed), indent=1, default=str))
