"""Bounded stand-in for C02 "Conversion factors equal the exact ratio implied by the written definitions".

Oracle: `standins.ref.Ref` (exact Fraction arithmetic over the definition table of a registry built with
non_int_type=Fraction; it does not call the registry's resolution, recursion or cache code).  The domain are the
*rationally scaled* multiplicative units: those for which Ref.factor does not meet a non-integer power of a scale other
than 1 (units defined through square roots -- Gaussian / Planck / atomic units -- are counted and left out; pi is a
50-digit decimal literal in the definition file and therefore rational here).

Parts
 P  pairs     Fraction registry, every ordered pair (a, b) of rationally scaled units of equal reference dimensionality
              (a == b included): Quantity(x, a).to(b).magnitude, .m_as(b), ureg.convert(x, a, b) for x in
              {Fraction(1), 1, Fraction(7, 3)} equal x * Factor(a) / Factor(b) EXACTLY; the type is Fraction (int or
              Fraction for the int input), never float.
 R  roots     every key of the unit table (names, aliases, symbols) of those units: ureg.get_root_units(key) and
              Quantity(Fraction(1), key).to_root_units() equal Ref.root (factor and root-unit exponents), container and
              string route.
 X  spellings every prefix key (names, symbols, aliases) x sampled / all keys of declared units, with and without the
              plural 's' (only spellings with a unique reading): Factor(prefix+unit) = prefix value * Factor(unit),
              exactly and exactly once; to_root_units and conversion to the unprefixed canonical unit.
 C  compounds seeded compound units with integer exponents against a re-spelling (same-class substitution / expansion
              of a written definition), container and parsed-string route: exact ratio, Fraction type.
 T  triples   identity a->a, inverse a->b->a, path independence a->b->c == a->c on the real results (exact equality).
 D  decimal   registry with non_int_type=Decimal: the result is a Decimal and agrees with the exact ratio to a relative
              error <= DEC_RTOL (context precision 28).
 F  float     default float registry: result within FLOAT_ULPS ulp of the exact ratio (error measured in exact
              arithmetic in units of the ulp of the correctly rounded ratio).
 K  contamination  every scale stored in the Fraction registry's table: a float whose value is integral (1.0 from
              `1 ** Fraction(1, 2)`) is reported as float-contamination:<unit>, with the observable consequence (the even
              power unit**2 has a rational factor but converts to a float).
"""
from __future__ import annotations

import json
import math
import multiprocessing as mp
import random
import time
from decimal import Decimal
from fractions import Fraction

NAME = "c02_factors"
NWORKERS = 16
FLOAT_ULPS = 8
DEC_RTOL = Fraction(1, 10 ** 26)  # justified in run(): measured maximum is reported next to it
XVALUES = (Fraction(1), 1, Fraction(7, 3))


def _cpu_total():
    import resource

    a = resource.getrusage(resource.RUSAGE_SELF)
    b = resource.getrusage(resource.RUSAGE_CHILDREN)
    return a.ru_utime + a.ru_stime + b.ru_utime + b.ru_stime


def _exc_text(e):
    try:
        return str(e)
    except Exception:  # noqa: BLE001
        return "<str() of the exception failed>"


class Collector:
    def __init__(self):
        self.entries = {}

    def add(self, case, what, example):
        e = self.entries.get(case)
        if e is None:
            e = self.entries[case] = {"case": case, "what": what, "instances": 0, "examples": []}
        e["instances"] += 1
        if len(e["examples"]) < 2:
            e["examples"].append(example)

    def merge(self, other_entries):
        for case, o in other_entries.items():
            e = self.entries.get(case)
            if e is None:
                self.entries[case] = {"case": case, "what": o["what"], "instances": o["instances"],
                                      "examples": list(o["examples"][:2])}
            else:
                e["instances"] += o["instances"]
                for ex in o["examples"]:
                    if len(e["examples"]) < 2:
                        e["examples"].append(ex)


def dimkey(d):
    return tuple(sorted((k, Fraction(v)) for k, v in dict(d).items() if v != 0))


def uc_id(uc):
    return "*".join(k if v == 1 else "%s^%s" % (k, v) for k, v in sorted(dict(uc).items())) or "1"


def uc_json(uc):
    return {k: [Fraction(v).numerator, Fraction(v).denominator] for k, v in dict(uc).items()}


def uc_from_json(d):
    return {k: Fraction(a, b) for k, (a, b) in d.items()}


def x_json(x):
    return ["int", x] if isinstance(x, int) else ["Fraction", x.numerator, x.denominator]


def x_from_json(j):
    return j[1] if j[0] == "int" else Fraction(j[1], j[2])


def fstr(fr):
    fr = Fraction(fr)
    s = "%d/%d" % (fr.numerator, fr.denominator) if fr.denominator != 1 else "%d" % fr.numerator
    return s if len(s) <= 60 else "%s (~%.17g)" % (s[:40] + "...", float(fr))


# =============================================================================== reference environment
class Base:
    """Fraction registry + exact reference; one per process."""

    def __init__(self):
        import pint
        from standins.ref import Ref

        self.pint = pint
        self.ureg = pint.UnitRegistry(non_int_type=Fraction)
        self.ref = Ref(self.ureg)
        ref = self.ref
        self.names = sorted({d.name for d in ref.units.values()})
        self.mult = [n for n in self.names
                     if ref.units[n].converter.is_multiplicative and not ref.units[n].converter.is_logarithmic]
        self.factor, self.root, self.irrational = {}, {}, []
        for n in self.mult:
            try:
                f, r = ref.root({n: 1})
            except ValueError:
                self.irrational.append(n)
                continue
            self.factor[n], self.root[n] = f, dimkey(r)
        # float scales stored in the table
        self.float_scales = {}
        for n in self.mult:
            d = ref.units[n]
            if not d.is_base and isinstance(d.converter.scale, float):
                self.float_scales[n] = d.converter.scale
        # a float scale makes Ref unsound for that unit and its users: leave those out of the exact domain as well
        tainted = set(self.float_scales)
        changed = True
        while changed:
            changed = False
            for n in self.mult:
                d = ref.units[n]
                if n in tainted or d.reference is None:
                    continue
                for k in dict(d.reference):
                    r = ref.resolve(k) if not k.startswith("[") else None
                    if r is not None and r[1].name in tainted:
                        tainted.add(n)
                        changed = True
                        break
        self.rational = [n for n in self.mult if n in self.factor and n not in tainted]
        self.dims = {n: dimkey(ref.dim({n: 1})) for n in self.mult}
        self.classes = {}
        for n in self.rational:
            self.classes.setdefault(self.dims[n], []).append(n)
        self.pairs = [(a, b) for cls in self.classes.values() for a in cls for b in cls]
        self.declared_keys = sorted(k for k, d in ref.units.items() if d.name in set(self.rational) and hasattr(d, "raw"))
        self.all_keys = sorted(k for k, d in ref.units.items() if d.name in set(self.rational))

    def exact_factor(self, ucd):
        return self.ref.root(ucd)

    def container(self, d, ureg=None):
        ureg = ureg or self.ureg
        return ureg.UnitsContainer({k: (int(v) if Fraction(v).denominator == 1 else Fraction(v)) for k, v in dict(d).items()})


_BASE = []


def base():
    if not _BASE:
        _BASE.append(Base())
    return _BASE[0]


_OTHER = {}


def other_registry(kind):
    if kind not in _OTHER:
        import pint

        _OTHER[kind] = pint.UnitRegistry(non_int_type=Decimal) if kind == "decimal" else pint.UnitRegistry()
    return _OTHER[kind]


def candidates(ref, name):
    """all (prefix definition name, unit definition name) readings of `name`; an exact key wins"""
    if name in ref.units:
        return {("", ref.units[name].name)}
    out = set()
    for suffix in ("", "s"):
        if suffix and not name.endswith(suffix):
            continue
        stem = name[: len(name) - len(suffix)] if suffix else name
        for p, pdef in ref.prefixes.items():
            if not stem.startswith(p):
                continue
            u = stem[len(p):]
            if suffix and len(u) == 1:
                continue
            if u in ref.units:
                out.add((pdef.name if p else "", ref.units[u].name))
    return out


# =============================================================================== exact value checks
def type_ok(x, got):
    if isinstance(got, bool) or isinstance(got, float):
        return False
    if isinstance(x, Fraction):
        return type(got) is Fraction
    return type(got) in (int, Fraction)


def exact_problem(x, got, exp, what):
    """-> None or text; got must equal exp exactly and carry an exact type"""
    if not type_ok(x, got):
        return "%s returned %r of type %s; expected the exact %s as a Fraction" % (what, got, type(got).__name__, fstr(exp))
    if got != exp:
        return "%s = %s; the written definitions give exactly %s (ratio got/expected ~ %.17g)" % (
            what, fstr(got), fstr(exp), float(Fraction(got) / exp) if exp else float("nan"))
    return None


def convert_problems(b, A, B, x, routes=("to", "m_as", "convert")):
    """conversions of x from container-dict A to B in the Fraction registry against the exact ratio"""
    ureg = b.ureg
    fa, ra = b.exact_factor(A)
    fb, rb = b.exact_factor(B)
    exp = x * fa / fb
    ua, ub = b.container(A), b.container(B)
    out = []
    for route in routes:
        try:
            if route == "to":
                q = ureg.Quantity(x, ua).to(ureg.Unit(ub))
                got = q.magnitude
                if dict(q._units) != dict(ub):
                    out.append((route, "to() returned units %s" % uc_id(q._units)))
                    continue
            elif route == "m_as":
                got = ureg.Quantity(x, ua).m_as(ureg.Unit(ub))
            elif route == "ito":
                q = ureg.Quantity(x, ua)
                q.ito(ureg.Unit(ub))
                got = q.magnitude
            else:
                got = ureg.convert(x, ua, ub)
        except Exception as e:  # noqa: BLE001
            out.append((route, "%s of %r %s -> %s raised %s: %s" % (route, x, uc_id(A), uc_id(B), type(e).__name__,
                                                                    _exc_text(e))))
            continue
        p = exact_problem(x, got, exp, "%s of %r %s -> %s" % (route, x, uc_id(A), uc_id(B)))
        if p:
            out.append((route, p))
    return out


# =============================================================================== P
def pairs_worker(task):
    _, part, nparts = task
    b = base()
    col = Collector()
    evals = nontrivial = 0
    for idx, (a, c) in enumerate(b.pairs):
        if idx % nparts != part:
            continue
        for x in XVALUES:
            evals += 1
            nontrivial += a != c
            for route, what in convert_problems(b, {a: 1}, {c: 1}, x, ("to", "m_as", "ito", "convert")):
                col.add("pair:%s:(%s,%s)" % (route, a, c), what,
                        {"part": "pair", "a": uc_json({a: 1}), "b": uc_json({c: 1}), "x": x_json(x), "route": route})
    return {"evals": evals, "nontrivial": nontrivial, "entries": col.entries}


# =============================================================================== R
def root_problem(b, ucd, via, text=None):
    ureg = b.ureg
    f, r = b.exact_factor(ucd)
    r = dimkey(r)
    try:
        if via == "get_root_units":
            gf, gu = ureg.get_root_units(b.container(ucd) if text is None else text)
            gr = dimkey(gu._units)
        else:
            q = ureg.Quantity(Fraction(1), b.container(ucd) if text is None else text).to_root_units()
            gf, gr = q.magnitude, dimkey(q._units)
    except Exception as e:  # noqa: BLE001
        return "%s(%s) raised %s: %s" % (via, text or uc_id(ucd), type(e).__name__, _exc_text(e))
    if gr != r:
        return "%s(%s): root units %s, reference %s" % (via, text or uc_id(ucd), gr, r)
    return exact_problem(1 if via == "get_root_units" else Fraction(1), gf, f, "%s(%s) factor" % (via, text or uc_id(ucd)))


def roots_worker(task):
    _, part, nparts = task
    b = base()
    col = Collector()
    evals = nontrivial = 0
    for idx, key in enumerate(b.all_keys):
        if idx % nparts != part:
            continue
        canon = b.ref.units[key].name
        for via in ("get_root_units", "to_root_units"):
            for text in (None, key):
                if text is not None and not key.isidentifier():
                    continue
                evals += 1
                nontrivial += key != canon and not b.ref.units[key].is_base
                p = root_problem(b, {key: 1}, via, text)
                if p:
                    col.add("root:%s:%s:%s" % (via, "string" if text else "container", key), p,
                            {"part": "root", "uc": uc_json({key: 1}), "via": via, "text": text})
    return {"evals": evals, "nontrivial": nontrivial, "entries": col.entries}


# =============================================================================== X
def spelling_problem(b, spelling, pname, canon):
    """spelling reads as prefix `pname` ('' for none) + unit `canon` (+ plural s)"""
    ref = b.ref
    pval = Fraction(1)
    if pname:
        from standins.ref import F

        pval = F(ref.prefixes[pname].value)
    exp = pval * b.factor[canon]
    ureg = b.ureg
    out = []
    for via in ("container", "string"):
        if via == "string" and not spelling.isidentifier():
            continue
        arg = b.container({spelling: 1}) if via == "container" else spelling
        try:
            q = ureg.Quantity(Fraction(1), arg).to_root_units()
            gf, gr = q.magnitude, dimkey(q._units)
            got2 = ureg.Quantity(Fraction(7, 3), arg).to(ureg.Unit(b.container({canon: 1}))).magnitude
        except Exception as e:  # noqa: BLE001
            out.append("[%s] %r raised %s: %s" % (via, spelling, type(e).__name__, _exc_text(e)))
            continue
        p = exact_problem(Fraction(1), gf, exp, "[%s] Quantity(1, %r).to_root_units()" % (via, spelling))
        if p is None and gr != b.root[canon]:
            p = "[%s] root units of %r are %s, those of %s are %s" % (via, spelling, gr, canon, b.root[canon])
        if p is None:
            p = exact_problem(Fraction(7, 3), got2, Fraction(7, 3) * pval,
                              "[%s] Quantity(7/3, %r).to(%r)" % (via, spelling, canon))
        if p:
            out.append(p)
    return out


def spelling_list(b, tier, seed):
    """-> list of (spelling, prefix name, canonical unit), number skipped as ambiguous"""
    rng = random.Random(seed + 5)
    ref = b.ref
    pkeys = sorted(p for p in ref.prefixes if p)
    keys = b.declared_keys
    if tier == "quick":
        long_names = [k for k in keys if ref.units[k].name == k]
        others = [k for k in keys if ref.units[k].name != k]
        keys = sorted(set(rng.sample(long_names, 30) + rng.sample(others, 30)
                          + ["meter", "m", "gram", "g", "inch", "in", "byte", "B", "second", "s", "liter", "l",
                             "electron_volt", "eV", "pascal", "Pa", "foot", "ft", "feet"]))
    out, skipped = [], 0
    seen = set()
    for k in keys:
        for p in [""] + pkeys:
            for plural in (False, True):
                if not p and not plural:
                    continue
                if plural and len(k) == 1:
                    continue
                s = p + k + ("s" if plural else "")
                if s in seen:
                    continue
                seen.add(s)
                c = candidates(ref, s)
                if s in ref.units or len(c) != 1:
                    skipped += 1
                    continue
                pname, canon = next(iter(c))
                out.append((s, pname, canon))
    return out, skipped, len(keys), len(pkeys)


def spellings_worker(task):
    _, tier, seed, part, nparts = task
    b = base()
    col = Collector()
    evals = 0
    lst, _, _, _ = spelling_list(b, tier, seed)
    for idx, (s, pname, canon) in enumerate(lst):
        if idx % nparts != part:
            continue
        evals += 1
        for p in spelling_problem(b, s, pname, canon):
            col.add("spelling:%s" % s, p, {"part": "spelling", "spelling": s, "prefix": pname, "canon": canon})
    return {"evals": evals, "nontrivial": evals, "entries": col.entries}


# =============================================================================== C
IEXPS = (-3, -2, -1, -1, 1, 1, 1, 2, 2, 3)


def random_compound(b, rng):
    k = rng.choice((2, 2, 3, 3, 4))
    return {nm: Fraction(rng.choice(IEXPS)) for nm in rng.sample(b.rational, k)}


def respell(b, ucd, rng):
    out = {}
    for nm, e in ucd.items():
        mode = rng.randrange(3)
        udef = b.ref.units[nm]
        if mode == 0 and not udef.is_base and udef.reference is not None and len(udef.reference) > 0 \
                and all(Fraction(v).denominator == 1 for v in dict(udef.reference).values()):
            for k, v in dict(udef.reference).items():
                out[k] = out.get(k, Fraction(0)) + e * Fraction(v)
        elif mode == 1:
            other = rng.choice(b.classes[b.dims[nm]])
            out[other] = out.get(other, Fraction(0)) + e
        else:
            out[nm] = out.get(nm, Fraction(0)) + e
    return {k: v for k, v in out.items() if v != 0}


def expr_text(ucd):
    num = ["%s ** %d" % (k, v) if v != 1 else k for k, v in sorted(ucd.items()) if v > 0]
    den = ["%s ** %d" % (k, -v) if v != -1 else k for k, v in sorted(ucd.items()) if v < 0]
    s = " * ".join(num) or "1"
    for d in den:
        s += " / " + d
    return s


def compound_problems(b, A, A2, x):
    out = convert_problems(b, A, A2, x, ("to", "convert"))
    # parsed-string route (only when every key is an identifier)
    if all(k.isidentifier() for k in list(A) + list(A2)):
        ureg = b.ureg
        fa, _ = b.exact_factor(A)
        fb, _ = b.exact_factor(A2)
        try:
            got = ureg.Quantity(x, expr_text(A)).to(expr_text(A2)).magnitude
            p = exact_problem(x, got, x * fa / fb, "Quantity(%r, %r).to(%r)" % (x, expr_text(A), expr_text(A2)))
        except Exception as e:  # noqa: BLE001
            p = "Quantity(%r, %r).to(%r) raised %s: %s" % (x, expr_text(A), expr_text(A2), type(e).__name__, _exc_text(e))
        if p:
            out.append(("string", p))
    p = root_problem(b, A, "to_root_units")
    if p:
        out.append(("to_root_units", p))
    return out


def compound_cases(b, seed, n):
    rng = random.Random(seed + 7)
    return [(lambda A: (A, respell(b, A, rng), rng.choice(XVALUES)))(random_compound(b, rng)) for _ in range(n)]


def compounds_worker(task):
    _, seed, n, part, nparts = task
    b = base()
    col = Collector()
    evals = nontrivial = 0
    sample = None
    for idx, (A, A2, x) in enumerate(compound_cases(b, seed, n)):
        if idx % nparts != part:
            continue
        evals += 1
        nontrivial += A != A2
        if sample is None and A != A2:
            fa, fb = b.exact_factor(A)[0], b.exact_factor(A2)[0]
            sample = {"part": "C", "from": uc_id(A), "to": uc_id(A2), "x": str(x), "exact result": fstr(x * fa / fb)}
        for route, what in compound_problems(b, A, A2, x):
            col.add("compound:%s:(%s,%s)" % (route, uc_id(A), uc_id(A2)), what,
                    {"part": "compound", "a": uc_json(A), "b": uc_json(A2), "x": x_json(x)})
    return {"evals": evals, "nontrivial": nontrivial, "entries": col.entries, "samples": [sample] if sample else []}


# =============================================================================== T
def triple_problems(b, a, c, d, x):
    ureg = b.ureg
    U = lambda n: ureg.Unit(b.container({n: 1}))  # noqa: E731
    Q = lambda n: ureg.Quantity(x, b.container({n: 1}))  # noqa: E731
    out = []
    try:
        r = Q(a).to(U(a)).magnitude
        if r != x or not type_ok(x, r):
            out.append(("identity", "Quantity(%r, %s).to(%s) = %r" % (x, a, a, r)))
        r = Q(a).to(U(c)).to(U(a)).magnitude
        if r != x or not type_ok(x, r):
            out.append(("inverse", "%r %s -> %s -> %s = %r (%s)" % (x, a, c, a, r, type(r).__name__)))
        r1 = Q(a).to(U(c)).to(U(d)).magnitude
        r2 = Q(a).to(U(d)).magnitude
        if r1 != r2 or not type_ok(x, r1) or not type_ok(x, r2):
            out.append(("path", "%r %s -> %s -> %s = %r but %s -> %s = %r" % (x, a, c, d, r1, a, d, r2)))
    except Exception as e:  # noqa: BLE001
        out.append(("raised", "%s: %s" % (type(e).__name__, _exc_text(e))))
    return out


def triple_cases(b, seed, n):
    rng = random.Random(seed + 9)
    classes = [cls for cls in b.classes.values() if len(cls) >= 2]
    weights = [len(c) for c in classes]
    out = []
    for _ in range(n):
        cls = rng.choices(classes, weights)[0]
        out.append((rng.choice(cls), rng.choice(cls), rng.choice(cls), rng.choice(XVALUES)))
    return out


def triples_worker(task):
    _, seed, n, part, nparts = task
    b = base()
    col = Collector()
    evals = nontrivial = 0
    for idx, (a, c, d, x) in enumerate(triple_cases(b, seed, n)):
        if idx % nparts != part:
            continue
        evals += 1
        nontrivial += len({a, c, d}) == 3
        for kind, what in triple_problems(b, a, c, d, x):
            col.add("triple:%s:(%s,%s,%s)" % (kind, a, c, d), what, {"part": "triple", "units": [a, c, d], "x": x_json(x)})
    return {"evals": evals, "nontrivial": nontrivial, "entries": col.entries}


# =============================================================================== D, F
def numeric_problem(b, kind, a, c, x):
    """-> (problem or None, measured error: relative (decimal) / ulps (float))"""
    ureg = other_registry(kind)
    exact = b.factor[a] / b.factor[c]
    try:
        got = ureg.Quantity(x, ureg.UnitsContainer({a: 1})).to(ureg.Unit(ureg.UnitsContainer({c: 1}))).magnitude
        got2 = ureg.convert(x, ureg.UnitsContainer({a: 1}), ureg.UnitsContainer({c: 1}))
    except Exception as e:  # noqa: BLE001
        return "%s registry: %r %s -> %s raised %s: %s" % (kind, x, a, c, type(e).__name__, _exc_text(e)), 0
    want = Fraction(x) * exact
    worst = 0
    for g in (got, got2):
        if kind == "decimal":
            if isinstance(x, int) and type(g) is int and g == want:
                continue  # int in, exact int out (identity)
            if type(g) is not Decimal:
                return "Decimal registry: %r %s -> %s returned %r of type %s" % (x, a, c, g, type(g).__name__), 0
            if not g.is_finite():
                return "Decimal registry: %r %s -> %s returned %r" % (x, a, c, g), 0
            err = abs(Fraction(g) - want) / abs(want)
            worst = max(worst, err)
            if err > DEC_RTOL:
                return ("Decimal registry: %r %s -> %s = %s, exact ratio %s: relative error %.3g > %.3g"
                        % (x, a, c, g, fstr(want), float(err), float(DEC_RTOL))), err
        else:
            if type(g) is not float:
                return "float registry: %r %s -> %s returned %r of type %s" % (x, a, c, g, type(g).__name__), 0
            if not math.isfinite(g):
                return "float registry: %r %s -> %s returned %r" % (x, a, c, g), 0
            cr = float(want)  # correctly rounded (int / int true division)
            err = abs(Fraction(g) - want) / Fraction(math.ulp(cr))
            worst = max(worst, err)
            if err > FLOAT_ULPS:
                return ("float registry: %r %s -> %s = %r, exact ratio rounds to %r: off by %.2f ulp > %d"
                        % (x, a, c, g, cr, float(err), FLOAT_ULPS)), err
    return None, worst


def numeric_worker(task):
    _, kind, part, nparts, stride, offset = task
    b = base()
    col = Collector()
    evals = nontrivial = 0
    worst, worst_case = Fraction(0), None
    xs = (Decimal(1), 1, Decimal("2.5")) if kind == "decimal" else (1.0, 3.0)
    for idx, (a, c) in enumerate(b.pairs):
        if idx % nparts != part or (stride > 1 and idx % stride != offset):
            continue
        for x in xs:
            evals += 1
            nontrivial += a != c
            p, err = numeric_problem(b, kind, a, c, x)
            if err > worst:
                worst, worst_case = err, "%r %s -> %s" % (x, a, c)
            if p:
                col.add("%s:(%s,%s)" % (kind, a, c), p, {"part": "numeric", "kind": kind, "a": a, "b": c, "x": str(x)})
    return {"evals": evals, "nontrivial": nontrivial, "entries": col.entries,
            "worst": {kind: [float(worst), worst_case]}}


# =============================================================================== K
def contamination_problem(b, n):
    """unit n stores a float scale with an integral value; -> text (always a violation for such a unit) and whether
    the consequence is observable on the even power"""
    ureg = b.ureg
    scale = b.ref.units[n].converter.scale
    text = "the Fraction registry stores the scale of %s as the float %r (from %r)" % (n, scale, getattr(b.ref.units[n], "raw", ""))
    try:
        exact = b.ref.factor({n: 2})
    except ValueError:
        return text, False
    try:
        got = ureg.Quantity(Fraction(1), b.container({n: 2})).to_root_units().magnitude
    except Exception as e:  # noqa: BLE001
        return text + "; Quantity(1, %s**2).to_root_units() raised %s" % (n, type(e).__name__), True
    if type(got) is not Fraction or got != exact:
        return text + ("; consequence: Quantity(Fraction(1), '%s**2').to_root_units() = %r (%s) although the written "
                       "definitions make it the rational %s" % (n, got, type(got).__name__, fstr(exact))), True
    return None, False


def contamination(b, col):
    evals = 0
    info = {"float_scales": {k: v for k, v in sorted(b.float_scales.items())}, "even_power_float": []}
    for n in b.mult:
        d = b.ref.units[n]
        if d.is_base:
            continue
        evals += 1
        s = d.converter.scale
        if isinstance(s, float) and float(s).is_integer():
            text, _ = contamination_problem(b, n)
            if text:
                col.add("float-contamination:%s" % n, text, {"part": "contamination", "unit": n})
    for n in b.irrational:  # information only: a square root taken in floats does not come back
        if n in b.float_scales:
            continue
        try:
            exact = b.ref.factor({n: 2})
            got = b.ureg.Quantity(Fraction(1), b.container({n: 2})).to_root_units().magnitude
        except Exception:  # noqa: BLE001
            continue
        if type(got) is not Fraction or got != exact:
            info["even_power_float"].append(n)
    return evals, info


# =============================================================================== driver
def _any_worker(task):
    t = time.process_time()
    kind = task[0]
    res = {"P": pairs_worker, "R": roots_worker, "X": spellings_worker, "C": compounds_worker, "T": triples_worker,
           "N": numeric_worker}[kind](task)
    res["cpu"] = time.process_time() - t
    res["kind"] = kind if kind != "N" else task[1]
    return res


def run(tier: str = "quick", seed: int = 0, **kw) -> dict:
    t0 = time.time()
    cpu0 = _cpu_total()
    workers = int(kw.get("workers", NWORKERS))
    quick = tier == "quick"
    b = base()
    rng = random.Random(seed)
    np_ = 16
    n_comp = 3000 if quick else 30000
    n_trip = 4000 if quick else 40000
    fstride = 3 if quick else 1
    foffset = rng.randrange(fstride)
    tasks = []
    for part in range(np_ * (1 if quick else 4)):
        tasks.append(("X", tier, seed, part, np_ * (1 if quick else 4)))
    for part in range(np_):
        tasks.append(("P", part, np_))
        tasks.append(("N", "float", part, np_, fstride, foffset))
        tasks.append(("N", "decimal", part, np_, fstride, foffset))
        tasks.append(("C", seed, n_comp, part, np_))
        tasks.append(("T", seed, n_trip, part, np_))
    for part in range(4):
        tasks.append(("R", part, 4))
    ctx = mp.get_context("fork")
    if workers > 1:
        with ctx.Pool(workers) as pool:
            results = pool.map(_any_worker, tasks, chunksize=1)
    else:
        results = [_any_worker(tk) for tk in tasks]
    col = Collector()
    evals = nontrivial = 0
    by_part, cpu_by_part, samples = {}, {}, []
    worst = {}
    for res in results:
        evals += res["evals"]
        nontrivial += res["nontrivial"]
        col.merge(res["entries"])
        by_part[res["kind"]] = by_part.get(res["kind"], 0) + res["evals"]
        cpu_by_part[res["kind"]] = round(cpu_by_part.get(res["kind"], 0.0) + res["cpu"], 1)
        for s in res.get("samples", []):
            if not any(x.get("part") == s.get("part") for x in samples):
                samples.append(s)
        for k, v in res.get("worst", {}).items():
            if k not in worst or v[0] > worst[k][0]:
                worst[k] = v
    kev, kinfo = contamination(b, col)
    evals += kev
    by_part["K"] = kev
    lst, skipped, nkeys, npk = spelling_list(b, tier, seed)

    entries = sorted(col.entries.values(), key=lambda e: (e["case"].split(":")[0], len(e["case"]), e["case"]))
    buckets = {}
    for e in entries:
        buckets.setdefault(e["case"].split(":")[0], []).append(e)
    chosen, i = [], 0
    while len(chosen) < 25 and any(i < len(bk) for bk in buckets.values()):
        for k in sorted(buckets):
            if i < len(buckets[k]) and len(chosen) < 25:
                chosen.append(buckets[k][i])
        i += 1
    chosen.sort(key=lambda e: e["case"])
    fa, fb = b.factor["mile"], b.factor["survey_foot"]
    samples = [
        {"part": "P", "case": "Quantity(Fraction(7,3), 'mile').to('survey_foot')", "exact result": fstr(Fraction(7, 3) * fa / fb)},
        {"part": "X", "spelling": lst[len(lst) // 2][0], "reads as": list(lst[len(lst) // 2][1:])},
        {"part": "T", "triple": list(triple_cases(b, seed, 1)[0][:3])},
        {"part": "F", "case": "1.0 inch -> mile", "correctly rounded": float(b.factor["inch"] / b.factor["mile"])},
    ] + samples
    npairs = len(b.pairs)
    bound = (
        "Fraction registry: all %d ordered same-dimension pairs (a == b included) of the %d rationally scaled "
        "multiplicative units (%d classes) x 3 magnitudes x 4 routes; root units of all %d keys of those units "
        "(2 routes, container and string); %d prefixed / plural spellings (%d prefix keys x %d unit keys x {plain, "
        "plural}, %d with no or several readings left out); %d seeded compound pairs (integer exponents -3..3, 2-4 "
        "factors); %d seeded triples; Decimal and float registry: %s of the %d pairs x %d magnitudes x 2 routes; every "
        "stored scale of the Fraction table"
        % (npairs, len(b.rational), len(b.classes), len(b.all_keys), len(lst), npk, nkeys, skipped, n_comp, n_trip,
           "all" if fstride == 1 else "every %d-th (seeded offset)" % fstride, npairs, 3))
    return {
        "name": NAME,
        "tier": tier,
        "seed": seed,
        "bound": bound,
        "evaluations": evals,
        "distinct_nontrivial": nontrivial,
        "rule": "an evaluation is one (input, magnitude) case run through its routes; non-trivial: pairs with a != b, "
                "keys other than the canonical name of a non-base unit, every prefixed / plural spelling, compounds "
                "whose re-spelling differs, triples of three different units",
        "exhaustive": not quick,
        "exhaustive_parts": "P, R and K are complete in both tiers; D/F and X are complete in the thorough tier; C and T "
                            "are seeded samples",
        "violations": chosen if not kw.get("all_violations") else entries,
        "violation_count": len(entries),
        "violating_evaluations": sum(e["instances"] for e in entries),
        "violation_classes": {k: len(bk) for k, bk in sorted(buckets.items())},
        "units_multiplicative": len(b.mult),
        "units_rational": len(b.rational),
        "excluded_irrational": sorted(set(b.mult) - set(b.rational)),
        "excluded_irrational_count": len(set(b.mult) - set(b.rational)),
        "float_scales_in_fraction_table": kinfo["float_scales"],
        "irrational_units_whose_square_is_rational_but_converts_inexactly": kinfo["even_power_float"],
        "max_float_ulp_error": worst.get("float"),
        "float_ulp_bound": FLOAT_ULPS,
        "max_decimal_relative_error": worst.get("decimal"),
        "decimal_relative_bound": float(DEC_RTOL),
        "decimal_bound_justification": "default context precision 28: every multiplication / division / power along the "
                                       "two definition chains (at most about 20) rounds by <= 0.5e-27 relative, hence "
                                       "<= 1e-26; the measured maximum is reported in max_decimal_relative_error",
        "evaluations_by_part": by_part,
        "cpu_seconds_by_part": cpu_by_part,
        "samples": samples[:6],
        "seconds": round(time.time() - t0, 1),
        "cpu_seconds": round(_cpu_total() - cpu0, 1),
    }


# =============================================================================== replay
def replay(data: dict) -> bool:
    b = base()
    ok = True
    for ex in data.get("examples", []):
        part = ex.get("part")
        if part == "pair":
            ok = not convert_problems(b, uc_from_json(ex["a"]), uc_from_json(ex["b"]), x_from_json(ex["x"]),
                                      (ex["route"],)) and ok
        elif part == "root":
            ok = root_problem(b, uc_from_json(ex["uc"]), ex["via"], ex["text"]) is None and ok
        elif part == "spelling":
            ok = not spelling_problem(b, ex["spelling"], ex["prefix"], ex["canon"]) and ok
        elif part == "compound":
            ok = not compound_problems(b, uc_from_json(ex["a"]), uc_from_json(ex["b"]), x_from_json(ex["x"])) and ok
        elif part == "triple":
            ok = not triple_problems(b, *ex["units"], x_from_json(ex["x"])) and ok
        elif part == "numeric":
            x = Decimal(ex["x"]) if ex["kind"] == "decimal" else float(ex["x"])
            ok = numeric_problem(b, ex["kind"], ex["a"], ex["b"], x)[0] is None and ok
        elif part == "contamination":
            ok = contamination_problem(b, ex["unit"])[0] is None and ok
        else:
            raise ValueError("unknown example %r" % (ex,))
    return ok


if __name__ == "__main__":
    import argparse

    ap = argparse.ArgumentParser()
    ap.add_argument("--tier", default="quick")
    ap.add_argument("--seed", type=int, default=0)
    ap.add_argument("--workers", type=int, default=NWORKERS)
    a = ap.parse_args()
    print(json.dumps(run(a.tier, a.seed, workers=a.workers), indent=1, default=str))
