"""Bounded stand-in (C08, supplementary to c08_names): spellings introduced by EVERY definition route, and the
`as_delta` argument.

Part A -- "Every defined spelling resolves: canonical name, symbol, aliases, plurals, prefixed forms; with
case-insensitive lookup a spelling differing only in letter case resolves to the same unit when unambiguous".
One abstract definition set (SPEC below: 3 units with symbol + aliases, one of them an offset unit, 4 `@alias`
directives -- on a canonical name, on an alias, on a symbol, on a user unit -- and one prefix with symbol + alias)
is brought into a registry by every route (ROUTES): at construction from a list of lines / a file / a file that
`@import`s another; after construction by load_definitions(list | path), define(line) per line, define(multi-line
string), define(definition objects), and define after every test string was looked up once (and missed).
For every spelling x {bare, prefix spellings, plural, prefixed plural} x {exact, lower, upper, swapcase, title of the
unit part} the real entry points (parse_unit_name, get_name, parse_units, getattr, `in`, Quantity(1, s), and with the
per-call argument also parse_expression) are compared with the reading(s) the string has by the declared tables.

The reference (`readings`) is written from the property statement: it tries every split of the string into
declared prefix spelling + declared unit spelling (+ plural 's'), prefixes and the plural suffix case sensitive, the
unit part by exact spelling or (case-insensitive) by equal lower-case form.  The spellings it knows are SPEC (written
down here) plus a snapshot of the registry's table keys (only used to find *other* readings = ambiguity; ambiguous
strings are skipped, not judged).  A string with exactly one reading must resolve to it through every entry point; a
string with no case-sensitive reading must be refused by the case-sensitive lookup.

Part B -- "in compound unit expressions offset units are read as their delta counterparts unless that is disabled":
default_as_delta in {True, False} (constructor value, and the attribute flipped after a warm-up pass) x explicit
as_delta in {None, True, False} x expressions x entry points (parse_units, parse_units_as_container; without an
argument: Unit(str), getattr, Quantity(1, str)) in several call orders on registries never used before.  Expected
container written from the rule: explicit argument wins; None -> registry default; if the effective value is True and
the expression has more than one unit or an exponent != 1, every offset unit is replaced by delta_<unit>; otherwise
the canonical names are kept.  The expressions are rendered from a structured form (unit, exponent) by this module, the
canonical names / offset flags of the ~10 bundled units used are written down here.
"""
from __future__ import annotations

import itertools
import json
import logging
import math
import multiprocessing
import os
import random
import shutil
import sys
import tempfile
import time

NAME = "c08_alias"
MAX_LISTED = 25

# ------------------------------------------------------------------------------------------------
# Part A: the abstract definition set
# ------------------------------------------------------------------------------------------------
# (canonical name, symbol or None, aliases, factor to the root unit, reference text, reference dict, offset or None)
SPEC_UNITS = [
    ("Qwertum", "Qwt", ("qwertAlias", "QW_alt2"), 3.0, "meter", {"meter": 1}, None),
    ("Zorkel", None, ("zorkelB",), 0.125, "meter / second", {"meter": 1, "second": -1}, None),
    ("degZork", "dZk", ("zorkTemp",), 2.0, "kelvin", {"kelvin": 1}, 10.0),
]
# (target spelling, new aliases, canonical name of the target)
SPEC_ALIASES = [
    ("meter", ("Metrum", "metrumB"), "meter"),
    ("Metrum", ("Metrissimo",), "meter"),
    ("m", ("Mtrsym",), "meter"),
    ("Qwertum", ("qwAliasLate",), "Qwertum"),
]
# (name, value, symbol, aliases)
SPEC_PREFIX = ("zorbo", 100000, "zb", ("zorbal",))

BASE_LINES = [  # for the construction-time routes (a registry that contains nothing else)
    "kilo- = 1000 = k-",
    "milli- = 1e-3 = m-",
    "meter = [length] = m = metre",
    "second = [time] = s = sec",
    "kelvin = [temperature] = K",
]
ROOT_OF = {"meter": (1.0, {"meter": 1}), "Qwertum": (3.0, {"meter": 1}), "Zorkel": (0.125, {"meter": 1, "second": -1})}
KNOWN_PREFIX_VALUE = {"kilo": 1000.0, "milli": 1e-3, "zorbo": 100000.0, "": 1.0, "mega": 1e6, "micro": 1e-6}

ROUTES = ["ctor-lines", "ctor-file", "ctor-import", "load-lines", "load-file", "define-lines", "define-block",
          "define-objects", "define-after-miss"]
REGMODES = ["cs", "ci"]  # registry-wide case_sensitive True / False


def spec_lines():
    out = []
    for name, sym, aliases, scale, reftxt, _ref, offset in SPEC_UNITS:
        rhs = f"{scale!r} {reftxt}" + (f"; offset: {offset!r}" if offset is not None else "")
        out.append(" = ".join([name, rhs, sym if sym else "_", *aliases]))
    pn, pv, ps, pal = SPEC_PREFIX
    out.append(" = ".join([f"{pn}-", str(pv), f"{ps}-", *[f"{a}-" for a in pal]]))
    for target, aliases, _ in SPEC_ALIASES:
        out.append("@alias " + " = ".join([target, *aliases]))
    return out


def spec_objects(ureg):
    from pint.facets.nonmultiplicative.definitions import OffsetConverter
    from pint.facets.plain.definitions import AliasDefinition, PrefixDefinition, ScaleConverter, UnitDefinition

    out = []
    for name, sym, aliases, scale, _reftxt, ref, offset in SPEC_UNITS:
        conv = ScaleConverter(scale) if offset is None else OffsetConverter(scale, offset)
        out.append(UnitDefinition(name, sym, tuple(aliases), conv, ureg.UnitsContainer(ref)))
    pn, pv, ps, pal = SPEC_PREFIX
    out.append(PrefixDefinition(pn, pv, ps, tuple(pal)))
    for target, aliases, _ in SPEC_ALIASES:
        out.append(AliasDefinition(target, tuple(aliases)))
    return out


def spellings():
    """-> list of (spelling, canonical name, kind, is_offset)"""
    out = []
    for name, sym, aliases, _s, _rt, _r, offset in SPEC_UNITS:
        out.append((name, name, "name", offset is not None))
        if sym:
            out.append((sym, name, "symbol", offset is not None))
        for a in aliases:
            out.append((a, name, "inline-alias", offset is not None))
    for _t, aliases, canon in SPEC_ALIASES:
        for a in aliases:
            out.append((a, canon, "@alias", False))
    return out


def prefix_spellings(ureg, tier, rng):
    """the prefix spellings put in front of every unit spelling: the defined prefix (name, symbol, alias) and some
    prefixes of the registry"""
    pn, _pv, ps, pal = SPEC_PREFIX
    mine = [pn, ps, *pal]
    others = [k for k in ureg._prefixes if k and k not in mine]
    if tier == "quick":
        pick = [k for k in ("kilo", "k", "milli", "m", "micro", "µ") if k in others][:4]
    else:
        pick = sorted(others)
    return mine + pick


class Tables:
    """declared spellings: SPEC + a snapshot of the registry's table keys (taken before any lookup)"""

    def __init__(self, ureg):
        self.prefix = {k: d.name for k, d in ureg._prefixes.items()}
        self.pvalue = {d.name: d.value for d in ureg._prefixes.values()}
        pn, pv, ps, pal = SPEC_PREFIX
        for k in (pn, ps, *pal):
            self.prefix[k] = pn
        self.pvalue[pn] = pv
        self.prefix[""] = ""
        self.units = {k: d.name for k, d in ureg._units.items()}
        for s, canon, _k, _o in spellings():
            self.units[s] = canon
        self.lower = {}
        for k in self.units:
            self.lower.setdefault(k.lower(), []).append(k)

    def readings(self, s, casei):
        out = []
        for suf in ("", "s"):
            if suf and not s.endswith(suf):
                continue
            body = s[: len(s) - len(suf)]
            for cut in range(len(body) + 1):
                head, tail = body[:cut], body[cut:]
                if head not in self.prefix:
                    continue
                if suf and len(tail) == 1:
                    continue  # single-letter spellings take no plural
                if casei:
                    matches = self.lower.get(tail.lower(), ())
                else:
                    matches = (tail,) if tail in self.units else ()
                for m in matches:
                    out.append((self.prefix[head], self.units[m]))
        out = list(dict.fromkeys(out))
        for p, u in list(out):  # ('kilo','gram') and ('','kilogram') are the same reading
            if p and ("", p + u) in out:
                out.remove(("", p + u))
        return out


def case_variants(s, tier, rng):
    vs = [("lower", s.lower()), ("upper", s.upper()), ("swapcase", s.swapcase()), ("title", s.title())]
    if tier != "quick":
        for i in range(4):
            vs.append((f"mask{i}", "".join(c.upper() if rng.random() < 0.5 else c.lower() for c in s)))
    out, seen = [], {s}
    for tag, v in vs:
        if v not in seen:
            seen.add(v)
            out.append((tag, v))
    return out


def make_registry(route, regmode, base, tmp, probe_strings=()):
    """-> registry holding SPEC, brought in by `route`.  `base` = an unused default registry of this process (the
    caller runs in a forked child, so mutating it is private)."""
    import pint

    cs = regmode == "cs"
    lines = spec_lines()
    if route == "ctor-lines":
        return pint.UnitRegistry(BASE_LINES + lines, case_sensitive=cs)
    if route == "ctor-file":
        p = os.path.join(tmp, "defs_ctor.txt")
        with open(p, "w", encoding="utf-8") as fh:
            fh.write("\n".join(BASE_LINES + lines) + "\n")
        return pint.UnitRegistry(p, case_sensitive=cs)
    if route == "ctor-import":
        p, q = os.path.join(tmp, "defs_main.txt"), os.path.join(tmp, "defs_sub.txt")
        with open(q, "w", encoding="utf-8") as fh:
            fh.write("\n".join(lines) + "\n")
        with open(p, "w", encoding="utf-8") as fh:
            fh.write("\n".join(BASE_LINES + ["@import defs_sub.txt"]) + "\n")
        return pint.UnitRegistry(p, case_sensitive=cs)
    ureg = base
    if route == "load-lines":
        ureg.load_definitions(lines)
    elif route == "load-file":
        p = os.path.join(tmp, "defs_load.txt")
        with open(p, "w", encoding="utf-8") as fh:
            fh.write("\n".join(lines) + "\n")
        ureg.load_definitions(p)
    elif route == "define-lines":
        for ln in lines:
            ureg.define(ln)
    elif route == "define-block":
        ureg.define("\n".join(lines))
    elif route == "define-objects":
        for d in spec_objects(ureg):
            ureg.define(d)
    elif route == "define-after-miss":
        for s in probe_strings:  # every test string is looked up (and missed) before it is defined
            for f in (lambda: ureg.parse_units(s), lambda: ureg.parse_unit_name(s, case_sensitive=False),
                      lambda: s in ureg):
                try:
                    f()
                except Exception:  # noqa: BLE001
                    pass
        for ln in lines:
            ureg.define(ln)
    else:
        raise ValueError(route)
    return ureg


def test_strings(ureg, tier, rng):
    """-> list of (string id parts, string, unit spelling part start/end) ; deterministic"""
    prefs = prefix_spellings(ureg, tier, rng)
    out = []
    for s, canon, kind, is_off in spellings():
        forms = [("bare", "", "")]
        if len(s) > 1:
            forms.append(("plural", "", "s"))
        if not is_off:
            for p in prefs:
                forms.append((f"prefix[{p}]", p, ""))
            if len(s) > 1:
                for p in prefs[:3] + prefs[-1:]:
                    forms.append((f"prefix[{p}]+plural", p, "s"))
        for ftag, p, suf in forms:
            out.append((kind, ftag, "exact", p + s + suf, s, canon, is_off))
            for vtag, v in case_variants(s, tier, rng):
                out.append((kind, ftag, vtag, p + v + suf, s, canon, is_off))
    return out


def _call(f):
    try:
        return ("ok", f())
    except Exception as e:  # noqa: BLE001
        return ("exc", type(e).__name__)


def _check_entries(ureg, string, expect, arg, want_root):
    """expect: (pname, canonical) or None (= must be refused).  arg: {} or {"case_sensitive": bool}.
    -> list of (entry, message)"""
    import pint

    bad = []
    entries = {
        "parse_unit_name": lambda: tuple(ureg.parse_unit_name(string, **arg)),
        "get_name": lambda: ureg.get_name(string, **arg),
        "parse_units": lambda: dict(ureg.parse_units(string, **arg)._units),
    }
    if arg:
        entries["parse_expression"] = lambda: (lambda q: (q.magnitude, dict(q._units)))(ureg.parse_expression(string, **arg))
    else:
        entries["getattr"] = lambda: dict(getattr(ureg, string)._units)
        entries["in"] = lambda: string in ureg
        entries["Quantity"] = lambda: dict(ureg.Quantity(1, string)._units)
    n = 0
    for ename, f in entries.items():
        n += 1
        st, val = _call(f)
        if expect is None:
            if ename == "parse_unit_name":
                ok = st == "ok" and val == ()
            elif ename == "in":
                ok = st == "ok" and val is False
            else:
                ok = st == "exc" and val == "UndefinedUnitError"
            if not ok:
                bad.append((ename, f"no declared reading, expected refusal, got {st}:{val!r}"))
            continue
        p, canon = expect
        full = p + canon
        if ename == "parse_unit_name":
            want = ((p, canon, ""),)
        elif ename == "get_name":
            want = full
        elif ename == "in":
            want = True
        elif ename == "parse_expression":
            want = (1, {full: 1})
        else:
            want = {full: 1}
        if st != "ok" or val != want:
            bad.append((ename, f"expected {want!r}, got {st}:{val!r}"))
    if expect is not None and want_root is not None and not arg:
        n += 1
        st, val = _call(lambda: (lambda q: (float(q.magnitude), dict(q._units)))(ureg.Quantity(1, string).to_root_units()))
        if st != "ok" or val[1] != want_root[1] or not math.isclose(val[0], want_root[0], rel_tol=1e-12):
            bad.append(("to_root_units", f"expected {want_root!r}, got {st}:{val!r}"))
    return n, bad


def run_route(route, regmode, tier, seed, base):
    """one task (in a forked child): -> dict(evals, nontrivial, skipped, viols, samples)"""
    logging.getLogger("pint").setLevel(logging.CRITICAL)
    rng = random.Random(f"{seed}:{route}:{regmode}")
    tmp = tempfile.mkdtemp(prefix="c08_alias_")
    try:
        # strings first (they do not depend on the route except through the registry's prefixes)
        strs0 = test_strings(base, tier, random.Random(f"{seed}:strings")) if not route.startswith("ctor") else None
        ureg = make_registry(route, regmode, base, tmp, probe_strings=[t[3] for t in strs0] if strs0 else ())
        strs = strs0 if strs0 is not None else test_strings(ureg, tier, random.Random(f"{seed}:strings"))
        tab = Tables(ureg)
        cs_registry = regmode == "cs"
        evals = nontrivial = skipped = 0
        viols, samples = [], []

        def report(mode, entry, t, msg):
            kind, ftag, vtag, string = t[:4]
            viols.append({"case": f"alias:{route}:{regmode}:{mode}:{entry}:{string}",
                          "what": f"[{route}, registry case_sensitive={cs_registry}, call {mode}] {kind} spelling "
                                  f"{t[4]!r} of {t[5]!r} as {ftag}/{vtag} -> {string!r}: {entry}: {msg}",
                          "part": "A", "route": route, "regmode": regmode, "tier": tier})

        for t in strs:
            kind, ftag, vtag, string, s, canon, is_off = t
            r_cs = tab.readings(string, False)
            r_ci = tab.readings(string, True)

            def root_for(reading):
                p, c = reading
                if c not in ROOT_OF:
                    return None
                pv = float(tab.pvalue[p]) if p else 1.0
                f, ru = ROOT_OF[c]
                return (pv * f, ru)

            plans = []  # (mode tag, arg dict, readings used)
            if cs_registry:
                plans.append(("default", {}, r_cs))
                plans.append(("arg-ci", {"case_sensitive": False}, r_ci))
            else:
                plans.append(("default", {}, r_ci))
                plans.append(("arg-cs", {"case_sensitive": True}, r_cs))
                plans.append(("arg-ci", {"case_sensitive": False}, r_ci))
            for mode, arg, rd in plans:
                if len(rd) > 1:
                    skipped += 1
                    continue
                if len(rd) == 1:
                    if rd[0][1] != canon:  # the only reading is another unit: not what this case is about
                        skipped += 1
                        continue
                    expect = rd[0]
                    nontrivial += 1
                else:
                    expect = None
                    if vtag == "exact":
                        # a defined spelling without a reading can only be a harness error
                        raise AssertionError(("no reading for an exact spelling", string))
                n, bad = _check_entries(ureg, string, expect, arg, root_for(expect) if expect else None)
                evals += n
                for entry, msg in bad:
                    report(mode, entry, t, msg)
                if len(samples) < 2 and vtag != "exact" and expect is not None and ftag != "bare":
                    samples.append({"route": route, "registry_case_sensitive": cs_registry, "call": mode,
                                    "string": string, "expected": list(expect)})
        # offset unit spellings in a compound expression (ties part A to the delta clause)
        for s, canon, kind, is_off in spellings():
            if not is_off:
                continue
            for expr, a, want in ((f"{s}/meter", None, {"delta_" + canon: 1, "meter": -1}),
                                  (f"{s}/meter", False, {canon: 1, "meter": -1}),
                                  (f"{s}**2", True, {"delta_" + canon: 2}),
                                  (s, True, {canon: 1})):
                evals += 1
                nontrivial += 1
                st, val = _call(lambda: dict(ureg.parse_units(expr, as_delta=a)._units))
                if st != "ok" or val != want:
                    viols.append({"case": f"alias:{route}:{regmode}:delta:{expr}:as_delta={a}",
                                  "what": f"[{route}] parse_units({expr!r}, as_delta={a}) expected {want!r}, got {st}:{val!r}",
                                  "part": "A", "route": route, "regmode": regmode, "tier": tier})
        return {"evals": evals, "nontrivial": nontrivial, "skipped": skipped, "viols": viols, "samples": samples,
                "strings": len(strs)}
    finally:
        shutil.rmtree(tmp, ignore_errors=True)


# ------------------------------------------------------------------------------------------------
# Part B: as_delta
# ------------------------------------------------------------------------------------------------
# spelling -> (canonical name, is offset unit); written down from the bundled definitions' documentation
UNITS_B = {
    "degC": ("degree_Celsius", True), "celsius": ("degree_Celsius", True), "degree_Celsius": ("degree_Celsius", True),
    "degF": ("degree_Fahrenheit", True), "fahrenheit": ("degree_Fahrenheit", True),
    "degRe": ("degree_Reaumur", True),
    "kelvin": ("kelvin", False), "K": ("kelvin", False), "degR": ("degree_Rankine", False),
    "meter": ("meter", False), "m": ("meter", False), "km": ("kilometer", False),
    "J": ("joule", False), "kg": ("kilogram", False), "second": ("second", False),
}
QUICK_EXPRS = [
    ("degC", [("degC", 1)]), ("degF", [("degF", 1)]), ("celsius", [("celsius", 1)]),
    ("degC/meter", [("degC", 1), ("meter", -1)]), ("degC**2", [("degC", 2)]), ("1/degC", [("degC", -1)]),
    ("J/(kg*degC)", [("J", 1), ("kg", -1), ("degC", -1)]), ("degF*degC", [("degF", 1), ("degC", 1)]),
    ("kelvin/meter", [("kelvin", 1), ("meter", -1)]), ("kelvin", [("kelvin", 1)]), ("meter", [("meter", 1)]),
    ("degC*meter", [("degC", 1), ("meter", 1)]), ("meter/degF", [("meter", 1), ("degF", -1)]),
    ("degF**-1", [("degF", -1)]), ("degRe/km", [("degRe", 1), ("km", -1)]), ("degR/degC", [("degR", 1), ("degC", -1)]),
    ("celsius**3 / second", [("celsius", 3), ("second", -1)]), ("meter**-2 * fahrenheit", [("meter", -2), ("fahrenheit", 1)]),
    ("degC/meter/second", [("degC", 1), ("meter", -1), ("second", -1)]), ("K**2", [("K", 2)]),
]


def render(pairs, style):
    def one(u, e):
        return u if e == 1 else f"{u}**{e}"

    if style == "mul":
        return " * ".join(one(u, e) for u, e in pairs)
    num = [one(u, e) for u, e in pairs if e > 0]
    den = [one(u, -e) for u, e in pairs if e < 0]
    txt = "*".join(num) if num else "1"
    if not den:
        return txt
    if style == "div":
        return txt + "/" + (den[0] if len(den) == 1 else "(" + "*".join(den) + ")")
    return txt + "".join("/" + d for d in den)


def thorough_exprs(rng):
    pool = ["degC", "degF", "celsius", "degRe", "kelvin", "degR", "meter", "km", "J", "kg", "second"]
    exps = [1, -1, 2, -2, 3]
    out = list(QUICK_EXPRS)
    seen = {t for t, _ in out}

    def add(pairs):
        if len({UNITS_B[u][0] for u, _ in pairs}) != len(pairs):
            return
        for style in ("mul", "div", "divchain"):
            txt = render(pairs, style)
            if txt not in seen:
                seen.add(txt)
                out.append((txt, list(pairs)))

    for u in pool:
        for e in exps:
            add([(u, e)])
    for u, v in itertools.permutations(pool, 2):
        for e, f in itertools.product(exps, exps):
            add([(u, e), (v, f)])
    triples = list(itertools.permutations(pool, 3))
    for tri in rng.sample(triples, 150):
        add([(u, rng.choice(exps)) for u in tri])
    return out


def expected_container(pairs, default_as_delta, as_delta):
    eff = default_as_delta if as_delta is None else as_delta
    compound = len(pairs) > 1 or pairs[0][1] != 1
    out = {}
    for u, e in pairs:
        canon, off = UNITS_B[u]
        out[("delta_" + canon) if (eff and compound and off) else canon] = e
    return out


ENTRY_ARG = {
    "parse_units": lambda ureg, x, a: dict(ureg.parse_units(x, as_delta=a)._units),
    "parse_units_as_container": lambda ureg, x, a: dict(ureg.parse_units_as_container(x, as_delta=a)),
    "parse_units_positional": lambda ureg, x, a: dict(ureg.parse_units(x, a)._units),
}
ENTRY_NOARG = {
    "Unit": lambda ureg, x: dict(ureg.Unit(x)._units),
    "getattr": lambda ureg, x: dict(getattr(ureg, x)._units),
    "Quantity": lambda ureg, x: dict(ureg.Quantity(1, x)._units),
    "parse_units_noarg": lambda ureg, x: dict(ureg.parse_units(x)._units),
}


def run_delta(regkind, order, tier, seed, ureg):
    """regkind: 'T', 'F' (constructor value) or 'T>F', 'F>T' (attribute flipped after construction, after a warm-up
    pass).  order: (permutation of as_delta values, 'fwd'|'rev'|'shuf', 'outer'|'inner')"""
    logging.getLogger("pint").setLevel(logging.CRITICAL)
    exprs = QUICK_EXPRS if tier == "quick" else thorough_exprs(random.Random(f"{seed}:exprs"))
    perm, eorder, nest = order
    if eorder == "rev":
        exprs = exprs[::-1]
    elif eorder == "shuf":
        exprs = list(exprs)
        random.Random(f"{seed}:{order}").shuffle(exprs)
    dad = regkind[-1] == "T"
    if ">" in regkind:  # warm every cache under the constructor value, then flip the attribute
        for txt, _ in exprs:
            ureg.parse_units(txt)
        ureg.default_as_delta = dad
    steps = []
    if nest == "outer":
        for a in perm:
            for ex in exprs:
                steps.append((a, ex))
    else:
        for ex in exprs:
            for a in perm:
                steps.append((a, ex))
    evals = nontrivial = 0
    viols, samples = [], []
    otag = "".join({None: "N", True: "T", False: "F"}[a] for a in perm) + f"-{eorder}-{nest}"
    for a, (txt, pairs) in steps:
        calls = [(n, (lambda f=f: f(ureg, txt, a))) for n, f in ENTRY_ARG.items()]
        if a is None:
            calls += [(n, (lambda f=f: f(ureg, txt))) for n, f in ENTRY_NOARG.items()]
        want = expected_container(pairs, dad, a)
        nt = any(UNITS_B[u][1] for u, _ in pairs)
        for ename, f in calls:
            evals += 1
            nontrivial += nt
            st, val = _call(f)
            if st != "ok" or val != want:
                viols.append({"case": f"as_delta:{regkind}:{ename}:{a}:{txt}",
                              "what": f"default_as_delta={regkind}, {ename}({txt!r}, as_delta={a}) [call order {otag}]: "
                                      f"expected {want!r}, got {st}:{val!r}",
                              "part": "B", "regkind": regkind, "order": [list(perm), eorder, nest], "tier": tier})
            elif len(samples) < 2 and nt and len(pairs) > 1:
                samples.append({"default_as_delta": regkind, "entry": ename, "as_delta": a, "expr": txt, "container": val})
    return {"evals": evals, "nontrivial": nontrivial, "skipped": 0, "viols": viols, "samples": samples}


# ------------------------------------------------------------------------------------------------
_BASES = {}


def _bases():
    """unused default registries of this process, shared with forked children (copy on write)"""
    import pint

    if not _BASES:
        logging.getLogger("pint").setLevel(logging.CRITICAL)
        _BASES["cs"] = pint.UnitRegistry()
        _BASES["ci"] = pint.UnitRegistry(case_sensitive=False)
        _BASES["F"] = pint.UnitRegistry(default_as_delta=False)
    return _BASES


def _task(t):
    b = _bases()
    if t[0] == "A":
        _, route, regmode, tier, seed = t
        return t, run_route(route, regmode, tier, seed, b[regmode])
    _, regkind, order, tier, seed = t
    first = regkind[0]
    return t, run_delta(regkind, order, tier, seed, b["cs"] if first == "T" else b["F"])


def _tasks(tier, seed):
    ts = [("A", r, m, tier, seed) for r in ROUTES for m in REGMODES]
    perms = list(itertools.permutations([None, True, False]))
    if tier == "quick":
        orders = [(p, "fwd" if i % 2 == 0 else "rev", "outer" if i % 3 else "inner") for i, p in enumerate(perms)]
        kinds = ["T", "F", "T>F", "F>T"]
    else:
        orders = [(p, eo, nest) for p in perms for eo, nest in (("fwd", "outer"), ("rev", "inner"), ("shuf", "outer"))]
        kinds = ["T", "F", "T>F", "F>T"]
    ts += [("B", k, o, tier, seed) for k in kinds for o in orders]
    return ts


def _run_forked(tasks):
    """every task in its own forked child of this process (whose registries are never used)"""
    _bases()
    ctx = multiprocessing.get_context("fork")
    with ctx.Pool(min(16, len(tasks)), maxtasksperchild=1) as pool:
        return pool.map(_task, tasks, chunksize=1)


def run(tier="quick", seed=0, **kw):
    t0 = time.time()
    tasks = _tasks(tier, seed)
    results = _run_forked(tasks)
    evals = nontrivial = skipped = 0
    viols, samples, seen = [], [], set()
    first_order = next(t[2] for t in tasks if t[0] == "B")
    for t, r in results:
        evals += r["evals"]
        if t[0] == "A" or t[2] == first_order:  # the other call orders repeat the same cases
            nontrivial += r["nontrivial"]
        skipped += r["skipped"]
        for v in r["viols"]:
            if v["case"] not in seen:  # the same input failing in several call orders is one case
                seen.add(v["case"])
                viols.append(v)
        if len(samples) < 5:
            samples.extend(r["samples"][:1])
    nA = sum(1 for t in tasks if t[0] == "A")
    nB = len(tasks) - nA
    nstr = next(r["strings"] for t, r in results if t[0] == "A" and not t[1].startswith("ctor"))
    nexpr = len(QUICK_EXPRS if tier == "quick" else thorough_exprs(random.Random(f"{seed}:exprs")))
    return {
        "name": NAME,
        "bound": f"A: {len(ROUTES)} definition routes x 2 registry case modes = {nA} registries; {len(spellings())} defined "
                 f"spellings (name/symbol/inline alias/@alias) x bare|plural|prefix|prefix+plural x exact + "
                 f"{4 if tier == 'quick' else 8} case variants = {nstr} strings per default-registry route x 5-7 entry points "
                 f"x default / per-call case_sensitive; B: 4 default_as_delta settings (ctor T, F, attribute flipped) x "
                 f"as_delta in None/True/False x {nexpr} expressions x 3 (+4 without argument) entry points in "
                 f"{nB // 4} call orders each, every order on a registry never used before",
        "evaluations": evals,
        "distinct_nontrivial": nontrivial,
        "rule": "A: every string is enumerated; non-trivial = the string has exactly one reading by the declared tables "
                f"(then it must resolve to it; {skipped} ambiguous (string, mode) pairs skipped; strings without a "
                "reading must be refused). B: non-trivial = the expression contains an offset unit",
        "exhaustive": tier == "quick",
        "violations": viols[:MAX_LISTED],
        "violation_count": len(viols),
        "samples": samples[:5],
        "seconds": round(time.time() - t0, 1),
    }


def replay(data):
    """re-run the task the violation came from; True if its case id is not reported any more"""
    tier, seed = data.get("tier", "quick"), data.get("seed", 0)
    if data.get("part") == "A":
        tasks = [("A", data["route"], data["regmode"], tier, seed)]
    else:
        perm, eo, nest = data["order"]
        tasks = [("B", data["regkind"], (tuple(perm), eo, nest), tier, seed)]
    for _t, r in _run_forked(tasks):
        if any(v["case"] == data["case"] for v in r["viols"]):
            return False
    return True


if __name__ == "__main__":
    import argparse

    ap = argparse.ArgumentParser()
    ap.add_argument("--tier", default="quick")
    ap.add_argument("--seed", type=int, default=0)
    a = ap.parse_args()
    print(json.dumps(run(a.tier, a.seed), indent=1, default=str))
