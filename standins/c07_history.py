"""Bounded stand-in (C07), added after seeded change C07-4 was missed (a per-registry cache of the quantities built for unit-name
tokens: a one-token expression handed the cached object to the caller, whose in-place conversion then changed every later parse).

An expression string denotes a value; evaluating it may not depend on what was evaluated - and done to the results - before.
For every ordered pair of expressions (e1, e2) and every in-place operation applied to the first result, the second result in the
history-laden registry is compared (type of magnitude, magnitude, units) with a fresh registry's answer; results of two
evaluations are never the same object."""
from __future__ import annotations

import itertools

NAME = "c07_history"
EXPRS = ["meter", "3 meter", "kilometer", "degC", "20 degC", "second", "2 meter/second", "meter**2", "5", "inch", "3 inch + 2 meter", "Meter"]
MUTATIONS = [("ito", "kilometer"), ("ito", "inch"), ("ito", "kelvin"), ("ito_root_units", None), ("ito_base_units", None),
             ("imul", 1000), ("ito", "millisecond"), ("ito_reduced_units", None)]


def _mutate(q, how, arg):
    try:
        if how == "imul":
            q *= arg
        elif arg is None:
            getattr(q, how)()
        else:
            getattr(q, how)(arg)
    except Exception:  # noqa: BLE001  (an impossible conversion leaves the object alone; that is fine here)
        pass


def _show(r):
    if hasattr(r, "units"):
        return (type(r.magnitude).__name__, r.magnitude, str(r.units))
    return (type(r).__name__, r, "")


def _ev(ureg, e, cs):
    try:
        return ureg.parse_expression(e, case_sensitive=cs)
    except Exception as ex:  # noqa: BLE001
        return ("raised", type(ex).__name__)


def run(tier: str = "quick", seed: int = 0, **kw) -> dict:
    import pint

    viol, n, samples = [], 0, []
    for auto in (False, True):
        fresh = pint.UnitRegistry(autoconvert_offset_to_baseunit=auto)
        want = {(e, cs): _ev(fresh, e, cs) for e in EXPRS for cs in (True, False)}
        want = {k: (v if isinstance(v, tuple) else _show(v)) for k, v in want.items()}
        ureg = pint.UnitRegistry(autoconvert_offset_to_baseunit=auto)
        for cs in (True, False):
            for e1, (how, arg), e2 in itertools.product(EXPRS, MUTATIONS, EXPRS):
                r1 = _ev(ureg, e1, cs)
                if isinstance(r1, tuple):
                    continue
                if hasattr(r1, "units"):
                    _mutate(r1, how, arg)
                r2 = _ev(ureg, e2, cs)
                n += 1
                got = r2 if isinstance(r2, tuple) else _show(r2)
                case = f"history:auto={auto}:cs={cs}:{e1!r}.{how}({arg}) then {e2!r}"
                if got != want[(e2, cs)]:
                    viol.append({"case": case, "what": f"got {got}, a fresh registry gives {want[(e2, cs)]}"})
                    ureg = pint.UnitRegistry(autoconvert_offset_to_baseunit=auto)  # do not let one corruption cascade
                elif r2 is r1 and hasattr(r1, "units"):
                    viol.append({"case": "identity:" + case, "what": "two evaluations returned the same object"})
                elif len(samples) < 3 and e1 != e2:
                    samples.append(case)
    return {"name": NAME,
            "bound": f"{len(EXPRS)}^2 ordered expression pairs x {len(MUTATIONS)} in-place operations on the first result x case-sensitive on/off "
                     "x autoconvert_offset_to_baseunit on/off, one long-lived registry per mode against a fresh one",
            "evaluations": n, "distinct_nontrivial": n, "rule": "cross product", "exhaustive": True,
            "violations": viol[:25], "violation_count": len(viol), "samples": samples}


def replay(data: dict) -> bool:
    r = run("thorough")
    return all(v["case"] != data.get("case") for v in r["violations"])
