"""Bounded stand-in (C17), added after seeded change C17-4 was missed.

A function wrapped with ureg.wraps must receive the magnitude of each argument *converted to the declared unit* - also when
the argument comes in an offset or logarithmic unit of the same dimension (degC / degF handed to a `kelvin` parameter and the
other way round), as a positional, keyword or default argument.  Oracle: Quantity.to(declared).magnitude (the conversion
itself is C06's subject); incompatible arguments must raise DimensionalityError."""
from __future__ import annotations

import itertools

NAME = "c17_offset"
TEMPS = ["kelvin", "degC", "degF", "degR", "millikelvin"]
VALUES = [0.0, 20.0, -40.0, 273.15]
OTHER = [("meter", ["meter", "foot", "kilometer"]), ("decibelmilliwatt", ["milliwatt", "watt"]), ("watt", ["decibelmilliwatt"])]


def _run(tier, seed):
    import pint

    ureg = pint.UnitRegistry(autoconvert_offset_to_baseunit=True)
    Q = ureg.Quantity
    viol, n, samples = [], 0, []
    combos = [(d, a) for d in TEMPS for a in TEMPS] + [(d, a) for d, args in OTHER for a in args]
    for (declared, argunit), value, form, strict in itertools.product(combos, VALUES, ("positional", "keyword", "default", "second"), (True, False)):
        if "decibel" in argunit and value <= -40:
            pass
        seen = []
        q = Q(value if "watt" not in argunit or "decibel" in argunit else abs(value) + 1.0, argunit)
        try:
            want = q.to(declared).magnitude
        except Exception:  # noqa: BLE001
            continue  # the conversion itself is refused (C06); nothing to hand over
        if form == "default":
            def f(x=q):
                seen.append(x)
                return x
            w = ureg.wraps(None, (declared,), strict)(f)
            call = lambda: w()  # noqa: E731
        elif form == "second":
            def f(a, x):
                seen.append(x)
                return x
            w = ureg.wraps(None, (None, declared), strict)(f)
            call = lambda: w(1, q)  # noqa: E731
        else:
            def f(x):
                seen.append(x)
                return x
            w = ureg.wraps(None, (declared,), strict)(f)
            call = (lambda: w(q)) if form == "positional" else (lambda: w(x=q))  # noqa: E731
        case = f"wraps-offset:{declared}<-{argunit}:{value}:{form}:strict={strict}"
        n += 1
        # called twice: a per-parameter memo must not change what the second call receives
        for attempt in (1, 2):
            del seen[:]
            call()
            got = seen[0]
            if not (isinstance(got, (int, float)) and abs(got - want) <= 1e-9 * max(1.0, abs(want))):
                viol.append({"case": case, "what": f"call {attempt}: the function received {got!r}, Quantity.to({declared!r}).magnitude is {want!r}"})
                break
        else:
            if len(samples) < 4:
                samples.append(case)
    # incompatible dimension must raise, offset or not
    for declared, argunit in (("kelvin", "meter"), ("degC", "second"), ("meter", "degC")):
        n += 1
        w = ureg.wraps(None, (declared,))(lambda x: x)
        try:
            r = w(Q(1.0, argunit))
            viol.append({"case": f"wraps-offset-incompatible:{declared}<-{argunit}", "what": f"no DimensionalityError, returned {r!r}"})
        except pint.DimensionalityError:
            pass
    return viol, n, samples


def run(tier: str = "quick", seed: int = 0, **kw) -> dict:
    viol, n, samples = _run(tier, seed)
    return {"name": NAME, "bound": f"{len(TEMPS)}^2 temperature (declared, argument) unit pairs + log/linear power pairs x {len(VALUES)} values x "
                                   "4 argument forms x strict on/off, each wrapped function called twice; 3 incompatible pairs",
            "evaluations": n, "distinct_nontrivial": n, "rule": "cross product; non-trivial = declared and argument unit differ or one is non-multiplicative",
            "exhaustive": True, "violations": viol[:25], "violation_count": len(viol), "samples": samples}


def replay(data: dict) -> bool:
    viol, _, _ = _run("thorough", 0)
    return all(v["case"] != data.get("case") for v in viol)
