"""Bounded stand-in (C02 / C01 / C13): conversions answered from a WARM conversion-factor cache.

In one registry (exact Fraction arithmetic) families of unit pairs that differ only in small exponents
({a: e1, b: e2} for e1, e2 in -3..3) are converted one after the other, in several orders, and every
answer is compared with the exact ratio of the factors computed by the independent reference (ref.Ref).
A memo keyed by anything coarser than the pair of unit containers (e.g. by hashes: in CPython
hash(-1) == hash(-2)) makes a later conversion reuse an earlier pair's factor -- or skip the
dimensionality check."""
from __future__ import annotations

import itertools
import json
import random
from fractions import Fraction

NAME = "c02_warmcache"
BASES = [("meter", "kilometer"), ("second", "hour"), ("minute", "second"), ("gram", "pound"), ("inch", "foot")]
EXPS = [-3, -2, -1, 1, 2, 3]


def _cases(tier, seed):
    rnd = random.Random(seed)
    fams = []
    for (a1, b1), (a2, b2) in itertools.combinations(BASES, 2):
        fams.append(((a1, b1), (a2, b2)))
    if tier == "quick":
        fams = fams[:6]
    return fams, rnd


def _check(ureg, ref, src, dst):
    import pint

    q = ureg.Quantity(Fraction(7, 3), ureg.UnitsContainer(src))
    want_ok = ref.dim(src) == ref.dim(dst)
    try:
        got = q.to(ureg.UnitsContainer(dst)).magnitude
    except pint.DimensionalityError:
        return None if not want_ok else "raised DimensionalityError for compatible units"
    if not want_ok:
        return f"returned {got!r} for units of different dimensionality"
    want = Fraction(7, 3) * ref.factor(src) / ref.factor(dst)
    return None if got == want else f"returned {got!r}, exact value {want!r}"


def run(tier="quick", seed=0, **kw):
    import pint

    from .ref import Ref

    fams, rnd = _cases(tier, seed)
    evals, viols, samples = 0, [], []
    for (a1, b1), (a2, b2) in fams:
        ureg = pint.UnitRegistry(non_int_type=Fraction)  # one registry per family: its cache warms up
        ref = Ref(ureg)
        pairs = []
        for e1, e2 in itertools.product(EXPS, EXPS):
            pairs.append(({a1: e1, a2: e2}, {b1: e1, b2: e2}))
            pairs.append(({a1: e1}, {b1: e1}))
        # also incompatible targets that collide under coarse keys (exponent -1 vs -2)
        pairs += [({a1: -1, a2: 1}, {b1: -2, b2: 1}), ({a1: 1, a2: -2}, {b1: 1, b2: -1})]
        order = list(range(len(pairs)))
        for rep in range(2):
            rnd.shuffle(order)
            for i in order:
                src, dst = pairs[i]
                evals += 1
                msg = _check(ureg, ref, src, dst)
                if msg:
                    cid = "warm:%s->%s" % (json.dumps(src, sort_keys=True), json.dumps(dst, sort_keys=True))
                    if not any(v["case"] == cid for v in viols):
                        viols.append({"case": cid, "what": f"in a registry whose cache is warm, {src} -> {dst} {msg}",
                                      "src": src, "dst": dst, "family": [[a1, b1], [a2, b2]]})
        if len(samples) < 3:
            samples.append({"family": [[a1, b1], [a2, b2]], "pairs": len(pairs)})
    return {"name": NAME, "bound": f"{len(fams)} families of unit pairs x exponents -3..3 x 2 shuffled passes in one warm registry each",
            "evaluations": evals, "distinct_nontrivial": evals // 2,
            "rule": "every (source, target) container pair of a family is converted twice in shuffled order in the same registry; "
                    "non-trivial = the pair is not the first one converted in that registry",
            "exhaustive": False, "violations": viols[:25], "violation_count": len(viols), "samples": samples}


def replay(data):
    import pint

    from .ref import Ref

    ureg = pint.UnitRegistry(non_int_type=Fraction)
    ref = Ref(ureg)
    (a1, b1), (a2, b2) = data["family"]
    for e1, e2 in itertools.product(EXPS, EXPS):
        _check(ureg, ref, {a1: e1, a2: e2}, {b1: e1, b2: e2})
    return _check(ureg, ref, data["src"], data["dst"]) is None


if __name__ == "__main__":
    import sys

    print(json.dumps(run(tier=sys.argv[sys.argv.index("--tier") + 1] if "--tier" in sys.argv else "quick"), indent=1, default=str))
