"""Bounded stand-in for property C10: "Definition files mean what they say, independent of order
and loading path".

Four parts (all against the real pint in /repo):

 1. bundled  : an INDEPENDENT reader of the documented definition-file grammar (this file, classes
               `Defs`/`Model`; it does not import or call pint's parser) interprets
               pint/default_en.txt + pint/constants_en.txt and every name / alias / symbol / scale /
               modifier / dimension / group / system / context item is compared with the registry
               pint builds from the same files.
 2. gen      : small generated definition sets (random DAG of <= 8 units, 2 prefixes, aliases, 2 base
               dimensions, 1 derived dimension, 1 group, 1 system, 1 context with a redefinition);
               every permutation of the permutable lines (sampled beyond the threshold) x loading
               paths (file, line list, late load_definitions, define(), cold and warm cache_folder)
               x numeric types must reproduce the oracle computed by the independent reader.
 3. illformed: a fixed catalogue of ill-formed inputs must raise at load or at the latest on use.
 4. numtype  : in Decimal / Fraction registries no stored scale / modifier / prefix value is a float.
"""
from __future__ import annotations

import itertools
import json
import logging
import math
import multiprocessing
import os
import random
import re
import shutil
import sys
import tempfile
import time
import warnings
from decimal import Decimal
from fractions import Fraction

NAME = "c10_defs"
_PINT_DIR = None  # resolved lazily (directory that holds default_en.txt)


# =====================================================================================================
# Part 0: the independent reader (written from docs/advanced/defining.rst, docs/user/contexts.rst,
# docs/user/systems.rst and the header comment of default_en.txt)
# =====================================================================================================

_TOK = re.compile(
    r"\s*(?:(?P<num>(?:\d+\.?\d*|\.\d+)(?:[eE][+-]?\d+)?)"
    r"|(?P<dim>\[[^\]]*\])"
    r"|(?P<op>\*\*|[*/+\-()^])"
    r"|(?P<name>[^\s*/+\-()^\[\]]+))"
)


def fpow(base, e):
    """base ** e, exact (Fraction) whenever the result is rational, else float."""
    e = Fraction(e)
    if isinstance(base, float):
        return base ** float(e)
    if e.denominator == 1:
        return base ** e.numerator
    if base < 0:
        raise ValueError("fractional power of a negative number")
    b = base ** e.numerator  # Fraction
    q = e.denominator

    def iroot(n):
        lo, hi = 0, 1 << (n.bit_length() // q + 1)
        while lo < hi:  # smallest lo with lo**q >= n
            mid = (lo + hi) // 2
            if mid ** q < n:
                lo = mid + 1
            else:
                hi = mid
        return lo if lo ** q == n else None

    rn, rd = iroot(b.numerator), iroot(b.denominator)
    if rn is not None and rd is not None:
        return Fraction(rn, rd)
    return float(base) ** float(e)


class Val:
    """number * product of names**exponent (names unresolved: unit words or [dimension] words)."""

    __slots__ = ("num", "units")

    def __init__(self, num=Fraction(1), units=None):
        self.num = num
        self.units = units or {}

    def mul(self, other, sign=1):
        u = dict(self.units)
        for k, e in other.units.items():
            u[k] = u.get(k, Fraction(0)) + sign * e
            if u[k] == 0:
                del u[k]
        return Val(self.num * other.num if sign == 1 else self.num / other.num, u)

    def pow(self, e):
        if e.units:
            raise ValueError("exponent with units")
        ex = e.num
        if isinstance(ex, float):
            raise ValueError("irrational exponent")
        return Val(fpow(self.num, ex), {k: v * ex for k, v in self.units.items()})

    def add(self, other, sign):
        if self.units or other.units:
            raise ValueError("sum of units")
        return Val(self.num + sign * other.num)


def evaluate(text):
    """Tiny arithmetic evaluator: numbers, words, [dims], * / ** ^ + - ( ) and juxtaposition
    (implicit multiplication, same precedence as *).  Returns a Val."""
    toks, pos = [], 0
    text = text.strip()
    while pos < len(text):
        m = _TOK.match(text, pos)
        if not m or m.end() == pos:
            raise ValueError("cannot tokenize %r at %d" % (text, pos))
        toks.append((m.lastgroup, m.group(m.lastgroup)))
        pos = m.end()
    i = [0]

    def peek():
        return toks[i[0]] if i[0] < len(toks) else (None, None)

    def expr():
        v = term()
        while peek() in (("op", "+"), ("op", "-")):
            s = 1 if peek()[1] == "+" else -1
            i[0] += 1
            v = v.add(term(), s)
        return v

    def term():
        v = unary()
        while True:
            k, t = peek()
            if k == "op" and t in ("*", "/"):
                i[0] += 1
                v = v.mul(unary(), 1 if t == "*" else -1)
            elif k in ("num", "name", "dim") or (k, t) == ("op", "("):
                v = v.mul(unary(), 1)
            else:
                return v

    def unary():
        k, t = peek()
        if k == "op" and t in "+-":
            i[0] += 1
            v = unary()
            return Val(-v.num, v.units) if t == "-" else v
        return power()

    def power():
        b = atom()
        k, t = peek()
        if k == "op" and t in ("**", "^"):
            i[0] += 1
            return b.pow(unary())
        return b

    def atom():
        k, t = peek()
        i[0] += 1
        if k == "num":
            return Val(Fraction(t))
        if k in ("name", "dim"):
            return Val(Fraction(1), {t: Fraction(1)})
        if (k, t) == ("op", "("):
            v = expr()
            if peek() != ("op", ")"):
                raise ValueError("missing )")
            i[0] += 1
            return v
        raise ValueError("unexpected token %r in %r" % (t, text))

    if not toks:
        raise ValueError("empty expression")
    v = expr()
    if i[0] != len(toks):
        raise ValueError("trailing tokens in %r" % text)
    return v


def _strip(line):
    j = line.find("#")
    return (line if j < 0 else line[:j]).strip()


class Defs:
    """Raw content of definition text, as read by the independent reader."""

    def __init__(self):
        self.prefixes = {}   # name -> dict(expr, symbol, aliases)
        self.units = {}      # name -> dict(expr, symbol, aliases, mods, group)
        self.dims = {}       # '[x]' -> expr
        self.alias_lines = []  # (target spelling, [aliases])
        self.defaults = {}
        self.groups = {}     # name -> dict(using=[...], units=[...])
        self.systems = {}    # name -> dict(using=[...], rules=[(new, old|None)])
        self.contexts = {}   # name -> dict(aliases, defaults{n: expr}, rules[(src,dst,expr)], redefs[(name, expr)])
        self.dup = []        # names defined twice

    # ---- entry points
    def read_file(self, path):
        with open(path, encoding="utf-8") as fh:
            self.read_lines(fh.read().split("\n"), os.path.dirname(path))
        return self

    def read_lines(self, lines, basedir=None):
        it = iter(lines)
        for raw in it:
            line = _strip(raw)
            if not line:
                continue
            if line.startswith("@import"):
                self.read_file(os.path.join(basedir, line[len("@import"):].strip()))
            elif line.startswith("@alias"):
                f = [x.strip() for x in line[len("@alias"):].split("=")]
                self.alias_lines.append((f[0], f[1:]))
            elif line.startswith("@"):
                head = re.match(r"@(\w+)", line).group(1)
                body = []
                for raw2 in it:
                    l2 = _strip(raw2)
                    if l2 == "@end":
                        break
                    if l2:
                        body.append(l2)
                else:
                    raise ValueError("unterminated block " + line)
                getattr(self, "_block_" + head)(line, body)
            else:
                self._plain(line, None)
        return self

    # ---- line kinds
    def _plain(self, line, group):
        f = [x.strip() for x in line.split("=")]
        name = f[0]
        if name.endswith("-"):
            if name[:-1] in self.prefixes:
                self.dup.append(name)
            sym = f[2].rstrip("-") if len(f) > 2 and f[2] != "_" else None
            self.prefixes[name[:-1]] = dict(expr=f[1], symbol=sym, aliases=[a.rstrip("-") for a in f[3:] if a != "_"])
        elif name.startswith("["):
            if name in self.dims:
                self.dup.append(name)
            self.dims[name] = "=".join(f[1:])
        else:
            parts = [p.strip() for p in f[1].split(";")]
            mods = {}
            for p in parts[1:]:
                k, v = p.split(":")
                mods[k.strip()] = v.strip()
            if name in self.units:
                self.dup.append(name)
            self.units[name] = dict(expr=parts[0], mods=mods, group=group,
                                    symbol=f[2] if len(f) > 2 and f[2] != "_" else None,
                                    aliases=[a for a in f[3:] if a != "_"])
            if group is not None:
                self.groups[group]["units"].append(name)

    @staticmethod
    def _using(rest):
        m = re.match(r"^(\S+)(?:\s+using\s+(.*))?$", rest.strip())
        return m.group(1), [g.strip() for g in (m.group(2) or "").split(",") if g.strip()]

    def _block_defaults(self, head, body):
        for l in body:
            k, v = l.split("=")
            self.defaults[k.strip()] = v.strip()

    def _block_group(self, head, body):
        name, using = self._using(head[len("@group"):])
        self.groups[name] = dict(using=using, units=[])
        for l in body:
            self._plain(l, name)

    def _block_system(self, head, body):
        name, using = self._using(head[len("@system"):])
        rules = []
        for l in body:
            if ":" in l:
                new, old = [x.strip() for x in l.split(":")]
                rules.append((new, old))
            else:
                rules.append((l, None))
        self.systems[name] = dict(using=using, rules=rules)

    def _block_context(self, head, body):
        m = re.match(r"^@context\s*(?:\((.*)\))?\s*(.*)$", head)
        names = [x.strip() for x in m.group(2).split("=")]
        defaults = {}
        for kv in (m.group(1) or "").split(","):
            if kv.strip():
                k, v = kv.split("=")
                defaults[k.strip()] = v.strip()
        rules, redefs = [], []
        for l in body:
            if "->" in l:
                lhs, ex = l.split(":", 1)
                if "<->" in lhs:
                    a, b = [x.strip() for x in lhs.split("<->")]
                    rules += [(a, b, ex.strip()), (b, a, ex.strip())]
                else:
                    a, b = [x.strip() for x in lhs.split("->")]
                    rules.append((a, b, ex.strip()))
            else:
                n, ex = [x.strip() for x in l.split("=", 1)]
                redefs.append((n, ex))
        self.contexts[names[0]] = dict(aliases=names[1:], defaults=defaults, rules=rules, redefs=redefs)


class Model:
    """Meaning of a Defs: spelling tables, exact scales, root units, dimensionalities."""

    def __init__(self, defs):
        self.d = defs
        self.collisions = []
        self.unit_spell, self.prefix_spell = {}, {}
        for n, u in defs.units.items():
            for s in [n] + ([u["symbol"]] if u["symbol"] else []) + u["aliases"]:
                self._put(self.unit_spell, s, n)
        for tgt, als in defs.alias_lines:
            for a in als:
                self._put(self.unit_spell, a, self.unit_spell[tgt])
        for n, p in defs.prefixes.items():
            for s in [n] + ([p["symbol"]] if p["symbol"] else []) + p["aliases"]:
                self._put(self.prefix_spell, s, n)
        self.uval = {n: evaluate(u["expr"]) for n, u in defs.units.items()}
        self.pval = {}
        for n, p in defs.prefixes.items():
            v = evaluate(p["expr"])
            assert not v.units, "prefix with units: " + n
            self.pval[n] = v.num
        self.dval = {n: evaluate(e) for n, e in defs.dims.items()}
        self.base_dims = set()
        for n, v in self.uval.items():
            if self.is_base(n):
                self.base_dims |= {k for k in v.units if k != "[]" and k not in self.dval}
        for v in self.dval.values():
            self.base_dims |= {k for k in v.units if k != "[]" and k not in self.dval}
        self._root, self._frac = {}, {}
        self.ambiguous = []

    def _put(self, table, spelling, name):
        if spelling in table and table[spelling] != name:
            self.collisions.append((spelling, table[spelling], name))
        table[spelling] = name

    def is_base(self, n):
        ks = list(self.uval[n].units)
        return bool(ks) and all(k.startswith("[") for k in ks)

    def resolve(self, word):
        """word -> (canonical prefix or None, canonical unit); exact > prefixed > plural."""
        for w in (word, word[:-1] if word.endswith("s") and len(word) > 1 else None):
            if w is None:
                continue
            if w in self.unit_spell:
                return None, self.unit_spell[w]
            cands = {(self.prefix_spell[p], self.unit_spell[w[len(p):]])
                     for p in self.prefix_spell if w.startswith(p) and w[len(p):] in self.unit_spell}
            if len(cands) > 1:
                self.ambiguous.append((word, sorted(cands)))
            if cands:
                return sorted(cands)[0]
        raise KeyError(word)

    # ---- dimensions
    def dim_expand(self, val, stack=()):
        """Val over [dim] words -> {base dim: exp}"""
        out = {}
        for k, e in val.units.items():
            if k == "[]":
                continue
            if k in self.dval:
                if k in stack:
                    raise RecursionError("dimension cycle " + k)
                for kk, ee in self.dim_expand(self.dval[k], stack + (k,)).items():
                    out[kk] = out.get(kk, Fraction(0)) + ee * e
            else:
                out[k] = out.get(k, Fraction(0)) + e
        return {k: v for k, v in out.items() if v != 0}

    # ---- units
    def reduce(self, val, stack=()):
        """Val over unit words -> (factor, {root unit: exp}, {base dim: exp})"""
        f, roots, dims = val.num, {}, {}
        frac = False
        for w, e in val.units.items():
            p, u = self.resolve(w)
            uf, ur, ud = self.root(u, stack)
            frac = frac or e.denominator != 1 or self._frac[u]
            if p is not None:
                uf = uf * self.pval[p]
            f = f * fpow(uf, e)
            for k, x in ur.items():
                roots[k] = roots.get(k, Fraction(0)) + x * e
            for k, x in ud.items():
                dims[k] = dims.get(k, Fraction(0)) + x * e
        self._lastfrac = frac
        return f, {k: v for k, v in roots.items() if v != 0}, {k: v for k, v in dims.items() if v != 0}

    def root(self, n, stack=()):
        if n in self._root:
            return self._root[n]
        if n in stack:
            raise RecursionError("unit cycle " + n)
        v = self.uval[n]
        if self.is_base(n):
            r = (Fraction(1), {n: Fraction(1)}, self.dim_expand(v))
            self._frac[n] = False
        else:
            r = self.reduce(v, stack + (n,))
            self._frac[n] = self._lastfrac or isinstance(v.num, float)
        self._root[n] = r
        return r

    def mods(self, n):
        out = {}
        for k, ex in self.d.units[n]["mods"].items():
            v = evaluate(ex)
            assert not v.units
            out[k] = v.num
        return out

    def group_members(self, g, seen=()):
        if g in seen:
            raise RecursionError(g)
        m = set(self.d.groups[g]["units"])
        for h in self.d.groups[g]["using"]:
            if h in self.d.groups:
                m |= self.group_members(h, seen + (g,))
        return m


# =====================================================================================================
# helpers shared by the parts
# =====================================================================================================

def _pint():
    import pint
    global _PINT_DIR
    if _PINT_DIR is None:
        _PINT_DIR = os.path.dirname(os.path.abspath(pint.__file__))
    return pint


def _fr(x):
    if isinstance(x, Fraction):
        return x
    if isinstance(x, (int, Decimal)):
        return Fraction(x)
    if isinstance(x, float):
        return Fraction(x)
    return Fraction(str(x))


def _fdict(uc):
    return {k: _fr(v) for k, v in dict(uc).items() if v != 0}


def _close(a, b, tol):
    """a (observed, any numeric) vs b (expected, Fraction or float)"""
    if tol == 0 and isinstance(b, Fraction):  # exact registry, rational expectation: no float may appear
        return isinstance(a, (int, Fraction)) and not isinstance(a, bool) and Fraction(a) == b
    fa, fb = float(a), float(b)
    if fb == 0:
        return abs(fa) <= (tol or 1e-12)
    if tol and tol < 1e-15:  # Decimal: compare exactly in Fractions
        return abs(_fr(a) - _fr(b)) <= abs(_fr(b)) * Fraction(tol)
    return abs(fa - fb) <= abs(fb) * (tol or 1e-9)


class _Collector:
    def __init__(self):
        self.by_case = {}
        self.order = []
        self.occ = 0
        self.evals = 0

    def add(self, case, what, **data):
        self.occ += 1
        if case in self.by_case:
            self.by_case[case]["occurrences"] += 1
            return
        d = {"case": case, "what": what, "occurrences": 1}
        d.update(data)
        self.by_case[case] = d
        self.order.append(case)

    def merge(self, other_list, evals):
        self.evals += evals
        for d in other_list:
            self.occ += d["occurrences"]
            if d["case"] in self.by_case:
                self.by_case[d["case"]]["occurrences"] += d["occurrences"]
            else:
                self.by_case[d["case"]] = d
                self.order.append(d["case"])

    def list(self):
        return [self.by_case[c] for c in self.order]


class _quiet:
    def __enter__(self):
        self.lg = logging.getLogger("pint")
        self.old = self.lg.level
        self.lg.setLevel(logging.CRITICAL)
        self.w = warnings.catch_warnings()
        self.w.__enter__()
        warnings.simplefilter("ignore")

    def __exit__(self, *a):
        self.w.__exit__(*a)
        self.lg.setLevel(self.old)


# =====================================================================================================
# Part 1: bundled files
# =====================================================================================================

def check_bundled(col, only=None):
    pint = _pint()
    defs = Defs().read_file(os.path.join(_PINT_DIR, "default_en.txt"))
    mdl = Model(defs)
    with _quiet():
        ureg = pint.UnitRegistry(non_int_type=Fraction)
    stats = dict(units=len(defs.units), prefixes=len(defs.prefixes), derived_dims=len(defs.dims),
                 groups=len(defs.groups), systems=len(defs.systems), contexts=len(defs.contexts),
                 unit_spellings=len(mdl.unit_spell), prefix_spellings=len(mdl.prefix_spell),
                 inexact=0, log_units=0, float_via_fractional_power=0, collisions=len(mdl.collisions), dup=len(defs.dup))
    nontrivial = 0

    def bad(case, what, **data):
        if only is None or case == only:
            col.add("bundled:" + case, what, part="bundled", **data)

    # --- prefixes
    for s, n in mdl.prefix_spell.items():
        col.evals += 1
        nontrivial += 1
        pd = ureg._prefixes.get(s)
        if pd is None or pd.name != n:
            bad("prefix-spelling:" + s, "prefix spelling %r -> %r, file says %r" % (s, getattr(pd, "name", None), n))
        elif _fr(pd.value) != mdl.pval[n]:
            bad("prefix-value:" + s, "prefix %r value %r, file says %s" % (s, pd.value, mdl.pval[n]))
        elif pd.symbol != (defs.prefixes[n]["symbol"] or n):
            bad("prefix-symbol:" + n, "prefix %r symbol %r, file says %r" % (n, pd.symbol, defs.prefixes[n]["symbol"]))
    extra = set(ureg._prefixes) - set(mdl.prefix_spell) - {""}
    col.evals += 1
    if extra:
        bad("prefix-extra", "registry has prefix spellings not in the files: %r" % sorted(extra))

    # --- unit spellings
    for s, n in mdl.unit_spell.items():
        col.evals += 1
        nontrivial += 1
        try:
            got = ureg.get_name(s)
        except Exception as e:  # noqa
            got = "%s" % type(e).__name__
        ud = ureg._units.get(s)
        if got != n or ud is None or ud.name != n:
            bad("unit-spelling:" + s, "spelling %r -> get_name %r / table %r, file says %r"
                % (s, got, getattr(ud, "name", None), n))
    # spellings only pint has: must be prefix+unit (lazy) or delta_ forms of non-multiplicative units
    for s, ud in list(ureg._units.items()):
        if s in mdl.unit_spell:
            continue
        col.evals += 1
        ok = False
        for pre in ("delta_", "Δ"):
            if s.startswith(pre) and s[len(pre):] in mdl.unit_spell:
                base = mdl.unit_spell[s[len(pre):]]
                ok = bool(defs.units[base]["mods"]) and ud.name == "delta_" + base
        if not ok:
            try:
                p, u = mdl.resolve(s)
                ok = p is not None and ud.name == p + u and _fr(ud.converter.scale) == mdl.pval[p] \
                    and _fdict(ud.reference) == {u: 1}
            except KeyError:
                ok = False
        if not ok:
            bad("unit-extra:" + s, "registry spelling %r (-> %r) has no counterpart in the files" % (s, ud.name))

    # --- each unit: symbol, modifiers, written scale, root factor, root units, dimensionality
    samples = []
    for n, u in defs.units.items():
        nontrivial += 1
        ud = ureg._units[n]
        col.evals += 1
        if ureg.get_symbol(n) != (u["symbol"] or n):
            bad("symbol:" + n, "symbol of %s is %r, file says %r" % (n, ureg.get_symbol(n), u["symbol"]))
        mods = mdl.mods(n)
        if mods.get("offset") == 0:  # `; offset: 0` means "no offset": a plain multiplicative unit
            del mods["offset"]
        col.evals += 1
        gotmods = {k: _fr(getattr(ud.converter, k)) for k in ("offset", "logbase", "logfactor") if hasattr(ud.converter, k)}
        if gotmods != mods:
            bad("modifiers:" + n, "modifiers of %s are %r, file says %r" % (n, gotmods, mods))
        wv = mdl.uval[n]
        col.evals += 1
        if isinstance(wv.num, float):
            if not _close(ud.converter.scale, wv.num, 1e-12):
                bad("scale:" + n, "scale %r vs written %r" % (ud.converter.scale, wv.num))
        elif _fr(ud.converter.scale) != wv.num:
            bad("scale:" + n, "stored scale %r, written %s" % (ud.converter.scale, wv.num))
        ef, er, ed = mdl.root(n)
        col.evals += 1
        gd = _fdict(ureg.get_dimensionality(n))
        if gd != ed:
            bad("dimensionality:" + n, "get_dimensionality(%s)=%r, file says %r" % (n, gd, ed))
        col.evals += 1
        gf, gu = ureg.get_root_units(n)
        if _fdict(gu._units) != er:
            bad("root-units:" + n, "root units of %s are %r, file says %r" % (n, _fdict(gu._units), er))
        if "logbase" in mods:
            stats["log_units"] += 1  # get_root_units ignores the scale of log units; scale compared above
        elif isinstance(ef, float):
            stats["inexact"] += 1
            if not _close(gf, ef, 1e-12):
                bad("root-factor:" + n, "root factor %r vs %r (irrational, approx)" % (gf, ef))
        elif isinstance(gf, float) and mdl._frac[n]:
            stats["float_via_fractional_power"] += 1  # rational value reached through x ** (p/q): float in pint
            if not _close(gf, float(ef), 1e-12):
                bad("root-factor:" + n, "root factor %r vs %s (fractional powers, approx)" % (gf, ef))
        elif isinstance(gf, float) or _fr(gf) != ef:
            bad("root-factor:" + n, "root factor of %s is %r, file says exactly %s" % (n, gf, ef))
        if "offset" in mods and mods["offset"] != 0:
            col.evals += 1
            q0 = ureg.Quantity(Fraction(0), n).to_root_units().magnitude
            rf = mdl.reduce(wv)[0] / wv.num if wv.num else 1  # factor of the reference alone
            if _fr(q0) != mods["offset"] * rf:
                bad("offset-effect:" + n, "Q(0,%s) in root units = %r, file says %s" % (n, q0, mods["offset"] * rf))
        if len(samples) < 3 and len(wv.units) >= 2:
            samples.append({"part": "bundled", "unit": n, "line": "%s = %s" % (n, u["expr"]),
                            "root_factor": str(ef), "root_units": {k: str(v) for k, v in er.items()}})

    # --- dimensions
    col.evals += 1
    have = set(ureg._dimensions) - {"[]"}  # `[]` is the documented spelling of "dimensionless"
    want = set(defs.dims) | mdl.base_dims
    if have != want:
        bad("dimension-set", "dimension names differ: only registry %r, only files %r"
            % (sorted(have - want), sorted(want - have)))
    for dn in defs.dims:
        col.evals += 1
        nontrivial += 1
        exp = mdl.dim_expand(Val(Fraction(1), {dn: Fraction(1)}))
        got = _fdict(ureg.get_dimensionality(dn))
        if got != exp:
            bad("derived-dimension:" + dn, "%s -> %r, file says %r" % (dn, got, exp))

    # --- defaults, groups, systems
    col.evals += 1
    if dict(ureg._defaults) != defs.defaults or ureg.default_system != defs.defaults.get("system"):
        bad("defaults", "defaults %r / default_system %r, file says %r" % (ureg._defaults, ureg.default_system, defs.defaults))
    col.evals += 1
    if set(ureg._groups) - {"root", defs.defaults.get("group")} != set(defs.groups):
        bad("group-set", "groups %r, file says %r" % (sorted(ureg._groups), sorted(defs.groups)))
    for g in defs.groups:
        col.evals += 1
        nontrivial += 1
        if set(ureg.get_group(g).members) != mdl.group_members(g):
            bad("group-members:" + g, "members of %s differ: %r" % (g, sorted(set(ureg.get_group(g).members) ^ mdl.group_members(g))))
    col.evals += 2
    if set(ureg.get_group("root").members) != set(defs.units):
        bad("group-members:root", "root group != all declared units: %r" % sorted(set(ureg.get_group("root").members) ^ set(defs.units)))
    grouped = set().union(*[set(g["units"]) for g in defs.groups.values()])
    dg = defs.defaults.get("group")
    if dg and set(ureg.get_group(dg).members) != set(defs.units) - grouped:
        bad("group-members:" + dg, "default group != units outside every group")
    col.evals += 1
    if set(ureg._systems) != set(defs.systems):
        bad("system-set", "systems %r, file says %r" % (sorted(ureg._systems), sorted(defs.systems)))
    for s, sd in defs.systems.items():
        col.evals += 2
        nontrivial += 1
        so = ureg.get_system(s)
        exp = {}
        for new, old in sd["rules"]:
            p, cu = mdl.resolve(new)
            newname = (p or "") + cu
            if old is None:
                roots = mdl.reduce(Val(Fraction(1), {new: Fraction(1)}))[1]
                assert len(roots) == 1, (s, new, roots)
                old = next(iter(roots))
            exp[mdl.resolve(old)[1]] = newname
        got = {k: sorted(v) for k, v in so.base_units.items()}
        if set(got) != set(exp) or any(exp[k] not in got[k] for k in exp):
            bad("system-rules:" + s, "base_units of %s: %r, file says %r" % (s, got, exp))
        em = set() if sd["using"] else set(defs.units)  # a system without `using` spans every unit (root group)
        for g in sd["using"]:
            em |= mdl.group_members(g) if g in defs.groups else ((set(defs.units) - grouped) if g == dg else set())
        if set(so.members) != em:
            bad("system-members:" + s, "members of system %s differ: %r" % (s, sorted(set(so.members) ^ em)[:8]))

    # --- contexts
    col.evals += 1
    allnames = set()
    for c, cd in defs.contexts.items():
        allnames |= {c, *cd["aliases"]}
    if set(ureg._contexts) != allnames:
        bad("context-set", "contexts %r, file says %r" % (sorted(ureg._contexts), sorted(allnames)))
    for c, cd in defs.contexts.items():
        nontrivial += 1
        col.evals += 3
        co = ureg._contexts.get(c)
        if co is None:
            continue
        for a in cd["aliases"]:
            if ureg._contexts.get(a) is not co:
                bad("context-alias:" + a, "alias %r is not context %r" % (a, c))
        if co.name != c or tuple(co.aliases) != tuple(cd["aliases"]):
            bad("context-names:" + c, "name/aliases %r %r, file says %r %r" % (co.name, co.aliases, c, cd["aliases"]))
        ed = {k: evaluate(v).num for k, v in cd["defaults"].items()}
        if {k: _fr(v) for k, v in co.defaults.items()} != ed:
            bad("context-defaults:" + c, "defaults %r, file says %r" % (co.defaults, ed))
        fz = lambda d: frozenset(d.items())  # noqa
        exp_rules = {(fz(mdl.dim_expand(evaluate(a))), fz(mdl.dim_expand(evaluate(b)))) for a, b, _ in cd["rules"]}
        got_rules = {(fz(_fdict(a)), fz(_fdict(b))) for a, b in co.funcs}
        if exp_rules != got_rules:
            bad("context-rules:" + c, "rule endpoints differ: %d only in registry, %d only in file"
                % (len(got_rules - exp_rules), len(exp_rules - got_rules)))
        if sorted(r.name for r in co.redefinitions) != sorted(mdl.resolve(n)[1] for n, _ in cd["redefs"]):
            bad("context-redefs:" + c, "redefinitions differ")
    stats["ambiguous_refs"] = len(mdl.ambiguous)
    return stats, nontrivial, samples


# =====================================================================================================
# Part 4: numeric types of stored literals
# =====================================================================================================

def check_numtype(col, only=None):
    pint = _pint()
    defs = Defs().read_file(os.path.join(_PINT_DIR, "default_en.txt"))
    mdl = Model(defs)
    exempt = 0
    n = 0
    for T in (Decimal, Fraction):
        with _quiet():
            ureg = pint.UnitRegistry(non_int_type=T)

        def chk(case, v, rational=True):
            nonlocal exempt, n
            n += 1
            col.evals += 1
            if isinstance(v, bool) or not isinstance(v, (int, T)):
                if not rational:
                    exempt += 1
                    return
                if only is None or only == case:
                    col.add(case, "stored value %r has type %s in a %s registry (written value is rational)"
                            % (v, type(v).__name__, T.__name__), part="numtype")

        for name in defs.units:
            ud = ureg._units[name]
            written = mdl.uval[name].num
            chk("numtype:%s:scale:%s" % (T.__name__, name), ud.converter.scale,
                rational=not isinstance(written, float) or T is Decimal)
            for attr in ("offset", "logbase", "logfactor"):
                if hasattr(ud.converter, attr):
                    chk("numtype:%s:%s:%s" % (T.__name__, attr, name), getattr(ud.converter, attr))
            for k, e in dict(ud.reference).items():
                chk("numtype:%s:exponent:%s:%s" % (T.__name__, name, k), e)
        for name in defs.prefixes:
            chk("numtype:%s:prefix:%s" % (T.__name__, name), ureg._prefixes[name].value)
        for c in defs.contexts:
            for k, v in ureg._contexts[c].defaults.items():
                chk("numtype:%s:context-default:%s:%s" % (T.__name__, c, k), v)
        for dn in defs.dims:
            for k, e in dict(ureg._dimensions[dn].reference).items():
                chk("numtype:%s:dim-exponent:%s:%s" % (T.__name__, dn, k), e)
    return n, exempt


# =====================================================================================================
# Part 3: ill-formed catalogue
# =====================================================================================================

_BASE = ["kx- = 1000 = K-", "ua = [da] = Ua", "ub = [db] = Ub", "uc = 3 * ua / ub = Uc"]
_RULE = " [da] -> [db]: value * ub / ua"
# (label, lines, on_redefinition).  Every entry was checked by hand against the property statement:
# each is an invalid name, a mixed/ill-typed reference, a cycle, a bad modifier, an unknown directive,
# an unterminated block, an undefined reference, malformed expression syntax, or a duplicate under
# on_redefinition='raise'.  Expected for all: an exception at load or at the latest on first use.
CATALOGUE = [
    ("name-space", ["u x = 2 * ua"], "warn"),
    ("name-star", ["u*x = 2 * ua"], "warn"),
    ("name-plus", ["u+x = 2 * ua"], "warn"),
    ("name-minus", ["u-x = 2 * ua"], "warn"),
    ("name-slash", ["u/x = 2 * ua"], "warn"),
    ("name-paren", ["(ux) = 2 * ua"], "warn"),
    ("name-caret", ["u^x = 2 * ua"], "warn"),
    ("name-number", ["12 = 2 * ua"], "warn"),
    ("name-empty", [" = 2 * ua"], "warn"),
    ("name-leading-digit", ["1ux = 2 * ua"], "warn"),
    ("name-bracket-close", ["ux] = 2 * ua"], "warn"),
    ("alias-space", ["ux = 2 * ua = _ = al x"], "warn"),
    ("symbol-space", ["ux = 2 * ua = U x"], "warn"),
    ("prefix-name-space", ["k y- = 10"], "warn"),
    ("prefix-name-star", ["k*y- = 10"], "warn"),
    ("prefix-symbol-space", ["ky- = 10 = K y-"], "warn"),
    ("prefix-alias-space", ["ky- = 10 = Ky- = k z-"], "warn"),
    ("dim-name-space", ["[d x] = [da] ** 2"], "warn"),
    ("unit-ref-bad-dim", ["ux = [d x]"], "warn"),
    ("alias-directive-bad-name", ["@alias ua = a b"], "warn"),
    ("group-name-space", ["@group g h", " ux = 2 * ua", "@end"], "warn"),
    ("system-name-space", ["@system s t", " ua", "@end"], "warn"),
    ("context-name-space", ["@context c d", _RULE, "@end"], "warn"),
    ("mixed-dim-unit", ["ux = [da] * ub"], "warn"),
    ("mixed-dim-unit-div", ["ux = ua / [db]"], "warn"),
    ("dim-refs-unit", ["[dx] = [da] * ub"], "warn"),
    ("dim-refs-only-unit", ["[dx] = ua / ub"], "warn"),
    ("base-scaled", ["ux = 2 * [dz]"], "warn"),
    ("cycle-2", ["ux = 2 * uy", "uy = 3 * ux"], "warn"),
    ("cycle-self", ["ux = 2 * ux"], "warn"),
    ("cycle-3", ["ux = 2 * uy", "uy = 3 * uz", "uz = 5 * ux"], "warn"),
    ("cycle-via-prefix", ["ux = 2 * kxuy", "uy = 3 * ux"], "warn"),
    ("cycle-dim", ["[dx] = [dy] * [da]", "[dy] = [dx] / [da]", "ux = [dx]"], "warn"),
    ("cycle-dim-self", ["[dx] = [dx] * [da]"], "warn"),
    ("undefined-ref", ["ux = 2 * nosuch"], "warn"),
    ("alias-undefined", ["@alias nosuch = foo"], "warn"),
    ("system-undefined-unit", ["@system s", "  nosuch", "@end"], "warn"),
    ("system-rule-undefined-old", ["@system s", "  uc: nosuch", "@end"], "warn"),
    ("system-rule-dim-mismatch", ["@system s", "  ub: ua", "@end"], "warn"),
    ("system-rule-bad", ["@system s", "  uc = ua", "@end"], "warn"),
    ("context-rule-undefined-name", ["@context c", " [da] -> [db]: value * nosuch", "@end"], "warn"),
    ("context-undefined-dim", ["@context c", _RULE, " [nosuch] -> [db]: value * ub", "@end"], "warn"),
    ("context-redefine-new-unit", ["@context c", _RULE, " unew = 3 * ua", "@end"], "warn"),
    ("context-redefine-dim-change", ["@context c", _RULE, " uc = 3 * ub", "@end"], "warn"),
    ("context-redefine-base", ["@context c", _RULE, " ux = [dnew]", "@end"], "warn"),
    ("context-redefine-symbol", ["@context c", _RULE, " uc = 3 * ua / ub = Ucx", "@end"], "warn"),
    ("context-bad-arrow", ["@context c", " [da] => [db]: value * ub / ua", "@end"], "warn"),
    ("context-no-expr", ["@context c", " [da] -> [db]", "@end"], "warn"),
    ("context-empty-expr", ["@context c", " [da] -> [db]:", "@end"], "warn"),
    ("context-unit-endpoint", ["@context c", " ua -> [db]: value * ub / ua", "@end"], "warn"),
    ("context-arrow-three", ["@context c", " [da] -> [db] -> [da]: value", "@end"], "warn"),
    ("context-bad-default", ["@context(n=abc) c", " [da] -> [db]: value * n * ub / ua", "@end"], "warn"),
    ("context-default-novalue", ["@context(n) c", " [da] -> [db]: value * n * ub / ua", "@end"], "warn"),
    ("context-alias-line", ["@context c", _RULE, " @alias ua = foo", "@end"], "warn"),
    ("offset-word", ["ux = ua; offset: abc"], "warn"),
    ("offset-unit", ["ux = ua; offset: 3 * ub"], "warn"),
    ("offset-empty", ["ux = ua; offset:"], "warn"),
    ("logbase-word", ["ux = ua; logbase: ten; logfactor: 10"], "warn"),
    ("logfactor-word", ["ux = ua; logbase: 10; logfactor: big"], "warn"),
    ("logbase-missing-factor", ["ux = ua; logbase: 10"], "warn"),
    ("logfactor-missing-base", ["ux = ua; logfactor: 10"], "warn"),
    ("modifier-unknown", ["ux = ua; offzet: 3"], "warn"),
    ("modifier-unknown2", ["ux = ua; scale: 3"], "warn"),
    ("modifier-no-colon", ["ux = ua; offset 3"], "warn"),
    ("modifier-offset-and-log", ["ux = ua; offset: 3; logbase: 10; logfactor: 1"], "warn"),
    ("modifier-on-prefix", ["ky- = 10; offset: 3"], "warn"),
    ("modifier-on-dimension", ["[dx] = [da] ** 2; offset: 3"], "warn"),
    ("directive-unknown", ["@foo bar"], "warn"),
    ("directive-unknown-block", ["@grp g", "  ux = 2 * ua", "@end"], "warn"),
    ("directive-misspelt-import", ["@imports other.txt"], "warn"),
    ("directive-case", ["@Group g", "  ux = 2 * ua", "@end"], "warn"),
    ("end-without-block", ["@end"], "warn"),
    ("end-trailing-garbage", ["@group g", " ux = 2 * ua", "@end foo"], "warn"),
    ("import-missing", ["@import no_such_file_c10.txt"], "warn"),
    ("unterminated-group", ["@group g", "  ux = 2 * ua"], "warn"),
    ("unterminated-system", ["@system s", "  uc: ua"], "warn"),
    ("unterminated-context", ["@context c", _RULE], "warn"),
    ("unterminated-defaults", ["@defaults", "  group = g"], "warn"),
    ("nested-group", ["@group g", "@group h", " ux = 2 * ua", "@end", "@end"], "warn"),
    ("group-dimension-line", ["@group g", "  [dx] = [da] ** 2", "@end"], "warn"),
    ("group-prefix-line", ["@group g", "  ky- = 10", "@end"], "warn"),
    ("group-noname", ["@group", "  ux = 2 * ua", "@end"], "warn"),
    ("system-noname", ["@system", "  ua", "@end"], "warn"),
    ("context-noname", ["@context", _RULE, "@end"], "warn"),
    ("defaults-unknown-key", ["@defaults", " foo = bar", "@end"], "warn"),
    ("defaults-bad-line", ["@defaults", " system", "@end"], "warn"),
    ("expr-double-op", ["ux = 2 * * ua"], "warn"),
    ("expr-unbalanced-open", ["ux = (2 * ua"], "warn"),
    ("expr-unbalanced-close", ["ux = 2 * ua)"], "warn"),
    ("expr-empty", ["ux = "], "warn"),
    ("expr-sum", ["ux = ua + ub"], "warn"),
    ("expr-sum-number", ["ux = ua + 2"], "warn"),
    ("expr-unit-exponent", ["ux = ua ** ub"], "warn"),
    ("expr-dim-exponent", ["ux = ua ** [da]"], "warn"),
    ("double-equals", ["ux == 2 * ua"], "warn"),
    ("bare-word", ["ux"], "warn"),
    # ("num-two-dots": "1.2.3" tokenises as 1.2 followed by .3, i.e. juxtaposition = multiplication (C07);
    #  "num-comma": commas are stripped as thousands separators by string_preprocessor) -> well-formed
    ("num-bad-exp", ["ux = 1e * ua"], "warn"),
    ("prefix-value-unit", ["ky- = ua"], "warn"),
    ("prefix-value-word", ["ky- = abc"], "warn"),
    ("prefix-value-dim", ["ky- = [da]"], "warn"),
    ("prefix-value-empty", ["ky- = "], "warn"),
    ("alias-to-dimension", ["@alias [da] = foo"], "warn"),
    ("alias-to-prefix", ["@alias kx- = foo-"], "warn"),
    ("dup-unit", ["ua = 2 * ub"], "raise"),
    ("dup-prefix", ["kx- = 10"], "raise"),
    ("dup-symbol", ["ux = 2 * ua = Ua"], "raise"),
    ("dup-alias-is-name", ["ux = 2 * ua = _ = ub"], "raise"),
    ("dup-dim", ["[dx] = [da] ** 2", "[dx] = [da] ** 3"], "raise"),
    ("dup-alias-directive", ["@alias ua = ub"], "raise"),
    ("dup-group", ["@group g", " ux = 2 * ua", "@end", "@group g", " uy = 2 * ua", "@end"], "raise"),
    ("dup-system", ["@system s", " ua", "@end", "@system s", " ub", "@end"], "raise"),
    # ("dup-context": re-registering a context name only logs a warning by design -> not an ill-formed input)
]
# well-formed controls: the harness must find these silent (otherwise `_exercise` is too eager)
CONTROLS = [
    ("ctl-unit", ["ux = 2 * kxua / ub = Ux = uxx", "uy = 1e-3 Ux ** 2"], "raise"),
    ("ctl-blocks", ["@group g", " ux = 2 * ua", "@end", "@system s using g", " kxua", " Kub", "@end",
                    "@context(n=2) c = cc", " [da] <-> [db]: value * n * ub / ua", " uc = 4 * ua / ub", "@end",
                    "@defaults", " group = gg", " system = s", "@end"], "raise"),
    ("ctl-modifiers", ["uo = 0.5 * ua; offset: 10 = Uo", "ul = 1e-3 ua; logbase: 10; logfactor: 10", "[dx] = [da] ** 2 / [db]",
                       "@alias uc = ucc", "# comment", ""], "raise"),
]


def _exercise(u):
    """First use of everything the registry holds (by canonical names)."""
    names = sorted({d.name for d in u._units.values()})
    for n in names:
        u.get_root_units(n)
        u.get_dimensionality(n)
        u.Quantity(1, n).to_root_units()
    for d in list(u._dimensions):
        u.get_dimensionality(d)
    for g in list(u._groups):
        u.get_group(g).members
    for s in list(u._systems):
        u.get_system(s).members
        old = u.default_system
        u.default_system = s
        for n in names:
            u.get_base_units(n)
        u.default_system = old
    for c in sorted({c.name for c in u._contexts.values()}):
        with u.context(c):
            u.convert(1, "ua", "ub")
            for n in names:
                u.Quantity(1, n).to_root_units()


def _illformed_one(lines, mode, path_mode, tmpdir):
    """-> None if an exception is raised at load or on use, else a description of what was accepted."""
    pint = _pint()
    try:
        with _quiet():
            if path_mode == "ctor-lines":
                u = pint.UnitRegistry(_BASE + lines, on_redefinition=mode)
            elif path_mode == "late-load":
                u = pint.UnitRegistry(_BASE, on_redefinition=mode)
                u.load_definitions(lines)
            else:
                fn = os.path.join(tmpdir, "ill.txt")
                with open(fn, "w", encoding="utf-8") as fh:
                    fh.write("\n".join(_BASE + lines) + "\n")
                u = pint.UnitRegistry(fn, on_redefinition=mode)
            _exercise(u)
    except Exception:  # any error, at load or on use, satisfies the property
        return None
    acc = [(k, d.name, str(d.converter), {a: str(b) for a, b in dict(d.reference).items()})
           for k, d in u._units.items() if k not in ("ua", "ub", "uc", "Ua", "Ub", "Uc")][:3]
    return "accepted silently; new unit entries %r, prefixes %r, groups %r, systems %r, contexts %r" % (
        acc, sorted(set(u._prefixes) - {"", "kx", "K"}), sorted(set(u._groups) - {"root"}),
        sorted(u._systems), sorted(u._contexts))


def check_illformed(col, only=None):
    tmpdir = tempfile.mkdtemp()
    samples = []
    try:
        for label, lines, mode in CONTROLS:
            for pm in ("ctor-lines", "late-load", "file"):
                if _illformed_one(lines, mode, pm, tmpdir) is None:
                    raise AssertionError("harness: well-formed control %s raised via %s" % (label, pm))
        for label, lines, mode in CATALOGUE:
            if only is not None and only != label:
                continue
            silent = {}
            for pm in ("ctor-lines", "late-load", "file"):
                col.evals += 1
                r = _illformed_one(lines, mode, pm, tmpdir)
                if r is not None:
                    silent[pm] = r
            if silent:
                col.add("illformed:" + label,
                        "ill-formed input %r (on_redefinition=%r) raised neither at load nor on first use via %s: %s"
                        % (lines, mode, sorted(silent), next(iter(silent.values()))),
                        part="illformed", label=label, lines=lines, paths=sorted(silent))
            if len(samples) < 2:
                samples.append({"part": "illformed", "label": label, "lines": lines, "silent_paths": sorted(silent)})
    finally:
        shutil.rmtree(tmpdir, ignore_errors=True)
    return samples


# =====================================================================================================
# Part 2: generated definition sets, permutations, loading paths, numeric types
# =====================================================================================================

_SCALES = ["2", "3", "7", "10", "0.25", "0.5", "1.5", "2.5e-1", "1e3", "1e-2", "12.5", "3 / 7", "5 / 4", "1 / 3", "22 / 7", "0.125"]
_PVALS = ["1e3", "1e-3", "10", "0.5", "2 ** 10", "100", "1e-2", "1.5"]
_TYPES = {"Fraction": Fraction, "float": float, "Decimal": Decimal}
_TOL = {"Fraction": 0, "float": 1e-9, "Decimal": 1e-20}
_PATHS = ("file", "lines", "late-load", "define-path", "cold-cache", "warm-cache")


def gen_set(seed, idx):
    """Deterministic generated definition set -> dict(items, tail, n)."""
    rng = random.Random("c10:%d:%d" % (seed, idx))
    n = 4 + idx % 5
    letters = "abcdefgh"[:n]
    names = ["u" + c for c in letters]
    syms = {nm: ("U" + nm[1] if rng.random() < 0.6 else None) for nm in names}
    syms["ua"] = "Ua"
    alias_of = {nm: (["x" + nm[1] + "x"] if rng.random() < 0.35 else []) for nm in names}
    pre = [("kx", rng.choice(_PVALS), "K", ["kz"] if rng.random() < 0.5 else []),
           ("my", rng.choice(_PVALS), "Y" if rng.random() < 0.7 else None, [])]

    def line(nm, expr):
        f = [nm, expr]
        if syms[nm] or alias_of[nm]:
            f.append(syms[nm] or "_")
        f += alias_of[nm]
        return " = ".join(f)

    topo = names[2:]
    rng.shuffle(topo)
    avail = ["ua", "ub"]
    exprs = {"ua": "[da]", "ub": "[db]"}
    for nm in topo:
        refs = rng.sample(avail, min(len(avail), rng.choice([1, 2, 2])))
        parts = []
        for r in refs:
            sp = rng.choice([r] + ([syms[r]] if syms[r] else []) + alias_of[r])
            k = rng.random()
            if k < 0.25:
                pn, _, ps, pal = rng.choice(pre)
                if sp == r:
                    sp = rng.choice([pn] + pal) + r
                elif sp == syms[r] and ps:
                    sp = ps + sp
            parts.append((sp, rng.choice([-2, -1, 1, 1, 2])))
        sc = rng.choice(_SCALES)
        ex = ("(%s)" % sc) if "/" in sc else sc
        for sp, e in parts:
            if e < 0 and rng.random() < 0.7:
                ex += " / %s" % sp + ("" if e == -1 else " ** %d" % -e)
            else:
                ex += " * %s" % sp + ("" if e == 1 else " ** %d" % e)
        exprs[nm] = ex
        avail.append(nm)
    ng = 2  # n == 4: both derived units live in the group, 5 permutable items
    in_group = sorted(rng.sample(names[2:], ng))
    items = [("unit", line(nm, exprs[nm])) for nm in names if nm not in in_group]
    items += [("prefix", " = ".join(["%s-" % pn, pv] + ([ps + "-"] if ps else (["_"] if pal else [])) + [a + "-" for a in pal]))
              for pn, pv, ps, pal in pre]
    items.append(("group", ["@group g1"] + ["    " + line(nm, exprs[nm]) for nm in in_group] + ["@end"]))
    # tail (fixed order; depends on the units being known)
    tail = ["[dd] = [da] ** %d / [db] ** %d" % (rng.choice([1, 2]), rng.choice([1, 2, 3]))]
    tail.append("@alias ua = ala")
    if rng.random() < 0.6:
        t = rng.choice(names[1:])
        tail.append("@alias %s = alb = alc" % rng.choice([t] + ([syms[t]] if syms[t] else []) + alias_of[t]))
    # system: a prefixed base unit, or `new: old`
    mdl0 = Model(Defs().read_lines(flatten(items)))
    cands = [nm for nm in names[2:] if set(mdl0.root(nm)[1]) == {"ua"} and mdl0.root(nm)[1]["ua"] == 1]
    if cands and rng.random() < 0.5:
        rule = "%s: ua" % rng.choice(cands)
    else:
        rule = rng.choice(["kxua", "myua"])
    tail += ["@system s1 using g1", "    " + rule, "    " + rng.choice(["ub", "kxub"]), "@end"]
    red = rng.choice([nm for nm in names[2:]])
    newexpr = re.sub(r"^\(?[^*/)]*(?:/ \d+)?\)?", rng.choice(["7", "0.75", "(2 / 9)"]), exprs[red], count=1)
    tail += ["@context(n=%s) c1 = cc" % rng.choice(["2", "0.5", "3"]),
             "    [da] -> [db]: value * n * ub / ua",
             "    [db] -> [da]: value / n * ua / ub",
             "    %s = %s" % (red, newexpr), "@end"]
    return dict(n=n, items=items, tail=tail, names=names, redefined=red, newexpr=newexpr)


def flatten(items):
    out = []
    for kind, x in items:
        out += x if kind == "group" else [x]
    return out


def noisy(lines, rng):
    """Layout variant with the same meaning: spacing around '=' and ';', comments, blank lines, indentation."""
    out = ["# generated by c10_defs  (a = b in a comment means nothing)", ""]
    inblock = False
    for l in lines:
        s = l.strip()
        if s.startswith("@") and not s.startswith("@alias") and s != "@end":
            inblock = True
        if not s.startswith("@context") and "->" not in s:
            s = re.sub(r"\s*=\s*", lambda m: rng.choice(["=", " = ", "  =   ", "= "]), s)
        s = (" " * rng.randint(1, 6) if inblock and s != "@end" else "") + s
        s += rng.choice(["", "", "  # note", " # x = y", "#tight"])
        out.append(s)
        if s.strip().startswith("@end"):
            inblock = False
        r = rng.random()
        if r < 0.15:
            out.append("")
        elif r < 0.3:
            out.append(("    " if inblock else "") + "# comment line = with equals")
    return out


def oracle(gs):
    """Expected observations, computed by the independent reader (order independent by construction)."""
    lines = flatten(gs["items"]) + gs["tail"]
    defs = Defs().read_lines(lines)
    m = Model(defs)
    assert not m.collisions and not m.ambiguous and not defs.dup, (m.collisions, m.ambiguous)
    names = sorted(defs.units)
    exp = {"spell": dict(m.unit_spell), "names": names}
    exp["symbols"] = {n: defs.units[n]["symbol"] or n for n in names}
    exp["dims"] = {n: m.root(n)[2] for n in names}
    exp["roots"] = {n: m.root(n)[:2] for n in names}
    fac = {}
    for a in names:
        for b in names:
            if a != b:
                fac[(a, b)] = m.root(a)[0] / m.root(b)[0] if m.root(a)[2] == m.root(b)[2] else None
    exp["factors"] = fac
    exp["compat"] = {a: sorted(b for b in names if m.root(b)[2] == m.root(a)[2]) for a in names}
    exp["prefixed"] = {}
    for n in names:
        for p in defs.prefixes:
            exp["prefixed"][p + n] = (m.pval[p], n)
            ps, us = defs.prefixes[p]["symbol"], defs.units[n]["symbol"]
            if ps and us:
                exp["prefixed"][ps + us] = (m.pval[p], n)
    exp["group"] = sorted(m.group_members("g1"))
    sysold = set()
    for new, old in defs.systems["s1"]["rules"]:
        sysold.add(old if old else next(iter(m.reduce(Val(Fraction(1), {new: Fraction(1)}))[1])))
    exp["system_old"] = sorted(sysold)
    exp["system_new"] = sorted((lambda pu: (pu[0] or "") + pu[1])(m.resolve(new)) for new, _ in defs.systems["s1"]["rules"])
    exp["contexts"] = sorted(["c1", "cc"])
    exp["ctx_n"] = evaluate(defs.contexts["c1"]["defaults"]["n"]).num
    # the redefinition, applied
    d2 = Defs().read_lines(lines)
    d2.units[gs["redefined"]]["expr"] = gs["newexpr"]
    m2 = Model(d2)
    exp["ctx_roots"] = {n: m2.root(n)[0] for n in names}
    assert m2.root(gs["redefined"])[1:] == m.root(gs["redefined"])[1:], "generator: redefinition changed dimension"
    exp["dd"] = m.dim_expand(Val(Fraction(1), {"[dd]": Fraction(1)}))
    exp["_model"] = m
    return exp


def ordered_items(gs, order, rot):
    """the permutable items in the given order; `rot` rotates the lines inside the group block"""
    items = []
    for i in order:
        kind, x = gs["items"][i]
        if kind == "group":
            inner = x[1:-1]
            r = rot % len(inner)
            x = [x[0]] + inner[r:] + inner[:r] + [x[-1]]
        items.append((kind, x))
    return items


def forward_refs(gs, order, rot, exp):
    """number of lines (in this order) that mention a unit or prefix defined on a later line"""
    m = exp["_model"]
    pos = {}
    seq = [l for l in flatten(ordered_items(gs, order, rot)) if not l.startswith("@")]
    for k, l in enumerate(seq):
        nm = l.split("=")[0].strip()
        pos[nm.rstrip("-") if nm.endswith("-") else nm] = k
    cnt = 0
    for k, l in enumerate(seq):
        nm = l.split("=")[0].strip()
        if nm.endswith("-"):
            continue
        later = False
        for w in m.uval[nm].units:
            if w.startswith("["):
                continue
            p, u = m.resolve(w)
            if pos[u] > k or (p is not None and pos[p] > k):
                later = True
        cnt += later
    return cnt


def build(gs, order, path, T, tmpdir, tag, rot):
    """-> list of (pathname, registry).  `rot` rotates the lines inside the group block."""
    pint = _pint()
    items = ordered_items(gs, order, rot)
    lines = flatten(items) + gs["tail"]
    with _quiet():
        if path == "lines":
            return [("lines", pint.UnitRegistry(lines, non_int_type=T))]
        if path == "late-load":
            u = pint.UnitRegistry(None, non_int_type=T)
            u.load_definitions(lines)
            return [("late-load", u)]
        if path == "define-path":
            u = pint.UnitRegistry(None, non_int_type=T)
            for kind, x in items:
                u.define("\n".join(x) if kind == "group" else x)
            blk = []
            for l in gs["tail"]:
                if blk or (l.startswith("@") and not l.startswith("@alias")):
                    blk.append(l)
                    if l.strip() == "@end":
                        u.define("\n".join(blk))
                        blk = []
                else:
                    u.define(l)
            return [("define-path", u)]
        fn = os.path.join(tmpdir, "defs_%s.txt" % tag)
        with open(fn, "w", encoding="utf-8") as fh:
            fh.write("\n".join(noisy(lines, random.Random(tag))) + "\n")
        if path == "file":
            return [("file", pint.UnitRegistry(fn, non_int_type=T))]
        cf = os.path.join(tmpdir, "cache_%s" % tag)
        os.mkdir(cf)
        cold = pint.UnitRegistry(fn, non_int_type=T, cache_folder=cf)
        warm = pint.UnitRegistry(fn, non_int_type=T, cache_folder=cf)
        return [("cold-cache", cold), ("warm-cache", warm)]


def compare(u, exp, Tn):
    """-> list of (field, what) mismatches between registry `u` and the oracle."""
    T, tol = _TYPES[Tn], _TOL[Tn]
    one = T(1)
    bad = []
    names = exp["names"]
    # names
    got = {}
    for s in exp["spell"]:
        try:
            got[s] = u.get_name(s)
        except Exception as e:  # noqa
            got[s] = "!" + type(e).__name__
    if got != exp["spell"]:
        d = {s: (got[s], exp["spell"][s]) for s in got if got[s] != exp["spell"][s]}
        bad.append(("names", "spelling -> (observed, expected): %r" % d))
    rm = sorted(u.get_group("root").members)
    if rm != names:
        bad.append(("names", "declared unit names %r, expected %r" % (rm, names)))
    gs_ = {n: u.get_symbol(n) for n in names}
    if gs_ != exp["symbols"]:
        bad.append(("symbols", "symbols %r, expected %r" % (gs_, exp["symbols"])))
    # dimensionality
    for n in names:
        gd = _fdict(u.get_dimensionality(n))
        if gd != exp["dims"][n]:
            bad.append(("dimensionality", "%s: %r, expected %r" % (n, gd, exp["dims"][n])))
            break
    gd = _fdict(u.get_dimensionality("[dd]"))
    if gd != exp["dd"]:
        bad.append(("dimensionality", "[dd]: %r, expected %r" % (gd, exp["dd"])))
    # root units and factors
    for n in names:
        f, ru = u.get_root_units(n)
        ef, er = exp["roots"][n]
        if _fdict(ru._units) != er or not _close(f, ef, tol):
            bad.append(("factors", "root of %s: %r %r, expected %s %r" % (n, f, _fdict(ru._units), ef, er)))
            break
    for (a, b), ef in exp["factors"].items():
        try:
            g = u.convert(one, a, b)
        except Exception as e:  # noqa
            g = type(e).__name__
        ok = (g == "DimensionalityError") if ef is None else (not isinstance(g, str) and _close(g, ef, tol))
        if not ok:
            bad.append(("factors", "convert(1, %s, %s) = %r, expected %s" % (a, b, g, ef)))
            break
    for s, (pv, n) in exp["prefixed"].items():
        try:
            g = u.convert(one, s, n)
        except Exception as e:  # noqa
            g = type(e).__name__
        if isinstance(g, str) or not _close(g, pv, tol):
            bad.append(("factors", "convert(1, %s, %s) = %r, expected %s" % (s, n, g, pv)))
            break
    # compatible units
    for n in names:
        g = sorted(next(iter(x._units)) for x in u.get_compatible_units(n))
        if g != exp["compat"][n]:
            bad.append(("compatible-units", "get_compatible_units(%s) = %r, expected %r" % (n, g, exp["compat"][n])))
            break
    # group, system, context
    g = sorted(u.get_group("g1").members)
    if g != exp["group"]:
        bad.append(("group-members", "g1 members %r, expected %r" % (g, exp["group"])))
    so = u.get_system("s1")
    gold, gnew = sorted(so.base_units), sorted(set().union(*[set(v) for v in so.base_units.values()]))
    if gold != exp["system_old"] or not set(exp["system_new"]) <= set(gnew) or sorted(so.members) != exp["group"]:
        bad.append(("system", "s1 base_units %r, members %r; expected replaced %r by %r, members %r"
                    % (dict(so.base_units), sorted(so.members), exp["system_old"], exp["system_new"], exp["group"])))
    if sorted(u._contexts) != exp["contexts"]:
        bad.append(("context", "contexts %r, expected %r" % (sorted(u._contexts), exp["contexts"])))
    else:
        try:
            with u.context("cc"):
                g = u.convert(one, "ua", "ub")
                if not _close(g, exp["ctx_n"], tol):
                    bad.append(("context", "in c1: convert(1, ua, ub) = %r, expected n = %s" % (g, exp["ctx_n"])))
                for n in names:
                    f = u.get_root_units(n)[0]
                    if not _close(f, exp["ctx_roots"][n], tol):
                        bad.append(("context", "in c1: root factor of %s = %r, expected %s (redefinition applied)"
                                    % (n, f, exp["ctx_roots"][n])))
                        break
            f = u.get_root_units(names[-1])[0]
            if not _close(f, exp["roots"][names[-1]][0], tol):
                bad.append(("context", "after leaving c1 the root factor of %s is %r" % (names[-1], f)))
        except Exception as e:  # noqa
            bad.append(("context", "using context c1 raised %s: %s" % (type(e).__name__, str(e)[:100])))
    # numeric type of stored literals
    if T is not float:
        for k, d in u._units.items():
            v = d.converter.scale
            if not isinstance(v, (int, T)):
                bad.append(("numeric-type", "scale of %s is %r (%s)" % (k, v, type(v).__name__)))
                break
        for k, p in u._prefixes.items():
            if not isinstance(p.value, (int, T)):
                bad.append(("numeric-type", "prefix %s value %r (%s)" % (k, p.value, type(p.value).__name__)))
                break
    return bad


def perms_for(gs, seed, idx, exhaustive_upto, nsample):
    m = len(gs["items"])
    if m <= exhaustive_upto:
        return [tuple(p) for p in itertools.permutations(range(m))], True
    rng = random.Random("c10perm:%d:%d" % (seed, idx))
    out = [tuple(range(m)), tuple(reversed(range(m)))]
    seen = set(out)
    while len(out) < nsample:
        p = list(range(m))
        rng.shuffle(p)
        if tuple(p) not in seen:
            seen.add(tuple(p))
            out.append(tuple(p))
    return out, False


def run_config(gs, exp, order, path, Tn, tmpdir, tag, rot):
    """-> list of (pathname, [(field, what)])"""
    try:
        regs = build(gs, order, path, _TYPES[Tn], tmpdir, tag, rot)
    except Exception as e:  # a well-formed generated set must load through every path
        pname = "cold-cache" if path == "cache" else path
        return [(pname, [("load-error", "loading raised %s: %s" % (type(e).__name__, str(e)[:200]))])]
    return [(pname, compare(u, exp, Tn)) for pname, u in regs]


def _gen_worker(args):
    seed, idx, exhaustive_upto, nsample = args
    col = _Collector()
    gs = gen_set(seed, idx)
    exp = oracle(gs)
    perms, full = perms_for(gs, seed, idx, exhaustive_upto, nsample)
    tmpdir = tempfile.mkdtemp()
    nontrivial = 0
    configs = 0
    try:
        for pi, order in enumerate(perms):
            fw = forward_refs(gs, order, pi, exp)
            plan = [("lines", "Fraction"), ("define-path", "Fraction"), ("lines", "float"), ("lines", "Decimal")]
            if pi < 2 or pi == len(perms) - 1:
                plan = [(p, t) for t in _TYPES for p in ("file", "lines", "late-load", "define-path", "cache")]
            for path, Tn in plan:
                tag = "%d_%d_%d_%s_%s" % (seed, idx, pi, path, Tn)
                for pname, bad in run_config(gs, exp, order, path, Tn, tmpdir, tag, pi):
                    col.evals += 1
                    configs += 1
                    if fw > 0 or pname != "lines":
                        nontrivial += 1
                    for field, what in bad:
                        col.add("%s:%s" % (pname, field), "%s  [set %d:%d perm %r type %s]" % (what, seed, idx, list(order), Tn),
                                part="gen", seed=seed, idx=idx, order=list(order), rot=pi, path=path, pathname=pname,
                                type=Tn, field=field)
    finally:
        shutil.rmtree(tmpdir, ignore_errors=True)
    return col.list(), col.evals, nontrivial, len(perms), full, gs["n"]


def check_gen(col, tier, seed, nsets=None, workers=None):
    if tier == "quick":
        nsets = nsets or 40
        upto, nsample = 5, 24
    else:
        nsets = nsets or 120
        upto, nsample = 6, 120
    jobs = [(seed, i, upto, nsample) for i in range(nsets)]
    jobs.sort(key=lambda j: (-math.factorial(5 + j[1] % 5) if 5 + j[1] % 5 <= upto else 0, j[1]))  # longest first
    workers = workers or min(16, os.cpu_count() or 1)
    if workers > 1:
        ctx = multiprocessing.get_context("fork")
        with ctx.Pool(workers) as pool:
            res = pool.map(_gen_worker, jobs, chunksize=1)
    else:
        res = [_gen_worker(j) for j in jobs]
    res = [r for _, r in sorted(zip(jobs, res), key=lambda jr: jr[0][1])]  # deterministic merge order
    nontrivial = nperm = nfull = 0
    for vl, ev, nt, npm, full, n in res:
        col.merge(vl, ev)
        nontrivial += nt
        nperm += npm
        nfull += bool(full)
    gs = gen_set(seed, 1)
    sample = {"part": "gen", "seed": seed, "idx": 1, "lines": flatten(gs["items"]) + gs["tail"]}
    return dict(sets=nsets, permutations=nperm, sets_fully_permuted=nfull, exhaustive_upto=upto, sampled=nsample), nontrivial, sample


# =====================================================================================================
# interface
# =====================================================================================================

def run(tier: str = "quick", seed: int = 0, **kw) -> dict:
    t0 = time.time()
    col = _Collector()
    bstats, nt1, samples = check_bundled(col)
    e1 = col.evals
    nnum, exempt = check_numtype(col)
    e4 = col.evals - e1
    s3 = check_illformed(col)
    e3 = col.evals - e1 - e4
    gstats, nt2, s2 = check_gen(col, tier, seed, kw.get("nsets"), kw.get("workers"))
    e2 = col.evals - e1 - e4 - e3
    viol = col.list()
    return {
        "name": NAME,
        "bound": (
            "bundled default_en.txt+constants_en.txt read by an independent reader: %d units (%d spellings), %d prefixes (%d "
            "spellings), %d derived dimensions, %d groups, %d systems, %d contexts, all compared with UnitRegistry(non_int_type="
            "Fraction) (%d comparisons; %d root factors irrational -> compared to 1e-12, %d log units without root factor); "
            "%d generated definition sets (4-8 units in a random DAG, 2 prefixes, 1-3 aliases, 2 base + 1 derived dimension, 1 group, "
            "1 system, 1 context with redefinition) x %d line permutations in total (all m! permutations when m <= %d permutable "
            "items: %d sets; else identity, reverse and %d sampled) x {lines, define()} in Fraction and lines in float/Decimal, "
            "and for 3 permutations per set all 6 loading paths (file with noisy layout, line list, late load_definitions, "
            "define(), cold cache_folder, warm cache_folder) x {Fraction,float,Decimal} (%d registry comparisons); %d ill-formed "
            "catalogue entries x 3 loading paths; numeric type of %d stored literals in Decimal and Fraction default registries "
            "(%d irrational scales exempt)"
            % (bstats["units"], bstats["unit_spellings"], bstats["prefixes"], bstats["prefix_spellings"], bstats["derived_dims"],
               bstats["groups"], bstats["systems"], bstats["contexts"], e1, bstats["inexact"], bstats["log_units"],
               gstats["sets"], gstats["permutations"], gstats["exhaustive_upto"], gstats["sets_fully_permuted"], gstats["sampled"] - 2,
               e2, len(CATALOGUE), nnum, exempt)),
        "evaluations": col.evals,
        "distinct_nontrivial": nt1 + nt2 + len(CATALOGUE),
        "rule": ("bundled: one case per spelling / unit / derived dimension / group / system / context of the files; generated: one "
                 "case per (set, permutation, loading path, numeric type), non-trivial if the line order has >= 1 forward "
                 "reference (a line mentioning a unit or prefix defined later) or the path is not the plain line list; every "
                 "catalogue entry is non-trivial (each checked by hand to be ill-formed per the property statement)"),
        "exhaustive": False,
        "exhaustive_parts": {"bundled": True, "illformed_catalogue": True, "numtype": True, "generated": False},
        "violations": viol[:25],
        "violation_count": len(viol),
        "violation_occurrences": col.occ,
        "violation_count_note": "violation_count = distinct case ids; violation_occurrences = failing evaluations (one case id "
                                "per (loading path, observed field) for generated sets, first failing input kept in the record)",
        "samples": samples[:2] + [s2] + s3[:1],
        "stats": {"bundled": bstats, "generated": gstats, "evaluations_by_part": {"bundled": e1, "numtype": e4, "illformed": e3, "generated": e2},
                  "seconds": round(time.time() - t0, 1)},
    }


def replay(data: dict) -> bool:
    """Re-run one recorded violation; True if the property now holds for it."""
    col = _Collector()
    part = data.get("part")
    case = data["case"]
    if part == "bundled":
        check_bundled(col, only=case[len("bundled:"):])
    elif part == "numtype":
        check_numtype(col, only=case)
    elif part == "illformed":
        check_illformed(col, only=data["label"])
    elif part == "gen":
        gs = gen_set(data["seed"], data["idx"])
        exp = oracle(gs)
        tmpdir = tempfile.mkdtemp()
        try:
            for pname, bad in run_config(gs, exp, tuple(data["order"]), data["path"], data["type"], tmpdir, "replay", data["rot"]):
                for field, what in bad:
                    col.add("%s:%s" % (pname, field), what)
        finally:
            shutil.rmtree(tmpdir, ignore_errors=True)
    else:
        raise ValueError("unknown violation record")
    return case not in col.by_case


if __name__ == "__main__":
    import argparse

    ap = argparse.ArgumentParser()
    ap.add_argument("--tier", default="quick")
    ap.add_argument("--seed", type=int, default=0)
    ap.add_argument("--nsets", type=int, default=None)
    ap.add_argument("--workers", type=int, default=None)
    a = ap.parse_args()
    json.dump(run(a.tier, a.seed, nsets=a.nsets, workers=a.workers), sys.stdout, indent=1, default=str, ensure_ascii=False)
    print()
