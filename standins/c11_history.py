"""Bounded stand-in (C11), added after seeded change C11-3 was missed (a per-chain memo of found paths that survives a push).

The value a conversion returns under a stack of contexts is determined by the stack (rules along a shortest chain, newest
context winning).  So it may not depend on which conversions were asked for *earlier*, under a shorter or different stack.
Every history (pushes, pops and probe conversions in between) is compared with a fresh registry that enables the same final
stack and has never converted anything.  What that fresh registry must answer is the subject of c11_contexts."""
from __future__ import annotations

import itertools
import random

NAME = "c11_history"
DIMS = "abcd"
# pool of contexts: edges (src, dst, factor); compositions differ, so a chain that is not the shortest gives another number
POOL = [
    [("a", "b", 2.0), ("b", "c", 3.0)],
    [("a", "c", 10.0)],
    [("c", "d", 5.0), ("b", "d", 11.0)],
    [("a", "d", 7.0), ("a", "b", 13.0)],
    [("d", "a", 17.0), ("c", "a", 19.0)],
]
PAIRS = [(s, t) for s in DIMS for t in DIMS if s != t]


def _probe(ureg, s, t):
    import pint

    q = ureg.Quantity(1.5, f"u{s}")
    try:
        return round(float(q.to(f"u{t}").magnitude), 9)
    except pint.DimensionalityError:
        return "DimensionalityError"


def _make():
    """registry whose rules map 1.5 ua -> (1.5*f) ub etc.: the functions must return a quantity of the target dimension"""
    import pint

    ureg = pint.UnitRegistry(None)
    for d in DIMS:
        ureg.define(f"u{d} = [d{d}]")
    for i, edges in enumerate(POOL):
        c = pint.Context(f"k{i}")
        for s, t, f in edges:
            c.add_transformation(f"[d{s}]", f"[d{t}]",
                                 (lambda fac, tt: (lambda ureg, x: ureg.Quantity(x.to(x.units).magnitude * fac, f"u{tt}")))(f, t))
        ureg.add_context(c)
    return ureg


def _run_history(ops):
    """ops: list of ('push', i) | ('pop',) | ('probe', s, t).  Returns (final stack, answers of the history-laden registry)."""
    ureg = _make()
    stack = []
    for op in ops:
        if op[0] == "push":
            ureg.enable_contexts(f"k{op[1]}")
            stack.append(op[1])
        elif op[0] == "pop" and stack:
            ureg.disable_contexts(1)
            stack.pop()
        elif op[0] == "probe":
            _probe(ureg, op[1], op[2])
    got = {p: _probe(ureg, *p) for p in PAIRS}
    fresh = _make()
    for i in stack:
        fresh.enable_contexts(f"k{i}")
    want = {p: _probe(fresh, *p) for p in PAIRS}
    return stack, got, want


def _histories(tier, seed):
    out = []
    # exhaustive: every stack of <= 3 distinct contexts, probing ALL pairs after every proper prefix subset
    for k in (1, 2, 3):
        for perm in itertools.permutations(range(len(POOL)), k):
            for mask in range(1, 2 ** (k - 1)) if k > 1 else []:
                ops = []
                for depth, i in enumerate(perm):
                    ops.append(("push", i))
                    if depth < k - 1 and mask >> depth & 1:
                        ops += [("probe", s, t) for s, t in PAIRS]
                out.append(ops)
    # push / probe / pop / push: memo left behind by a context that is no longer active
    for i, j in itertools.permutations(range(len(POOL)), 2):
        out.append([("push", i)] + [("probe", s, t) for s, t in PAIRS] + [("pop",), ("push", j)])
        out.append([("push", j), ("push", i)] + [("probe", s, t) for s, t in PAIRS] + [("pop",)])
    rnd = random.Random(seed)
    for _ in range(150 if tier == "quick" else 1500):
        ops, depth = [], 0
        for _ in range(rnd.randint(3, 10)):
            r = rnd.random()
            if r < 0.4 and depth < 4:
                ops.append(("push", rnd.randrange(len(POOL))))
                depth += 1
            elif r < 0.55 and depth:
                ops.append(("pop",))
                depth -= 1
            else:
                ops.append(("probe",) + rnd.choice(PAIRS))
        out.append(ops)
    return out


def _fmt(ops):
    return " ".join("+k%d" % o[1] if o[0] == "push" else "-" if o[0] == "pop" else f"{o[1]}>{o[2]}" for o in ops)


def run(tier: str = "quick", seed: int = 0, **kw) -> dict:
    viol, n, samples = [], 0, []
    for ops in _histories(tier, seed):
        stack, got, want = _run_history(ops)
        n += 1
        bad = [(p, got[p], want[p]) for p in PAIRS if got[p] != want[p]]
        if bad:
            p, g, w = bad[0]
            viol.append({"case": f"history:{_fmt(ops)}"[:300], "ops": [list(o) for o in ops],
                         "what": f"stack {stack}: u{p[0]} -> u{p[1]} gives {g} after this history, {w} in a fresh registry with the same stack"})
        elif len(samples) < 4 and stack:
            samples.append(_fmt(ops)[:120])
    return {"name": NAME,
            "bound": f"{len(POOL)} contexts over 4 dimensions with non-commuting factors; every stack of <= 3 distinct contexts with all pairs "
                     "probed after every non-empty subset of proper prefixes; push/probe/pop/push for every ordered pair; "
                     f"{150 if tier == 'quick' else 1500} random histories of 3-10 operations; 12 ordered pairs compared each time",
            "evaluations": n, "distinct_nontrivial": n, "rule": "a history is non-trivial when it probes before the stack reaches its final shape",
            "exhaustive": False, "violations": viol[:25], "violation_count": len(viol), "samples": samples}


def replay(data: dict) -> bool:
    ops = [tuple(o) for o in data["ops"]]
    _, got, want = _run_history(ops)
    return got == want
