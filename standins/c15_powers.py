"""Bounded stand-in (C15), added after seeded change C15-4 was missed.

"to_reduced_units leaves no two units it could merge (same dimension up to a power)": the generated containers of c15_rewrite
only pair units of EQUAL dimensionality.  Here every pair is related by a proper power (liter ~ meter**3, acre ~ foot**2,
hertz ~ 1/second, ...), alone and next to a bystander unit, through to_reduced_units, ito_reduced_units and the automatic
reduction of `auto_reduce_dimensions` after * and /.  The physical value must be unchanged (the input converted to the result's units has the result's magnitude)."""
from __future__ import annotations

import itertools
from fractions import Fraction

NAME = "c15_powers"
PAIRS = [("liter", "meter"), ("liter", "kilometer"), ("gallon", "inch"), ("acre", "foot"), ("hectare", "meter"), ("hertz", "second"),
         ("hertz", "minute"), ("barn", "femtometer"), ("cubic_centimeter", "millimeter"), ("becquerel", "hour")]
EXPS = [(1, 1), (1, -1), (2, -1), (-1, 2), (1, -2), (1, 3)]
BYSTANDERS = [None, ("kilogram", 1), ("ampere", -2)]


def _proportional(ureg, a, b):
    da, db = ureg.get_dimensionality({a: 1}), ureg.get_dimensionality({b: 1})
    if not da or not db or set(da) != set(db):
        return False
    ratios = {Fraction(da[k]).limit_denominator(1000) / Fraction(db[k]).limit_denominator(1000) for k in da}
    return len(ratios) == 1


def _mergeable(ureg, q):
    names = list(q._units)
    return [(a, b) for a, b in itertools.combinations(names, 2) if _proportional(ureg, a, b)]


def _close(r, q):
    """same physical value: the input expressed in the result's units has the result's magnitude (dimensionless base units such
    as `count` make root-unit spellings differ without any physical difference)"""
    m = q.to(r.units).magnitude
    return abs(m - r.magnitude) <= 1e-9 * max(abs(m), abs(r.magnitude), 1e-300)


def run(tier: str = "quick", seed: int = 0, **kw) -> dict:
    import pint

    ureg = pint.UnitRegistry()
    auto = pint.UnitRegistry(auto_reduce_dimensions=True)
    viol, n, samples = [], 0, []
    for (u1, u2), (e1, e2), by in itertools.product(PAIRS, EXPS, BYSTANDERS):
        units = {u1: e1, u2: e2}
        if by:
            units[by[0]] = by[1]
        case = "*".join(f"{k}^{v}" for k, v in units.items())
        q = ureg.Quantity(2.5, ureg.UnitsContainer(units))
        if not _mergeable(ureg, q):
            continue
        # functional
        n += 1
        r = q.to_reduced_units()
        left = _mergeable(ureg, r)
        if left:
            viol.append({"case": f"reduced:{case}", "what": f"to_reduced_units() -> {r!r} still holds mergeable units {left}"})
        elif not _close(r, q):
            viol.append({"case": f"reduced-value:{case}", "what": f"to_reduced_units() -> {r!r} changes the physical value of {q!r}"})
        elif len(samples) < 4:
            samples.append(f"{case} -> {r.units}")
        # in place
        n += 1
        qi = ureg.Quantity(2.5, ureg.UnitsContainer(units))
        qi.ito_reduced_units()
        if _mergeable(ureg, qi) or not (qi.units == r.units and abs(qi.magnitude - r.magnitude) <= 1e-12 * abs(r.magnitude)):
            viol.append({"case": f"ireduced:{case}", "what": f"ito_reduced_units() leaves {qi!r}, to_reduced_units() returns {r!r}"})
        # automatic reduction after an operator
        n += 1
        a = auto.Quantity(2.5, auto.UnitsContainer({u1: e1, **({by[0]: by[1]} if by else {})}))
        b = auto.Quantity(1.0, auto.UnitsContainer({u2: abs(e2)}))
        prod = a * b if e2 > 0 else a / b
        left = _mergeable(auto, prod)
        if left:
            if True:
                viol.append({"case": f"auto:{case}", "what": f"auto_reduce_dimensions: {a!r} {'*' if e2 > 0 else '/'} {b!r} -> {prod!r} still holds mergeable units {left}"})
    return {"name": NAME,
            "bound": f"{len(PAIRS)} power-related unit pairs x {len(EXPS)} exponent pairs x {len(BYSTANDERS)} bystanders x "
                     "{to_reduced_units, ito_reduced_units, auto_reduce_dimensions after * or /}",
            "evaluations": n, "distinct_nontrivial": n, "rule": "a case is kept when its two units have proportional, unequal dimensionalities",
            "exhaustive": True, "violations": viol[:25], "violation_count": len(viol), "samples": samples}


def replay(data: dict) -> bool:
    r = run("thorough")
    return all(v["case"] != data.get("case") for v in r["violations"])
