"""Bounded stand-in for C18 "Copy, pickle and tuple serialisation preserve objects; registries stay isolated".

Parts (each a clause of the property statement; the reference is the statement itself, observed through public behaviour):

  roundtrip   N random unit expressions drawn from the registry's own tables (plain names, prefix+name such as
              'kilometer' / 'microsecond' / 'attoparsec', products of 2-3 (prefixed) units with exponents in -3..3, offset
              units) x magnitude catalogue {int, float, Fraction, Decimal, numpy float64 / int64 / float32 arrays of rank
              0-2, numpy scalar, ufloat Measurement} x pickle protocols 0-5, for Quantity, Unit, Measurement, and
              UnitsContainer / ParserHelper (float, Fraction and Decimal exponent types):
                pickle.loads(pickle.dumps(x, p)) == x, same magnitude type / dtype / shape, same unit container, the
                result is an instance of the *application registry's* class with _REGISTRY the application registry
                (objects built in the application registry and objects built in another registry);
                copy.copy / copy.deepcopy: equal, fresh object, same registry and class, a deep copy (and a copy) of an
                ndarray magnitude shares no memory; Quantity.from_tuple(q.to_tuple()) == q and to_tuple() has the
                documented shape (magnitude, ((name, exponent), ...)).
              Measurements are compared field-wise (nominal value, std dev, units); their `==` is reported separately
              (eq-semantics:...) because uncertainties' == is identity-of-variables based.
  freshapp    pint.set_application_registry(fresh registry); quantities / units / measurements in prefixed units that
              the fresh registry has never seen (precondition checked) are unpickled under every protocol: must work, be
              attached to the fresh registry, and the prefixed unit must now be registered there.  The previous
              application registry is restored afterwards.
  exceptions  every exception class defined in pint.errors (enumerated at run time) x argument tuples (hand-written
              generators for the known classes, a signature-driven generic generator for unknown ones) x protocols 0-5
              + copy.copy + copy.deepcopy: same type, same __dict__, same args and same str().
  cross       for every binary operator in {+ - * / // % divmod ** < <= > >=} and the in-place forms, operands
              Quantity / Unit / Measurement of two different registries (fresh vs fresh, source vs deep copy, explicit vs
              application registry): whenever the same expression over one registry evaluates, the cross-registry
              expression must raise ValueError.  (== / != between registries are recorded as observations only.)
  deepcopy    histories (sequences of 1-4 mutations: define unit / alias / prefix / dimension, redefine a unit, enable or
              remove a context, add a context, extend / replace a rule or change a default of a context the registry
              holds, default_system, default format, autoconvert_offset_to_baseunit, ...; or: delete the source)
              applied to the copy or to the source of (a, copy.deepcopy(a)) with warmed caches: the untouched registry
              answers a battery of ~25 probes exactly as before, and the touched one answers exactly like a third,
              independently built registry with the same history.
  lazy        fresh interpreters (subprocess): every probe of a battery of ~55 (parse, convert, format, getattr,
              contains, iter, dir, define, setattr, contexts, deepcopy, wraps, ...) is the *first use* of a new
              pint.LazyRegistry() and is compared with the same probe on an explicitly built UnitRegistry(); further
              interpreters make each of ~12 probes the first use of the module-level application registry (pint.Quantity,
              pint.Unit, unpickling, pint.application_registry...), then run the read-only battery on it.

Classes of disagreement on the pinned tree (see `violation_classes`):
  cross-registry:pow / :ipow / :qu-pow / :meas-pow ...   `**` never checks the registry of the exponent
  cross-registry:unit-lt / -le / -gt / -ge                Unit ordering compares through the left registry silently;
  cross-registry:qu-lt, uq-lt, um-lt, mu-lt ...           same for a dimensionless Quantity / Measurement against a Unit
  deepcopy:leak / deepcopy:diverges                       the contexts of a deep-copied registry keep (weak) references to
                                                          the *source's* Context objects (WeakValueDictionary values are
                                                          not deep-copied): remove_context / changed defaults / a replaced
                                                          rule on the source change the copy, the same on the copy are ignored
  eq-semantics:Measurement:*                              a copied / unpickled Measurement is != the original although all
                                                          fields agree (uncertainties' == is per-variable)
  lazy:first-use:contains / iter / dir / copy             pint.LazyRegistry has no __contains__ / __iter__ / __dir__ /
  lazy:app-first-use:app.iter / app.dir                   copy support of its own: as the *first* use these fail or answer
                                                          for the empty shell (also through pint.application_registry)
  lazy:*:on-redefinition, lazy:first-use:redefine         the lazy registry is built with on_redefinition='raise', an
                                                          explicit UnitRegistry() with 'warn' (deliberate in the source)
"""
from __future__ import annotations

import copy
import decimal
import inspect
import itertools
import json
import multiprocessing as mp
import operator
import os
import pickle
import random
import subprocess
import sys
import time
import warnings
from fractions import Fraction

NAME = "c18_serialize"
NWORKERS = 16
PROTOCOLS = tuple(range(0, pickle.HIGHEST_PROTOCOL + 1))


def _cpu_total():
    import resource

    a = resource.getrusage(resource.RUSAGE_SELF)
    b = resource.getrusage(resource.RUSAGE_CHILDREN)
    return a.ru_utime + a.ru_stime + b.ru_utime + b.ru_stime


def safe_repr(x):
    """repr of pint objects can itself raise in a Fraction registry (formatting of Fraction exponents)"""
    try:
        return repr(x)
    except Exception:  # noqa: BLE001
        return "<%s magnitude=%r units=%r>" % (type(x).__name__, getattr(x, "_magnitude", None),
                                               dict(getattr(x, "_units", {})))


def _exc_text(e):
    try:
        return str(e)[:200]
    except Exception:  # noqa: BLE001
        return "<str() of the exception failed>"


class Collector:
    def __init__(self):
        self.entries = {}

    def add(self, case, what, example):
        e = self.entries.get(case)
        if e is None:
            e = self.entries[case] = {"case": case, "what": what, "instances": 0, "examples": []}
        e["instances"] += 1
        if len(e["examples"]) < 2:
            e["examples"].append(example)

    def merge(self, entries):
        for case, o in entries.items():
            e = self.entries.get(case)
            if e is None:
                self.entries[case] = {"case": case, "what": o["what"], "instances": o["instances"],
                                      "examples": list(o["examples"][:2])}
            else:
                e["instances"] += o["instances"]
                for ex in o["examples"]:
                    if len(e["examples"]) < 2:
                        e["examples"].append(ex)


# =============================================================================== registries
_R = {}


def regs():
    if not _R:
        import pint

        with warnings.catch_warnings():
            warnings.simplefilter("ignore")
            _R["pint"] = pint
            _R["app"] = pint.UnitRegistry()   # becomes the application registry while a part runs
            _R["src"] = pint.UnitRegistry()   # "another registry"
    return _R


class app_registry:
    """context manager: make `reg` the application registry, restore the previous one afterwards"""

    def __init__(self, reg):
        self.reg = reg

    def __enter__(self):
        pint = regs()["pint"]
        self.prev = pint.application_registry.get()
        pint.set_application_registry(self.reg)
        return self.reg

    def __exit__(self, *a):
        regs()["pint"].set_application_registry(self.prev)


# =============================================================================== unit expressions and magnitudes
MUST_HAVE = ("kilometer", "microsecond", "attoparsec / microfortnight", "degree_Celsius", "", "kilogram", "millifoot",
             "kilometer / hour", "delta_degree_Fahrenheit", "nanometer ** 2 * picosecond ** -3")


def _plain_names(reg):
    """canonical names of the multiplicative units (offset / logarithmic units only appear on their own)"""
    return sorted(k for k, v in reg._units.items() if v.name == k and k.isidentifier() and v.converter.is_multiplicative
                  and not getattr(v.converter, "is_logarithmic", False))


def unit_catalogue(reg, rng, count):
    """random unit expressions from the registry's own tables; -> list of expression strings that build"""
    names = _plain_names(reg)
    prefixes = sorted(p for p, v in reg._prefixes.items() if p and v.name == p)
    offsets = ["degree_Celsius", "degree_Fahrenheit", "kelvin", "delta_degree_Celsius", "degree_Reaumur"]
    out = list(MUST_HAVE)
    seen = set(out)
    attempts = 0
    while len(out) < count and attempts < count * 20:
        attempts += 1
        r = rng.random()

        def one():
            n = rng.choice(names)
            return (rng.choice(prefixes) + n) if rng.random() < 0.5 else n

        if r < 0.2:
            expr = rng.choice(names)
        elif r < 0.5:
            expr = rng.choice(prefixes) + rng.choice(names)
        elif r < 0.92:
            k = rng.choice((2, 2, 3))
            parts = []
            for _ in range(k):
                e = rng.choice((-3, -2, -1, 1, 1, 2, 3))
                parts.append(one() if e == 1 else "%s ** %d" % (one(), e))
            expr = " * ".join(parts)
        else:
            expr = rng.choice(offsets)
        if expr in seen:
            continue
        try:
            with warnings.catch_warnings():
                warnings.simplefilter("ignore")
                u = reg.Unit(expr)
                reg.Quantity(1, u)
        except Exception:  # noqa: BLE001
            continue
        seen.add(expr)
        out.append(expr)
    return out


def prefixed_names(reg, rng, count):
    names = _plain_names(reg)
    prefixes = sorted(p for p, v in reg._prefixes.items() if p and v.name == p)
    out, seen = [], set()
    attempts = 0
    while len(out) < count and attempts < count * 20:
        attempts += 1
        name = rng.choice(prefixes) + rng.choice(names)
        if name in seen or name in reg._units:
            continue
        seen.add(name)
        out.append(name)
    return out


def magnitude_catalogue(rng):
    """-> list of encoded magnitudes (json-able)"""
    f = rng.choice
    return [
        ["i", f((0, 1, -7, 12345678901234567890, 2 ** 70))],
        ["i", rng.randrange(-10 ** 6, 10 ** 6)],
        ["f", repr(f((1.5, -0.0, 1e-300, 2.5e300, 0.1)))],
        ["f", repr(rng.uniform(-1e6, 1e6))],
        ["f", "inf"],
        ["F", rng.randrange(-999, 999), rng.randrange(1, 999)],
        ["D", f(("1.10", "-3.25E+7", "0E-10", "12345678901234567890.123456789"))],
        ["nd", "float64", [3], [rng.uniform(-10, 10) for _ in range(3)]],
        ["nd", "int64", [2, 2], [rng.randrange(-99, 99) for _ in range(4)]],
        ["nd", "float32", [0], []],
        ["nd", "float64", [], [rng.uniform(-10, 10)]],
        ["ns", "float64", repr(rng.uniform(-10, 10))],
        ["uf", repr(round(rng.uniform(-100, 100), 3)), repr(round(rng.uniform(0.001, 5), 3))],
    ]


def dec_mag(e):
    import numpy as np

    t = e[0]
    if t == "i":
        return int(e[1])
    if t == "f":
        return float(e[1])
    if t == "F":
        return Fraction(e[1], e[2])
    if t == "D":
        return decimal.Decimal(e[1])
    if t == "nd":
        return np.array(e[3], dtype=e[1]).reshape(e[2])
    if t == "ns":
        return getattr(np, e[1])(float(e[2]))
    if t == "uf":
        from uncertainties import ufloat

        return ufloat(float(e[1]), float(e[2]))
    raise ValueError(e)


def mag_tag(e):
    return e[0] if e[0] not in ("nd", "ns") else "%s-%s%s" % (e[0], e[1], "x".join(map(str, e[2])) if e[0] == "nd" else "")


def same_magnitude(a, b):
    """-> None or text"""
    import numpy as np

    if type(a) is not type(b):
        return "magnitude type %s became %s" % (type(b).__name__, type(a).__name__)
    if isinstance(a, np.ndarray):
        if a.dtype != b.dtype or a.shape != b.shape or not np.array_equal(a, b):
            return "array %r (%s) became %r (%s)" % (b, b.dtype, a, a.dtype)
        return None
    if hasattr(a, "nominal_value"):
        if a.nominal_value != b.nominal_value or a.std_dev != b.std_dev:
            return "ufloat %r became %r" % (b, a)
        return None
    if not (a == b) or (isinstance(a, float) and str(a) != str(b)):
        return "magnitude %r became %r" % (b, a)
    if isinstance(a, decimal.Decimal) and a.as_tuple() != b.as_tuple():
        return "Decimal %r became %r" % (b, a)
    return None


def truth(x):
    import numpy as np

    if isinstance(x, np.ndarray):
        return bool(x.all())
    return bool(x)


# =============================================================================== part: roundtrip
def build_object(obj, reg, expr, mag):
    """obj in Quantity / Unit / Measurement"""
    if obj == "Unit":
        return reg.Unit(expr)
    m = dec_mag(mag)
    if obj == "Measurement":
        return reg.Measurement(m.nominal_value, m.std_dev, reg.Unit(expr))
    return reg.Quantity(m, reg.Unit(expr))


def compare_registry_object(new, old, target_reg, obj, must_be_fresh=True):
    """-> list of (tag, text)"""
    out = []
    cls = getattr(target_reg, obj)
    if type(new) is not cls:
        out.append(("class", "result is a %s.%s, expected the target registry's %s class"
                    % (type(new).__module__, type(new).__qualname__, obj)))
    if getattr(new, "_REGISTRY", None) is not target_reg:
        out.append(("registry", "result._REGISTRY is not the expected registry"))
    if must_be_fresh and new is old:
        out.append(("fresh", "the very same object came back"))
    if dict(new._units) != dict(old._units) or any(type(new._units[k]) is not type(old._units[k]) for k in old._units
                                                    if k in new._units):
        out.append(("units", "units %r became %r" % (dict(old._units), dict(new._units))))
    if obj != "Unit":
        p = same_magnitude(new.magnitude, old.magnitude)
        if p:
            out.append(("magnitude", p))
    return out


def roundtrip_case(desc, col):
    """desc = {"obj", "origin" ('app'|'src'), "unit", "mag"}; every protocol + copy + deepcopy + tuple form.
    Must run inside app_registry(regs()['app']).  -> number of evaluations"""
    import numpy as np

    R = regs()
    app = R["app"]
    origin = R[desc["origin"]]
    obj, expr, mag = desc["obj"], desc["unit"], desc.get("mag")
    ident = "%s:%s:%s:%s" % (obj, mag_tag(mag) if mag else "-", desc["origin"], expr or "dimensionless")
    ex = dict(desc, kind="roundtrip")
    evals = 0
    with warnings.catch_warnings():
        warnings.simplefilter("ignore")
        x = build_object(obj, origin, expr, mag)
        for p in PROTOCOLS:
            evals += 1
            try:
                y = pickle.loads(pickle.dumps(x, p))
            except Exception as e:  # noqa: BLE001
                col.add("pickle:raised:p%d:%s" % (p, ident), "pickle round trip (protocol %d) of %r raised %s: %s"
                        % (p, x, type(e).__name__, _exc_text(e)), ex)
                continue
            for tag, text in compare_registry_object(y, x, app, obj):
                col.add("pickle:%s:p%d:%s" % (tag, p, ident), "pickle protocol %d of %r: %s" % (p, x, text), ex)
            if origin is app:
                try:
                    eq = truth(y == x)
                except Exception as e:  # noqa: BLE001
                    eq = "raised %s" % type(e).__name__
                if eq is not True:
                    if obj == "Measurement":
                        col.add("eq-semantics:Measurement:pickle", "pickle.loads(pickle.dumps(m)) == m is %r for the "
                                "Measurement %r (fields are compared separately)" % (eq, x), ex)
                    else:
                        col.add("pickle:not-equal:p%d:%s" % (p, ident), "loads(dumps(x, %d)) == x is %r for %r"
                                % (p, eq, x), ex)
        for cname, fn in (("copy", copy.copy), ("deepcopy", copy.deepcopy)):
            evals += 1
            try:
                y = fn(x)
            except Exception as e:  # noqa: BLE001
                col.add("%s:raised:%s" % (cname, ident), "copy.%s(%r) raised %s: %s" % (cname, x, type(e).__name__,
                                                                                        _exc_text(e)), ex)
                continue
            for tag, text in compare_registry_object(y, x, origin, obj):
                col.add("%s:%s:%s" % (cname, tag, ident), "copy.%s(%r): %s" % (cname, x, text), ex)
            try:
                eq = truth(y == x)
            except Exception as e:  # noqa: BLE001
                eq = "raised %s" % type(e).__name__
            if eq is not True:
                if obj == "Measurement":
                    col.add("eq-semantics:Measurement:%s" % cname, "copy.%s(m) == m is %r for the Measurement %r"
                            % (cname, eq, x), ex)
                else:
                    col.add("%s:not-equal:%s" % (cname, ident), "copy.%s(x) == x is %r for %r" % (cname, eq, x), ex)
            if obj == "Quantity" and isinstance(x.magnitude, np.ndarray) and x.magnitude.size:
                if y.magnitude is x.magnitude or np.shares_memory(y.magnitude, x.magnitude):
                    col.add("%s:shared-magnitude:%s" % (cname, ident), "copy.%s(%r) shares the magnitude array"
                            % (cname, x), ex)
                else:
                    before = x.magnitude.copy()
                    y.magnitude.flat[0] = y.magnitude.flat[0] + 1
                    if not np.array_equal(before, x.magnitude):
                        col.add("%s:shared-magnitude:%s" % (cname, ident), "mutating copy.%s(x).magnitude changed x"
                                % cname, ex)
            if cname == "deepcopy" and y._units is x._units and obj != "Unit":
                pass  # containers are immutable: sharing is harmless
        if obj == "Quantity":
            evals += 1
            try:
                tup = x.to_tuple()
                ok_shape = (isinstance(tup, tuple) and len(tup) == 2 and isinstance(tup[1], tuple)
                            and all(isinstance(it, tuple) and len(it) == 2 and isinstance(it[0], str) for it in tup[1])
                            and dict(tup[1]) == dict(x._units) and same_magnitude(tup[0], x.magnitude) is None)
                if not ok_shape:
                    col.add("tuple:shape:%s" % ident, "%r.to_tuple() = %r" % (x, tup), ex)
                y = type(x).from_tuple(tup)
                for tag, text in compare_registry_object(y, x, origin, obj):
                    col.add("tuple:%s:%s" % (tag, ident), "from_tuple(to_tuple(%r)): %s" % (x, text), ex)
                if truth(y == x) is not True:
                    col.add("tuple:not-equal:%s" % ident, "from_tuple(to_tuple(x)) != x for %r" % (x,), ex)
                # the tuple form is plain data: it survives a pickle of its own and rebuilds in the other registry
                z = R["src"].Quantity.from_tuple(pickle.loads(pickle.dumps(tup, 2)))
                if dict(z._units) != dict(x._units) or same_magnitude(z.magnitude, x.magnitude):
                    col.add("tuple:other-registry:%s" % ident, "from_tuple in another registry gives %r for %r"
                            % (z, x), ex)
            except Exception as e:  # noqa: BLE001
                col.add("tuple:raised:%s" % ident, "tuple form of %r raised %s: %s" % (x, type(e).__name__,
                                                                                         _exc_text(e)), ex)
    return evals


def container_cases(exprs, col):
    """UnitsContainer / ParserHelper round trips; -> evaluations"""
    from pint.util import ParserHelper, UnitsContainer

    app = regs()["app"]
    evals = 0
    for i, expr in enumerate(exprs):
        with warnings.catch_warnings():
            warnings.simplefilter("ignore")
            base = dict(app.Unit(expr)._units)
        for tname, nit in (("float", float), ("Fraction", Fraction), ("Decimal", decimal.Decimal)):
            # every other exponent becomes a non-integer of the container's exponent type
            variants = {k: (v if (i + j) % 2 else nit(v) / nit(2)) for j, (k, v) in enumerate(base.items())}
            scale = (nit(7) / nit(2), 1, nit(-3))[i % 3]
            objs = [("UnitsContainer", UnitsContainer(variants, non_int_type=nit)),
                    ("ParserHelper", ParserHelper(scale, variants, non_int_type=nit))]
            if tname == "float":
                objs.append(("ParserHelper.from_string", ParserHelper.from_string("3.5 * " + expr if expr else "3.5")))
            for oname, x in objs:
                ex = {"kind": "container", "obj": oname, "unit": expr, "type": tname, "index": i}
                ident = "%s:%s:%s" % (oname, tname, expr or "dimensionless")
                ops = [("pickle-p%d" % p, (lambda o, p=p: pickle.loads(pickle.dumps(o, p)))) for p in PROTOCOLS]
                ops += [("copy", copy.copy), ("deepcopy", copy.deepcopy)]
                for opname, fn in ops:
                    evals += 1
                    try:
                        y = fn(x)
                    except Exception as e:  # noqa: BLE001
                        col.add("container:raised:%s:%s" % (opname, ident), "%s of %r raised %s: %s"
                                % (opname, x, type(e).__name__, _exc_text(e)), ex)
                        continue
                    problems = []
                    if type(y) is not type(x):
                        problems.append("type %s" % type(y).__name__)
                    if y is x:
                        problems.append("same object")
                    if not (y == x) or not (x == y):
                        problems.append("not equal: %r" % (y,))
                    if dict(y) != dict(x) or any(type(y[k]) is not type(x[k]) for k in x):
                        problems.append("items %r" % (dict(y),))
                    if y._non_int_type is not x._non_int_type or y._one != x._one or type(y._one) is not type(x._one):
                        problems.append("non_int_type / one: %r %r" % (y._non_int_type, y._one))
                    if hasattr(x, "scale") and (not hasattr(y, "scale") or y.scale != x.scale
                                                or type(y.scale) is not type(x.scale)):
                        problems.append("scale %r" % (getattr(y, "scale", None),))
                    if not hasattr(x, "scale") or x.scale == 1:
                        if hash(y) != hash(x) or hash(y) != hash(UnitsContainer(dict(x), non_int_type=nit)):
                            problems.append("hash differs")
                    try:
                        if not ((y * y) == (x * x) and (y ** 2) == (x ** 2)):
                            problems.append("algebra differs after the round trip")
                    except Exception as e:  # noqa: BLE001
                        problems.append("algebra raised %s" % type(e).__name__)
                    if "copy" in opname and getattr(y, "_d", None) is getattr(x, "_d", 0):
                        problems.append("the copy shares the internal dict")
                    for pr in problems:
                        col.add("container:%s:%s" % (opname, ident), "%s of %r: %s" % (opname, x, pr), ex)
    return evals


# =============================================================================== part: fresh application registry
def freshapp_cases(seed, count, col):
    R = regs()
    pint = R["pint"]
    src = R["src"]
    rng = random.Random(seed * 7919 + 11)
    with warnings.catch_warnings():
        warnings.simplefilter("ignore")
        fresh = pint.UnitRegistry()
    names = prefixed_names(fresh, rng, count)
    evals = 0
    before = pint.application_registry.get()
    with app_registry(fresh):
        for i, name in enumerate(names):
            with warnings.catch_warnings():
                warnings.simplefilter("ignore")
                try:
                    unit = src.Unit(name)
                except Exception:  # noqa: BLE001  (e.g. prefixed offset units do not parse)
                    continue
                if dict(unit._units) != {name: 1}:
                    continue
                p = PROTOCOLS[i % len(PROTOCOLS)]
                obj = ("Quantity", "Unit", "Measurement")[(i // len(PROTOCOLS)) % 3]
                if obj == "Unit":
                    x = unit
                elif obj == "Measurement":
                    x = src.Measurement(2.5, 0.25, unit)
                else:
                    x = src.Quantity((3, 2.5, Fraction(7, 3))[i % 3], unit)
                blob = pickle.dumps(x, p)
                ex = {"kind": "freshapp", "name": name, "obj": obj, "proto": p}
                if name in fresh._units:
                    raise AssertionError("harness: %s already known to the fresh registry" % name)
                evals += 1
                try:
                    y = pickle.loads(blob)
                except Exception as e:  # noqa: BLE001
                    col.add("freshapp:raised:%s:%s" % (obj, name), "unpickling %r (protocol %d) into a fresh application "
                            "registry raised %s: %s" % (x, p, type(e).__name__, _exc_text(e)), ex)
                    continue
                for tag, text in compare_registry_object(y, x, fresh, obj):
                    col.add("freshapp:%s:%s:%s" % (tag, obj, name), "unpickling %r into a fresh application registry: %s"
                            % (x, text), ex)
                if pint.get_application_registry().get() is not fresh or y._REGISTRY is not pint.application_registry.get():
                    col.add("freshapp:not-app:%s:%s" % (obj, name), "result not attached to the application registry", ex)
                if name not in fresh._units:
                    col.add("freshapp:not-registered:%s:%s" % (obj, name), "%s was not registered in the application "
                            "registry by unpickling" % name, ex)
                try:
                    if obj != "Unit":
                        back = y.to_root_units()
                        ref = x.to_root_units()
                        if dict(back._units) != dict(ref._units):
                            col.add("freshapp:unusable:%s:%s" % (obj, name), "root units differ: %r vs %r" % (back, ref), ex)
                except Exception as e:  # noqa: BLE001
                    col.add("freshapp:unusable:%s:%s" % (obj, name), "the unpickled object cannot be converted: %s"
                            % type(e).__name__, ex)
    if pint.application_registry.get() is not before:
        col.add("freshapp:not-restored", "set_application_registry(previous) did not restore the registry", {"kind": "freshapp"})
    return evals


# =============================================================================== part: exceptions
def _enc_args(reg, enc):
    from pint.facets.plain.definitions import UnitDefinition

    out = []
    for a in enc:
        t = a[0]
        if t == "s":
            out.append(a[1])
        elif t == "n":
            out.append(None)
        elif t == "i":
            out.append(a[1])
        elif t == "u":
            out.append(reg.Unit(a[1]))
        elif t == "q":
            out.append(reg.Quantity(a[1], a[2]))
        elif t == "uc":
            out.append(reg.UnitsContainer(a[1]))
        elif t == "t":
            out.append({"int": int, "UnitDefinition": UnitDefinition, "dict": dict}[a[1]])
        elif t == "l":
            out.append(list(a[1]))
        elif t == "tu":
            out.append(tuple(a[1]))
        elif t == "fs":
            out.append(frozenset(a[1]))
        else:
            raise ValueError(a)
    return out


def exception_arg_sets(cls, rng):
    """encoded argument tuples for an exception class of pint.errors"""
    words = ["meter", "bad unit", "", "x" * 40, "µm", "a 'quoted' %s {name}", "line1\nline2"]
    unitish = [["s", "meter"], ["u", "kilometer / hour"], ["uc", {"meter": 1, "second": -2}], ["q", 3, "degree_Celsius"],
               ["n"], ["i", 42], ["u", ""], ["s", ""]]
    name = cls.__name__
    sets = []
    if name in ("DefinitionError",):
        for t in ("int", "UnitDefinition", "dict"):
            sets.append([["s", rng.choice(words)], ["t", t], ["s", rng.choice(words)]])
    elif name == "RedefinitionError":
        for t in ("int", "UnitDefinition"):
            sets.append([["s", rng.choice(words)], ["t", t]])
    elif name == "UndefinedUnitError":
        sets += [[["s", "xyzzy"]], [["l", ["a", "b"]]], [["tu", ["a"]]], [["tu", []]], [["fs", ["only"]]],
                 [["l", [rng.choice(words), rng.choice(words), "c"]]]]
    elif name == "DimensionalityError":
        for _ in range(6):
            sets.append([rng.choice(unitish), rng.choice(unitish)])
        for _ in range(6):
            sets.append([rng.choice(unitish), rng.choice(unitish), ["s", rng.choice(("", "[length]", "[time] ** 2"))],
                         ["s", rng.choice(("", "[mass]"))]])
        for _ in range(6):
            sets.append([rng.choice(unitish), rng.choice(unitish), ["s", rng.choice(("", "[length]"))],
                         ["s", rng.choice(("", "[mass]"))], ["s", rng.choice(("", " - extra", " (%s)"))]])
    elif name in ("OffsetUnitCalculusError", "LogarithmicUnitCalculusError"):
        for _ in range(5):
            sets.append([rng.choice(unitish)])
        for _ in range(5):
            sets.append([rng.choice(unitish), rng.choice(unitish)])
    else:
        init = cls.__init__
        try:
            params = [p for p in list(inspect.signature(init).parameters.values())[1:]]
        except (TypeError, ValueError):
            params = None
        if params is None or any(p.kind in (p.VAR_POSITIONAL, p.VAR_KEYWORD) for p in params):
            sets += [[], [["s", rng.choice(words)]], [["s", "two"], ["i", 2]], [["u", "meter"], ["n"], ["s", "x"]]]
        else:
            required = [p for p in params if p.default is p.empty]
            for _ in range(4):
                sets.append([["s", rng.choice(words)] for _ in required])
            sets.append([["s", rng.choice(words)] for _ in params])
    return sets


def exception_classes():
    import pint.errors as E

    return sorted((c for c in vars(E).values() if isinstance(c, type) and issubclass(c, BaseException)
                   and c.__module__ == E.__name__), key=lambda c: c.__name__)


def exception_case(cls, enc, col):
    app = regs()["app"]
    evals = 0
    ex = {"kind": "exception", "cls": cls.__name__, "args": enc}
    with warnings.catch_warnings():
        warnings.simplefilter("ignore")
        e0 = cls(*_enc_args(app, enc))

        def text(e):
            try:
                return ("ok", str(e))
            except Exception as err:  # noqa: BLE001
                return ("raised", type(err).__name__)

        ops = [("pickle-p%d" % p, (lambda o, p=p: pickle.loads(pickle.dumps(o, p)))) for p in PROTOCOLS]
        ops += [("copy", copy.copy), ("deepcopy", copy.deepcopy)]
        for opname, fn in ops:
            evals += 1
            ident = "%s:%s:%d-args" % (cls.__name__, opname, len(enc))
            try:
                e1 = fn(e0)
            except Exception as err:  # noqa: BLE001
                col.add("exception:raised:%s" % ident, "%s of %s(%s) raised %s: %s"
                        % (opname, cls.__name__, enc, type(err).__name__, _exc_text(err)), ex)
                continue
            problems = []
            if type(e1) is not type(e0):
                problems.append("type %s" % type(e1).__name__)
            try:
                same_fields = vars(e1) == vars(e0)
            except Exception as err:  # noqa: BLE001
                same_fields = "comparison raised %s" % type(err).__name__
            if same_fields is not True:
                problems.append("fields %r, expected %r (%s)" % (vars(e1), vars(e0), same_fields))
            if text(e1) != text(e0):
                problems.append("str() %r, expected %r" % (text(e1), text(e0)))
            if not vars(e0):  # classes without fields of their own: the state is .args
                try:
                    same_args = e1.args == e0.args
                except Exception as err:  # noqa: BLE001
                    same_args = "comparison raised %s" % type(err).__name__
                if same_args is not True:
                    problems.append("args %r, expected %r" % (e1.args, e0.args))
            for pr in problems:
                col.add("exception:%s" % ident, "%s of %s(%s): %s" % (opname, cls.__name__, enc, pr), ex)
    return evals


# =============================================================================== part: cross-registry operators
def _idiv(a, b):
    a //= b
    return a


BINOPS = (
    ("add", operator.add), ("sub", operator.sub), ("mul", operator.mul), ("truediv", operator.truediv),
    ("floordiv", operator.floordiv), ("mod", operator.mod), ("divmod", divmod), ("pow", operator.pow),
    ("lt", operator.lt), ("le", operator.le), ("gt", operator.gt), ("ge", operator.ge),
    ("iadd", operator.iadd), ("isub", operator.isub), ("imul", operator.imul), ("itruediv", operator.itruediv),
    ("ifloordiv", operator.ifloordiv), ("imod", operator.imod), ("ipow", operator.ipow),
)
OPERANDS = {
    "Q": (("q", 2, "meter"), ("q", 3.5, "inch"), ("q", 2, ""), ("q", 4, "second")),
    "U": (("u", "meter"), ("u", "inch"), ("u", ""), ("u", "second")),
    "M": (("m", 2.0, 0.5, "meter"), ("m", 3.0, 0.1, "")),
}
KIND_PREFIX = {("Q", "Q"): "", ("U", "U"): "unit-", ("Q", "U"): "qu-", ("U", "Q"): "uq-", ("M", "M"): "meas-",
               ("Q", "M"): "qm-", ("M", "Q"): "mq-", ("U", "M"): "um-", ("M", "U"): "mu-"}


def make_operand(reg, d):
    if d[0] == "q":
        return reg.Quantity(d[1], d[2])
    if d[0] == "u":
        return reg.Unit(d[1])
    return reg.Measurement(d[1], d[2], d[3])


PAIR_NAMES = ("fresh-vs-fresh", "source-vs-deepcopy", "deepcopy-vs-source", "explicit-vs-application",
              "explicit-vs-lazy", "fraction-vs-float")


def registry_pairs():
    R = regs()
    pint = R["pint"]
    if "pairs" not in R:
        with warnings.catch_warnings():
            warnings.simplefilter("ignore")
            a = pint.UnitRegistry()
            lazy = pint.LazyRegistry()
            lazy.meter  # noqa: B018  (initialise)
            R["pairs"] = {"fresh-vs-fresh": (a, pint.UnitRegistry()), "source-vs-deepcopy": (a, copy.deepcopy(a)),
                          "deepcopy-vs-source": (copy.deepcopy(R["src"]), R["src"]),
                          "explicit-vs-application": (a, R["app"]), "explicit-vs-lazy": (a, lazy),
                          "fraction-vs-float": (pint.UnitRegistry(non_int_type=Fraction), a)}
    return R["pairs"]


def cross_case(pair, opname, lk, rk, li, ri, col, observations=None):
    """one operator on operands of two registries; -> 1 if the case applies (same-registry analogue evaluates) else 0"""
    r1, r2 = registry_pairs()[pair]
    op = dict(BINOPS + (("eq", operator.eq), ("ne", operator.ne)))[opname]
    ld, rd = OPERANDS[lk][li], OPERANDS[rk][ri]
    with warnings.catch_warnings():
        warnings.simplefilter("ignore")
        try:
            op(make_operand(r1, ld), make_operand(r1, rd))
        except Exception:  # noqa: BLE001  the expression is not defined within one registry: nothing to require
            return 0
        ex = {"kind": "cross", "pair": pair, "op": opname, "left": [lk, li], "right": [rk, ri]}
        text = "%s(%s, %s) with the operands in two registries (%s)" % (opname, ld, rd, pair)
        try:
            res = op(make_operand(r1, ld), make_operand(r2, rd))
            raised = None
        except Exception as e:  # noqa: BLE001
            raised = e
        if opname in ("eq", "ne"):
            if observations is not None and raised is None:
                observations.add("%s%s between objects of two registries returns %s without raising"
                                 % (KIND_PREFIX[(lk, rk)], opname, safe_repr(res)))
            return 1
        case = "cross-registry:%s%s" % (KIND_PREFIX[(lk, rk)], opname)
        if raised is None:
            col.add(case, "%s evaluates silently to %s; expected ValueError" % (text, safe_repr(res)), ex)
        elif type(raised) is not ValueError:
            col.add(case + ":wrong-exception:" + type(raised).__name__, "%s raised %s (%s); expected ValueError"
                    % (text, type(raised).__name__, _exc_text(raised)), ex)
    return 1


def cross_cases(col, observations):
    evals = 0
    assert tuple(registry_pairs()) == PAIR_NAMES
    for pair in PAIR_NAMES:
        for opname, _ in BINOPS + (("eq", None), ("ne", None)):
            for lk in OPERANDS:
                for rk in OPERANDS:
                    for li in range(len(OPERANDS[lk])):
                        for ri in range(len(OPERANDS[rk])):
                            evals += cross_case(pair, opname, lk, rk, li, ri, col, observations)
    return evals


# =============================================================================== part: deep-copied registries
def _define(text):
    return lambda reg: reg.define(text)


def _mut_add_context(reg):
    pint = regs()["pint"]
    ctx = pint.Context("c18ctx")
    ctx.add_transformation("[length]", "[time]", lambda ureg, x: x / ureg.Quantity(2, "meter/second"))
    reg.add_context(ctx)


def _mut_default_format(reg):
    reg.formatter.default_format = "~P"


def _mut_system(reg):
    reg.default_system = "imperial"


def _mut_autoconvert(reg):
    reg.autoconvert_offset_to_baseunit = True


def _mut_preprocessor(reg):
    reg.preprocessors.append(lambda s: s.replace("%%", " percent "))


def _mut_sp_transformation(reg):
    # extend a context object held by the registry (a shared Context object would leak into the other registry)
    reg._contexts["sp"].add_transformation("[length]", "[mass]", lambda ureg, x: x * ureg.Quantity(3, "gram/meter"))


def _mut_replace_transformation(reg):
    # same (source, destination) key as the stock [length] -> [frequency] rule of the spectroscopy context
    reg._contexts["sp"].add_transformation("[length]", "1 / [time]", lambda ureg, x, **kw: ureg.Quantity(42, "hertz"))


def _mut_context_defaults(reg):
    reg._contexts["sp"].defaults["n"] = 2  # refractive index used by the spectroscopy rules


MUTATIONS = {
    "define-unit": _define("smoot = 1.7018 * meter = smt"),
    "define-alias": _define("@alias meter = c18_metre"),
    "define-prefix": _define("c18kibo- = 1024"),
    "define-dimension": _define("c18base = [c18dim]"),
    "define-derived": _define("c18speed = 12 * smoot / hour") ,
    "redefine-foot": _define("foot = 0.3 * meter"),
    "redefine-prefixed": _define("kilometer = 999 * meter"),
    "enable-context": lambda reg: reg.enable_contexts("sp"),
    "remove-context": lambda reg: reg.remove_context("sp"),
    "add-context": _mut_add_context,
    "extend-context": _mut_sp_transformation,
    "replace-transformation": _mut_replace_transformation,
    "context-defaults": _mut_context_defaults,
    "default-system": _mut_system,
    "default-format": _mut_default_format,
    "autoconvert-offset": _mut_autoconvert,
    "preprocessor": _mut_preprocessor,
    "case-insensitive": lambda reg: setattr(reg, "case_sensitive", False),
    "parse-prefixed": lambda reg: reg.Quantity(1, "zeptofurlong / yottafortnight").to_root_units(),
}


def _probe_battery():
    Q = lambda reg, *a: reg.Quantity(*a)  # noqa: E731
    return [
        ("smoot", lambda r: Q(r, 2, "smoot").to("meter")),
        ("smt-symbol", lambda r: Q(r, 1, "kilosmt").to("meter")),
        ("alias", lambda r: Q(r, 1, "c18_metre").to("cm")),
        ("prefix", lambda r: Q(r, 1, "c18kibometer").to("meter")),
        ("dimension", lambda r: r.get_dimensionality("c18base")),
        ("derived", lambda r: Q(r, 1, "c18speed").to("meter/second")),
        ("foot", lambda r: Q(r, 10, "foot").to("meter")),
        ("survey-foot", lambda r: Q(r, 1, "mile").to("meter")),
        ("kilometer", lambda r: Q(r, 1, "kilometer").to("meter")),
        ("inch-cached", lambda r: Q(r, 36, "inch").to("yard")),
        ("spectroscopy", lambda r: Q(r, 500, "nanometer").to("terahertz")),
        ("spectroscopy-explicit", lambda r: Q(r, 500, "nanometer").to("terahertz", "sp")),
        ("c18ctx", lambda r: Q(r, 6, "meter").to("second", "c18ctx")),
        ("sp-extension", lambda r: Q(r, 2, "meter").to("gram", "sp")),
        ("base-units", lambda r: Q(r, 1, "mile / hour").to_base_units()),
        ("default-system", lambda r: r.default_system),
        ("format", lambda r: "%s|%s" % (Q(r, 1.5, "meter / second"), format(r.Unit("kilogram * meter"), ""))),
        ("offset-mul", lambda r: Q(r, 10, "degree_Celsius") * 2),
        ("preprocessor", lambda r: r("3 %% ")),
        ("case", lambda r: r.parse_units("METER")),
        ("zepto", lambda r: sorted(k for k in ("zeptofurlong", "yottafortnight") if k in r._units)),
        ("ownership", lambda r: (Q(r, 1, "meter")._REGISTRY is r, r.Unit("meter")._REGISTRY is r, r.meter._REGISTRY is r,
                                 r.Measurement(1, 0.1, "meter")._REGISTRY is r)),
        ("contains", lambda r: ("smoot" in r, "meter" in r, "c18_metre" in r)),
        ("contexts", lambda r: sorted(set(c.name for c in r._contexts.values()))),
        ("active", lambda r: sorted(c.name for c in r._active_ctx.contexts) if hasattr(r._active_ctx, "contexts") else None),
        ("group-root", lambda r: len(r.get_group("root").members)),
        ("compatible", lambda r: len(r.get_compatible_units("meter"))),
        ("n-units", lambda r: len(set(r._units)) - sum(1 for k in ("zeptofurlong", "yottafortnight") if k in r._units)),
    ]


def run_probes(reg):
    out = {}
    for name, fn in _probe_battery():
        with warnings.catch_warnings():
            warnings.simplefilter("ignore")
            try:
                out[name] = "ok: %r" % (fn(reg),)
            except Exception as e:  # noqa: BLE001
                out[name] = "raised %s" % type(e).__name__
    return out


def warm_up(reg):
    with warnings.catch_warnings():
        warnings.simplefilter("ignore")
        reg.Quantity(36, "inch").to("yard")
        reg.Quantity(1, "millifoot").to("meter")
        reg.Quantity(1, "mile / hour").to_base_units()
        reg.Quantity(10, "foot").to("meter")
        with reg.context("sp"):
            reg.Quantity(500, "nanometer").to("terahertz")
        reg.parse_expression("3 kilometer / hour")
        reg.get_compatible_units("meter")
        format(reg.Quantity(1.5, "meter / second"))


def deepcopy_case(history, direction, col):
    """history: list of mutation names; direction 'copy' (mutate the copy) or 'source'; -> evaluations (probe comparisons)"""
    pint = regs()["pint"]
    if direction == "orphan":
        return orphan_case(col), 0
    ex = {"kind": "deepcopy", "history": list(history), "direction": direction}
    ident = "%s:%s" % (direction, "+".join(history))
    with warnings.catch_warnings():
        warnings.simplefilter("ignore")
        a = pint.UnitRegistry()
        warm_up(a)
        b = copy.deepcopy(a)
        c = pint.UnitRegistry()
        warm_up(c)
        run_probes(a), run_probes(b), run_probes(c)  # first pass: lets every probe register the prefixed units it parses
        before_a, before_b = run_probes(a), run_probes(b)
        evals = 0
        for k in before_a:
            evals += 1
            if before_a[k] != before_b[k]:
                col.add("deepcopy:copy-differs:%s" % k, "right after copy.deepcopy the probe %s answers %s on the source "
                        "and %s on the copy" % (k, before_a[k], before_b[k]), ex)
        touched, untouched, before_untouched = (b, a, before_a) if direction == "copy" else (a, b, before_b)
        for name in history:
            outcome = []
            for reg in (touched, c):
                try:
                    MUTATIONS[name](reg)
                    outcome.append("ok")
                except Exception as e:  # noqa: BLE001
                    outcome.append("raised %s" % type(e).__name__)
            evals += 1
            if outcome[0] != outcome[1]:
                col.add("deepcopy:mutation-outcome:%s:%s" % (name, ident), "mutation %s: %s on the %s of the pair, %s on "
                        "an independently built registry" % (name, outcome[0], "copy" if direction == "copy" else "source",
                                                              outcome[1]), ex)
        after_untouched, after_touched, after_c = run_probes(untouched), run_probes(touched), run_probes(c)
        for k in before_untouched:
            evals += 2
            if after_untouched[k] != before_untouched[k]:
                col.add("deepcopy:leak:%s:%s" % (k, ident), "after %s on the %s, the %s answers probe %s with %s (before: %s)"
                        % ("+".join(history), "copy" if direction == "copy" else "source",
                           "source" if direction == "copy" else "copy", k, after_untouched[k], before_untouched[k]), ex)
            if after_touched[k] != after_c[k]:
                col.add("deepcopy:diverges:%s:%s" % (k, ident), "after %s the %s answers probe %s with %s, an independently "
                        "built registry with the same history answers %s"
                        % ("+".join(history), "copy" if direction == "copy" else "source of a copied pair", k,
                           after_touched[k], after_c[k]), ex)
        changed = sum(1 for k in after_touched if after_touched[k] != (before_b if direction == "copy" else before_a)[k])
    return evals, changed


def orphan_case(col):
    """the copy must keep working when the source registry is dropped"""
    import gc

    pint = regs()["pint"]
    with warnings.catch_warnings():
        warnings.simplefilter("ignore")
        a = pint.UnitRegistry()
        warm_up(a)
        b = copy.deepcopy(a)
        run_probes(b)
        before = run_probes(b)
        del a
        gc.collect()
        after = run_probes(b)
    for k in before:
        if before[k] != after[k]:
            col.add("deepcopy:orphan:%s" % k, "after the source registry was deleted the copy answers probe %s with %s "
                    "(before: %s)" % (k, after[k], before[k]), {"kind": "deepcopy", "history": [], "direction": "orphan"})
    return len(before)


def histories(rng, tier):
    names = sorted(MUTATIONS)
    out = [((), "orphan")] + [((n,), d) for n in names for d in ("copy", "source")]
    extra = 12 if tier == "quick" else 400
    for i in range(extra):
        k = rng.choice((2, 2, 3, 4))
        h = tuple(rng.sample(names, k))
        out.append((h, ("copy", "source")[i % 2]))
    return out


# =============================================================================== part: lazy registry (child side)
def lazy_probes():
    """(id, mutating?, function(reg, pint)) -- results are compared through repr"""
    import pint

    def ctx(reg):
        with reg.context("sp"):
            return reg.Quantity(500, "nanometer").to("terahertz")

    def setfmt(reg):
        reg.formatter.default_format = "~P"
        return format(reg.Quantity(1.5, "meter / second"))

    def setsys(reg):
        reg.default_system = "imperial"
        return reg.Quantity(1, "meter").to_base_units()

    def define(reg):
        reg.define("smoot = 1.7018 * meter")
        return reg.Quantity(2, "smoot").to("meter")

    def redefine(reg):
        with warnings.catch_warnings():
            warnings.simplefilter("ignore")
            reg.define("foot = 0.3 * meter")
        return reg.Quantity(10, "foot").to("meter")

    def enable(reg):
        reg.enable_contexts("sp")
        out = reg.Quantity(500, "nanometer").to("terahertz")
        reg.disable_contexts()
        return out

    def addctx(reg):
        c = pint.Context("c18lazy")
        c.add_transformation("[length]", "[time]", lambda ureg, x: x / ureg.Quantity(2, "meter/second"))
        reg.add_context(c)
        return reg.Quantity(6, "meter").to("second", "c18lazy")

    def setattr_auto(reg):
        reg.autoconvert_offset_to_baseunit = True
        return reg.Quantity(10, "degree_Celsius") * 2

    def deep(reg):
        c = copy.deepcopy(reg)
        return (type(c).__name__, c.Quantity(1, "inch").to("cm"), c.Quantity(1, "m")._REGISTRY is c)

    def shallow(reg):
        c = copy.copy(reg)
        return (type(c).__name__, c.Quantity(1, "inch").to("cm"))

    def wraps(reg):
        return reg.wraps("meter", "centimeter")(lambda x: x)(reg.Quantity(1, "meter"))

    def check(reg):
        return reg.check("[length]")(lambda x: x)(reg.Quantity(1, "meter"))

    def pick(reg):
        q = reg.Quantity(3, "kilometer")
        return (q.to_tuple(), reg.Quantity.from_tuple(q.to_tuple()) == q)

    P = [
        ("getattr-unit", 0, lambda r: r.meter),
        ("getattr-prefixed", 0, lambda r: r.kilometer),
        ("getattr-undefined", 0, lambda r: r.no_such_unit_xyz),
        ("hasattr-undefined", 0, lambda r: hasattr(r, "no_such_unit_xyz")),
        ("quantity-convert", 0, lambda r: r.Quantity(3, "kilometer").to("mile")),
        ("call", 0, lambda r: r("3 km + 2 m")),
        ("getitem", 0, lambda r: r["3 m"]),
        ("parse-expression", 0, lambda r: r.parse_expression("2 m/s**2")),
        ("parse-units", 0, lambda r: r.parse_units("kg*m/s^2")),
        ("parse-unit-name", 0, lambda r: r.parse_unit_name("kilometer")),
        ("unit-dimensionality", 0, lambda r: dict(r.Unit("newton").dimensionality)),
        ("format-pretty", 0, lambda r: format(r.Quantity(1.5, "m/s"), "~P")),
        ("format-latex", 0, lambda r: format(r.Quantity(1.5, "km/h"), "L")),
        ("str-default", 0, lambda r: str(r.Quantity(2, "kg*m"))),
        ("get-name", 0, lambda r: (r.get_name("km"), r.get_symbol("kilometer"))),
        ("get-base-units", 0, lambda r: r.get_base_units("inch")),
        ("get-root-units", 0, lambda r: r.get_root_units("horsepower")),
        ("get-dimensionality", 0, lambda r: dict(r.get_dimensionality("watt"))),
        ("convert", 0, lambda r: r.convert(1, "inch", "cm")),
        ("settings", 0, lambda r: (r.default_system, r.formatter.default_format, r.non_int_type, r.case_sensitive,
                                    r.auto_reduce_dimensions, r.autoconvert_offset_to_baseunit, r.force_ndarray,
                                    r.force_ndarray_like, r.fmt_locale, r.cache_folder, len(r.preprocessors),
                                    r.default_as_delta, r.autoconvert_to_preferred)),
        ("contains", 0, lambda r: ("meter" in r, "kilometer" in r, "xyzzy" in r)),
        ("iter", 0, lambda r: (lambda names: ("meter" in names, "second" in names, len(names) > 500))(set(iter(r)))),
        ("dir", 0, lambda r: (lambda names: ("meter" in names, "Quantity" in names, "define" in names,
                                             len(names) > 500))(set(dir(r)))),
        ("offset-convert", 0, lambda r: r.Quantity(25, "degC").to("degF")),
        ("context-arg", 0, lambda r: r.Quantity(500, "nm").to("THz", "sp")),
        ("context-with", 0, ctx),
        ("measurement", 0, lambda r: r.Measurement(1, 0.1, "m")),
        ("systems", 0, lambda r: (sorted(dir(r.sys)), len(r.get_group("root").members))),
        ("compatible-units", 0, lambda r: len(r.get_compatible_units("meter"))),
        ("is-compatible", 0, lambda r: (r.is_compatible_with("m", "inch"), r.is_compatible_with("m", "s"))),
        ("numpy", 0, lambda r: r.Quantity([1, 2], "m").to("cm")),
        ("wraps", 0, wraps),
        ("check", 0, check),
        ("pi-theorem", 0, lambda r: r.pi_theorem({"V": "m/s", "T": "s", "L": "m"})),
        ("add", 0, lambda r: r.Quantity(1, "m") + r.Quantity(1, "cm")),
        ("compare", 0, lambda r: (r.Quantity(3, "m") == r.Quantity(300, "cm"), r.Quantity(3, "m") < r.Quantity(1, "km"))),
        ("type-after", 0, lambda r: (r.meter, type(r).__name__, isinstance(r, pint.UnitRegistry))[1:]),
        ("ownership", 0, lambda r: (r.Quantity(1, "m")._REGISTRY is r, r.Quantity._REGISTRY is r, r.Unit._REGISTRY is r)),
        ("units-container", 0, lambda r: r.UnitsContainer({"m": 1})),
        ("unit-eq", 0, lambda r: r.Unit("km") == r.Unit("kilometer")),
        ("micro", 0, lambda r: r.Quantity(1, "µm").to("nm")),
        ("tuple-form", 0, pick),
        ("deepcopy", 0, deep),
        ("copy", 0, shallow),
        ("on-redefinition", 0, lambda r: (r.meter, r._on_redefinition)[1]),
        ("define", 1, define),
        ("redefine", 1, redefine),
        ("setattr-format", 1, setfmt),
        ("setattr-system", 1, setsys),
        ("setattr-autoconvert", 1, setattr_auto),
        ("enable-contexts", 1, enable),
        ("add-context", 1, addctx),
        ("define-alias", 1, lambda r: (r.define("@alias meter = c18_metre"), r.Quantity(1, "c18_metre").to("cm"))[1]),
        ("load-definitions", 1, lambda r: (r.load_definitions(["smoot = 1.7018 * meter"]), r.Quantity(1, "smoot").to("m"))[1]),
        ("define-prefix", 1, lambda r: (r.define("c18kibo- = 1024"), r.Quantity(1, "c18kibometer").to("m"))[1]),
    ]
    return P


APP_FIRST_USES = (
    ("pint.Quantity", "pint.Quantity(3, 'kilometer').to('mile')"),
    ("pint.Unit", "pint.Unit('kilometer / hour')"),
    ("pint.Measurement", "pint.Measurement(1.0, 0.1, 'meter')"),
    ("unpickle-quantity", "pickle.loads(BLOB_Q)"),
    ("unpickle-unit", "pickle.loads(BLOB_U)"),
    ("unpickle-measurement", "pickle.loads(BLOB_M)"),
    ("app.getattr", "pint.application_registry.meter"),
    ("app.contains", "('meter' in pint.application_registry, 'xyzzy' in pint.application_registry)"),
    ("app.call", "pint.application_registry('3 km + 2 m')"),
    ("app.getitem", "pint.application_registry['3 m']"),
    ("app.iter", "'meter' in set(pint.application_registry)"),
    ("app.dir", "set(dir(pint.application_registry)) >= {'meter', 'Quantity', 'define'}"),
    ("get_application_registry.define", "(pint.get_application_registry().define('smoot = 1.7018 * meter'), "
                                        "pint.Quantity(2, 'smoot').to('meter'))[1]"),
    ("app.setattr", "(setattr(pint.application_registry, 'default_system', 'imperial'), "
                    "pint.Quantity(1, 'meter').to_base_units())[1]"),
)
APP_EXPLICIT = {  # the same expression over an explicitly built registry `ex`
    "pint.Quantity": "ex.Quantity(3, 'kilometer').to('mile')", "pint.Unit": "ex.Unit('kilometer / hour')",
    "pint.Measurement": "ex.Measurement(1.0, 0.1, 'meter')",
    "unpickle-quantity": "ex.Quantity(3, 'attoparsec / microfortnight')", "unpickle-unit": "ex.Unit('zeptofurlong')",
    "unpickle-measurement": "ex.Measurement(2.5, 0.25, 'millifoot')",
    "app.getattr": "ex.meter", "app.contains": "('meter' in ex, 'xyzzy' in ex)", "app.call": "ex('3 km + 2 m')",
    "app.getitem": "ex['3 m']", "app.iter": "'meter' in set(ex)", "app.dir": "set(dir(ex)) >= {'meter', 'Quantity', 'define'}",
    "get_application_registry.define": "(ex.define('smoot = 1.7018 * meter'), ex.Quantity(2, 'smoot').to('meter'))[1]",
    "app.setattr": "(setattr(ex, 'default_system', 'imperial'), ex.Quantity(1, 'meter').to_base_units())[1]",
}


def _outcome(fn):
    import signal

    def on_alarm(*a):
        raise TimeoutError("probe did not finish within 60 s")

    signal.signal(signal.SIGALRM, on_alarm)
    signal.alarm(60)
    try:
        with warnings.catch_warnings():
            warnings.simplefilter("ignore")
            r = fn()
            if hasattr(r, "magnitude") and hasattr(r.magnitude, "nominal_value"):
                return "ok: measurement %r %r %r" % (r.magnitude.nominal_value, r.magnitude.std_dev, r.units)
            return "ok: %r" % (r,)
    except Exception as e:  # noqa: BLE001
        return "raised %s" % type(e).__name__
    finally:
        signal.alarm(0)


def child_main(spec):
    """runs in a fresh interpreter; prints a JSON list of [probe id, lazy outcome, explicit outcome]"""
    import pint

    out = []
    probes = lazy_probes()
    if spec["mode"] == "lazy":
        with warnings.catch_warnings():
            warnings.simplefilter("ignore")
            shared = pint.UnitRegistry()
        for pid in spec["probes"]:
            _, mutating, fn = next(p for p in probes if p[0] == pid)
            lazy = pint.LazyRegistry()
            lo = _outcome(lambda: fn(lazy))
            if mutating or pid in ("deepcopy", "copy"):
                with warnings.catch_warnings():
                    warnings.simplefilter("ignore")
                    ex = pint.UnitRegistry()
            else:
                ex = shared
            eo = _outcome(lambda: fn(ex))
            out.append(["lazy:first-use:" + pid, lo, eo])
            # the (now initialised) lazy registry must keep answering like an explicit one
            if type(lazy) is pint.UnitRegistry and not mutating:
                for pid2, mut2, fn2 in probes:
                    if mut2 or pid2 in ("deepcopy", "copy"):
                        continue
                    l2 = _outcome(lambda: fn2(lazy))
                    e2 = _outcome(lambda: fn2(shared))
                    out.append(["lazy:after-first-use:%s" % pid2, l2, e2] if l2 != e2 else ["=", "", ""])
    else:
        first = spec["first"]
        expr = dict(APP_FIRST_USES)[first]
        blobs = {k: bytes.fromhex(v) for k, v in spec["blobs"].items()}
        env = {"pint": pint, "pickle": pickle, "BLOB_Q": blobs["q"], "BLOB_U": blobs["u"], "BLOB_M": blobs["m"]}
        untouched = type(pint.application_registry.get()).__name__
        lo = _outcome(lambda: eval(expr, env))  # noqa: S307
        with warnings.catch_warnings():
            warnings.simplefilter("ignore")
            ex = pint.UnitRegistry()
        eo = _outcome(lambda: eval(APP_EXPLICIT[first], {"ex": ex}))  # noqa: S307
        out.append(["lazy:app-first-use:" + first, lo, eo])
        out.append(["lazy:app-was-lazy:" + first, untouched, "LazyRegistry"])
        out.append(["lazy:app-type-after:" + first, type(pint.application_registry.get()).__name__, "UnitRegistry"])
        app = pint.application_registry.get()
        with warnings.catch_warnings():
            warnings.simplefilter("ignore")
            shared = pint.UnitRegistry()
            if first in ("get_application_registry.define", "app.setattr"):
                eval(APP_EXPLICIT[first], {"ex": shared})  # noqa: S307  same history
        for pid2, mut2, fn2 in probes:
            if mut2 or pid2 in ("deepcopy", "copy"):
                continue
            l2 = _outcome(lambda: fn2(app))
            e2 = _outcome(lambda: fn2(shared))
            out.append(["lazy:app-after-first-use:%s" % pid2, l2, e2] if l2 != e2 else ["=", "", ""])
        # unpickled objects belong to the application registry
        if first.startswith("unpickle"):
            obj = eval(expr, env)  # noqa: S307
            out.append(["lazy:app-unpickle-owner:" + first, repr(obj._REGISTRY is pint.application_registry.get()), "True"])
    sys.stdout.write("\n@@C18" + json.dumps(out) + "\n")


def run_children(specs, workers):
    """-> list of (spec, rows)"""
    root = os.path.dirname(os.path.dirname(os.path.abspath(__file__)))
    env = dict(os.environ)
    env["PYTHONPATH"] = root + (os.pathsep + env["PYTHONPATH"] if env.get("PYTHONPATH") else "")
    env["PYTHONDONTWRITEBYTECODE"] = "1"
    results = []
    pending = list(specs)
    running = []
    while pending or running:
        while pending and len(running) < workers:
            sp = pending.pop(0)
            pr = subprocess.Popen([sys.executable, "-m", "standins.c18_serialize", "--child", json.dumps(sp)],
                                  stdout=subprocess.PIPE, stderr=subprocess.PIPE, env=env, cwd=root, text=True)
            running.append((sp, pr))
        sp, pr = running.pop(0)
        so, se = pr.communicate(timeout=900)
        line = [ln for ln in so.splitlines() if ln.startswith("@@C18")]
        if pr.returncode != 0 or not line:
            raise RuntimeError("lazy child failed (%s): %s" % (sp, se[-2000:]))
        results.append((sp, json.loads(line[-1][5:])))
    return results


def lazy_part(col, workers, only=None):
    R = regs()
    src = R["src"]
    blobs = {"q": pickle.dumps(src.Quantity(3, "attoparsec / microfortnight"), 2).hex(),
             "u": pickle.dumps(src.Unit("zeptofurlong"), 4).hex(),
             "m": pickle.dumps(src.Measurement(2.5, 0.25, "millifoot"), 0).hex()}
    ids = [p[0] for p in lazy_probes()]
    specs = [{"mode": "lazy", "probes": ids[i::8]} for i in range(8)]
    specs += [{"mode": "app", "first": f, "blobs": blobs} for f, _ in APP_FIRST_USES]
    evals = 0
    for sp, rows in run_children(specs, workers):
        for case, lo, eo in rows:
            evals += 1
            if case == "=":
                continue
            if only is not None and case != only:
                continue
            if lo != eo:
                col.add(case, "lazy / application registry: %s, explicitly built UnitRegistry(): %s" % (lo, eo),
                        {"kind": "lazy", "case": case})
    return evals


# =============================================================================== driver
def _worker(task):
    kind = task[0]
    col = Collector()
    R = regs()
    evals = nontrivial = 0
    extra = None
    if kind == "roundtrip":
        with app_registry(R["app"]):
            for desc in task[1]:
                e = roundtrip_case(desc, col)
                evals += e
                nontrivial += e
    elif kind == "container":
        with app_registry(R["app"]):
            evals = nontrivial = container_cases(task[1], col)
    elif kind == "freshapp":
        evals = nontrivial = freshapp_cases(task[1], task[2], col)
    elif kind == "exceptions":
        with app_registry(R["app"]):
            rng = random.Random(task[1])
            for cls in exception_classes():
                for enc in exception_arg_sets(cls, rng):
                    e = exception_case(cls, enc, col)
                    evals += e
                    nontrivial += e
    elif kind == "cross":
        obs = set()
        with app_registry(R["app"]):
            evals = nontrivial = cross_cases(col, obs)
        extra = sorted(obs)
    elif kind == "deepcopy":
        changed = 0
        for h, d in task[1]:
            e, ch = deepcopy_case(h, d, col)
            evals += e
            nontrivial += e
            changed += ch
        extra = changed
    return kind, evals, nontrivial, col.entries, extra


def run(tier: str = "quick", seed: int = 0, **kw) -> dict:
    t0 = time.time()
    cpu0 = _cpu_total()
    workers = int(kw.get("workers", NWORKERS))
    quick = tier == "quick"
    rng = random.Random(seed)
    R = regs()
    pint = R["pint"]
    app_before = pint.application_registry.get()
    n_units = 200 if quick else 3000
    exprs = unit_catalogue(R["app"], rng, n_units)
    mags = magnitude_catalogue(rng)
    descs = []
    for i, expr in enumerate(exprs):
        for j, mag in enumerate(mags):
            origin = ("app", "app", "src")[(i + j) % 3]
            if mag[0] == "uf":
                descs.append({"obj": "Measurement", "origin": origin, "unit": expr, "mag": mag})
            else:
                descs.append({"obj": "Quantity", "origin": origin, "unit": expr, "mag": mag})
        descs.append({"obj": "Unit", "origin": "app", "unit": expr, "mag": None})
        descs.append({"obj": "Unit", "origin": "src", "unit": expr, "mag": None})
    tasks = []
    chunk = max(1, len(descs) // (workers * 4))
    for lo in range(0, len(descs), chunk):
        tasks.append(("roundtrip", descs[lo:lo + chunk]))
    cchunk = max(1, len(exprs) // workers)
    for lo in range(0, len(exprs), cchunk):
        tasks.append(("container", exprs[lo:lo + cchunk]))
    tasks.append(("freshapp", seed, 216 if quick else 1800))
    tasks.append(("exceptions", seed))
    tasks.append(("cross",))
    hist = histories(rng, tier)
    hchunk = max(1, len(hist) // (workers * 2))
    for lo in range(0, len(hist), hchunk):
        tasks.append(("deepcopy", hist[lo:lo + hchunk]))
    tasks.sort(key=lambda t: {"deepcopy": 0, "cross": 1, "freshapp": 2}.get(t[0], 3))
    col = Collector()
    # the lazy part runs in fresh interpreters, concurrently with the pool
    from concurrent.futures import ThreadPoolExecutor

    lazy_col = Collector()
    pool = mp.get_context("fork").Pool(workers) if workers > 1 else None  # fork before any thread exists
    try:
        with ThreadPoolExecutor(1) as tp:
            fut = tp.submit(lazy_part, lazy_col, max(2, workers // 2))
            if pool is not None:
                results = pool.map(_worker, tasks, chunksize=1)
            else:
                results = [_worker(t) for t in tasks]
            lazy_evals = fut.result()
    finally:
        if pool is not None:
            pool.close()
            pool.join()
    col.merge(lazy_col.entries)
    by_part = {"lazy": lazy_evals}
    evals = nontrivial = lazy_evals
    observations = []
    effective = 0
    for kind, e, nt, entries, extra in results:
        evals += e
        nontrivial += nt
        by_part[kind] = by_part.get(kind, 0) + e
        col.merge(entries)
        if kind == "cross":
            observations += extra
        if kind == "deepcopy":
            effective += extra
    if pint.application_registry.get() is not app_before:
        col.add("app-registry-not-restored", "the application registry differs after the run", {"kind": "driver"})
    entries = sorted(col.entries.values(), key=lambda e: e["case"])
    buckets = {}
    for e in entries:
        parts = e["case"].split(":")
        buckets.setdefault(parts[0] if parts[0] == "cross-registry" else ":".join(parts[:2]), []).append(e)
    chosen, i = [], 0
    while len(chosen) < 25 and any(i < len(b) for b in buckets.values()):
        for k in sorted(buckets):
            if i < len(buckets[k]) and len(chosen) < 25:
                chosen.append(buckets[k][i])
        i += 1
    chosen.sort(key=lambda e: e["case"])
    nexc = sum(len(exception_arg_sets(c, random.Random(seed))) for c in exception_classes())
    bound = (
        "%d unit expressions drawn (seed %d) from the default registry's tables (plain, prefix+name, products of 2-3 with "
        "exponents -3..3, offset units; %d fixed ones incl. kilometer, microsecond, attoparsec/microfortnight) x %d "
        "magnitudes (int, float, inf, Fraction, Decimal, ndarray float64[3] / int64[2,2] / float32[0] / float64[], "
        "np.float64, ufloat Measurement) + Unit, objects built in the application registry or in another registry: "
        "pickle protocols %s, copy, deepcopy, tuple form; UnitsContainer / ParserHelper of the same expressions x "
        "{float, Fraction, Decimal} exponents x protocols + copy + deepcopy; %d never-seen prefixed units unpickled into a "
        "fresh application registry (Quantity / Unit / Measurement x protocols cycled); %d exception classes of "
        "pint.errors x %d argument tuples x (6 protocols + copy + deepcopy); cross-registry: %d registry pairs x %d "
        "operators (+2 observed: ==, !=) x operand kinds {Quantity x4, Unit x4, Measurement x2}^2 (cases whose "
        "one-registry analogue raises are skipped); %d mutation histories (source deleted; every single mutation of %d on the copy "
        "and on the source; random sequences of 2-4) x %d probes; lazy: %d first-use probes of pint.LazyRegistry() + %d "
        "first uses of the module-level application registry, each in a fresh interpreter, followed by the read-only "
        "battery" % (len(exprs), seed, len(MUST_HAVE), len(mags), list(PROTOCOLS), 216 if quick else 1800,
                     len(exception_classes()), nexc, len(PAIR_NAMES), len(BINOPS), len(hist), len(MUTATIONS),
                     len(_probe_battery()), len(lazy_probes()), len(APP_FIRST_USES)))
    samples = [
        {"part": "roundtrip", "case": descs[0]}, {"part": "roundtrip", "case": descs[len(descs) // 2]},
        {"part": "deepcopy", "history": list(hist[-1][0]), "mutated": hist[-1][1]},
        {"part": "cross", "expression": "u1.Quantity(2, 'meter') ** u2.Quantity(2, '')"},
        {"part": "lazy", "first use": APP_FIRST_USES[3][1]},
    ]
    return {
        "name": NAME,
        "tier": tier,
        "seed": seed,
        "bound": bound,
        "evaluations": evals,
        "evaluations_by_part": by_part,
        "distinct_nontrivial": nontrivial,
        "rule": "one evaluation = one pickle / copy / deepcopy / tuple round trip, one cross-registry expression whose "
                "one-registry analogue evaluates, one probe comparison (deepcopy, lazy); all are non-trivial by construction "
                "(dimensionless and plain units are a small fixed part of the catalogue)",
        "exhaustive": False,
        "exhaustive_scope": "exception classes, operators x operand kinds, single mutations and the lazy battery are "
                            "enumerated completely; unit expressions, magnitudes and mutation sequences are seeded samples",
        "violations": chosen,
        "violation_count": len(entries),
        "violating_evaluations": sum(e["instances"] for e in entries),
        "violation_classes": {k: len(b) for k, b in sorted(buckets.items())},
        "observations": observations[:12] + ["%d probe answers changed on mutated registries (sensitivity of the deepcopy "
                                            "battery)" % effective],
        "samples": samples,
        "seconds": round(time.time() - t0, 1),
        "cpu_seconds": round(_cpu_total() - cpu0, 1),
    }


def replay(data: dict) -> bool:
    R = regs()
    ok = True
    for ex in data.get("examples", []):
        col = Collector()
        kind = ex["kind"]
        if kind == "roundtrip":
            with app_registry(R["app"]):
                roundtrip_case({k: ex[k] for k in ("obj", "origin", "unit", "mag")}, col)
        elif kind == "container":
            with app_registry(R["app"]):
                exprs = [""] * ex["index"] + [ex["unit"]]
                container_cases(exprs, col)
        elif kind == "freshapp":
            pint = R["pint"]
            src = R["src"]
            with warnings.catch_warnings():
                warnings.simplefilter("ignore")
                fresh = pint.UnitRegistry()
                unit = src.Unit(ex["name"])
                x = {"Unit": unit, "Measurement": src.Measurement(2.5, 0.25, unit)}.get(ex["obj"], src.Quantity(3, unit))
                with app_registry(fresh):
                    try:
                        y = pickle.loads(pickle.dumps(x, ex["proto"]))
                        if compare_registry_object(y, x, fresh, ex["obj"]) or ex["name"] not in fresh._units:
                            col.add(data["case"], "still failing", ex)
                    except Exception:  # noqa: BLE001
                        col.add(data["case"], "still raising", ex)
        elif kind == "exception":
            cls = next(c for c in exception_classes() if c.__name__ == ex["cls"])
            with app_registry(R["app"]):
                exception_case(cls, ex["args"], col)
        elif kind == "cross":
            with app_registry(R["app"]):
                cross_case(ex["pair"], ex["op"], ex["left"][0], ex["right"][0], ex["left"][1], ex["right"][1], col)
        elif kind == "deepcopy":
            deepcopy_case(tuple(ex["history"]), ex["direction"], col)
        elif kind == "lazy":
            lazy_part(col, 4, only=ex["case"])
        else:
            raise ValueError("unknown example kind %r" % kind)
        relevant = {k: v for k, v in col.entries.items() if k == data["case"]} if kind in ("container", "deepcopy") else col.entries
        ok = ok and not relevant
    return ok


if __name__ == "__main__":
    import argparse

    ap = argparse.ArgumentParser()
    ap.add_argument("--tier", default="quick")
    ap.add_argument("--seed", type=int, default=0)
    ap.add_argument("--workers", type=int, default=NWORKERS)
    ap.add_argument("--child", default=None)
    a = ap.parse_args()
    if a.child:
        child_main(json.loads(a.child))
    else:
        print(json.dumps(run(a.tier, a.seed, workers=a.workers), indent=1, default=str))
