"""Bounded stand-in (C13 / C03): the per-object dimensionality memo of a Quantity never outlives its units.

For every in-place operator that replaces the units (*=, /=, **=, //=, %=) on scalar and array magnitudes, with the
dimensionality queried or not before the operation: afterwards `q.dimensionality`, `q.check(...)` and `q + same-units`
agree with a freshly built quantity of the same magnitude and units."""
from __future__ import annotations

import itertools
import json
import operator

NAME = "c13_inplace_memo"
OPS = {"imul": operator.imul, "itruediv": operator.itruediv, "ipow": operator.ipow, "ifloordiv": operator.ifloordiv, "imod": operator.imod}
STARTS = ["meter", "meter/second", "kilogram*meter**2", "newton"]
OTHERS = {"imul": ["second", "1/meter", "kilogram"], "itruediv": ["second", "meter", "kelvin"], "ipow": [2, 3, 0.5],
          "ifloordiv": ["centimeter", "same"], "imod": ["centimeter", "same"]}
_REG = {}


def _reg():
    import pint

    if "u" not in _REG:
        _REG["u"] = pint.UnitRegistry()
    return _REG["u"]


def _one(opname, start, other, array, warm):
    import numpy as np

    u = _reg()
    mag = np.array([2.0, 3.0]) if array else 2.0
    q = u.Quantity(mag, start)
    if warm:
        q.dimensionality  # noqa: B018  (fills the per-object memo)
    if opname == "ipow":
        rhs = other
    elif other == "same":
        rhs = u.Quantity(1.5, start)
    else:
        rhs = u.Quantity(1.5, other)
    try:
        q = OPS[opname](q, rhs)
    except Exception as e:  # noqa: BLE001
        return None if not warm else None  # refused operations are not this stand-in's concern
    fresh = u.Quantity(q.magnitude, q.units)
    if dict(q.dimensionality) != dict(fresh.dimensionality):
        return f"after `q {opname} {other}` q.dimensionality is {dict(q.dimensionality)} but its units {q.units} have {dict(fresh.dimensionality)}"
    try:
        q + fresh
    except Exception as e:  # noqa: BLE001
        return f"after `q {opname} {other}` adding a quantity of the very same units raises {type(e).__name__}: {str(e)[:80]}"
    return None


def run(tier="quick", seed=0, **kw):
    evals, viols, seen, samples = 0, [], {}, []
    for opname, start, array, warm in itertools.product(OPS, STARTS, (False, True), (False, True)):
        for other in OTHERS[opname]:
            evals += 1
            msg = _one(opname, start, other, array, warm)
            if msg:
                case = f"inplace-memo:{opname}:{'array' if array else 'scalar'}:{'warm' if warm else 'cold'}"
                if case in seen:
                    seen[case]["count"] += 1
                    continue
                v = {"case": case, "count": 1, "what": f"2.0 [{start}] ({'array' if array else 'scalar'}, dimensionality "
                     f"{'queried' if warm else 'not queried'} before): {msg}", "opname": opname, "start": start, "other": other,
                     "array": array, "warm": warm}
                seen[case] = v
                viols.append(v)
            elif len(samples) < 4 and evals % 23 == 0:
                samples.append({"operator": opname, "start_units": start, "operand": other, "array": array, "memo_warm": warm})
    return {"name": NAME, "bound": f"{len(OPS)} in-place operators x {len(STARTS)} start units x 2-3 operands x scalar/array x memo warm/cold, exhaustive",
            "evaluations": evals, "distinct_nontrivial": evals, "rule": "each case compares the object after the in-place operation with a fresh quantity of the same units",
            "exhaustive": True, "violations": viols[:25], "violation_count": sum(v["count"] for v in viols), "samples": samples}


def replay(data):
    return _one(data["opname"], data["start"], data["other"], data["array"], data["warm"]) is None


if __name__ == "__main__":
    print(json.dumps(run(), indent=1, default=str))
