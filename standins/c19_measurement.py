"""Bounded stand-in for C19 "Measurements carry uncertainty consistently through conversion and arithmetic".

Needs the `uncertainties` package.  All expectations are computed by this module (own formulas, own regex readers);
factors to root units and dimensionalities come from standins.ref.Ref over the definition table of a float registry.

Parts (each a finite, stated space):
  A constructors  value/error catalogues x unit pairs x nine constructor forms (numbers + unit, Quantity pairs with the
                  error in another compatible unit, ufloat + unit, Quantity with a ufloat, plus_minus absolute / relative /
                  Quantity): .value, .error, .rel report what was given; negative errors raise ValueError in every form;
                  a relative Quantity error is rejected; an incommensurable error raises DimensionalityError.
  B conversion    every ordered pair of multiplicative units of the bundled registry inside the classes length, time, mass,
                  energy, pressure, force, power, velocity (+ prefixed ones) and the offset scales kelvin/degC/degF/degR:
                  .to() converts the nominal value like a plain quantity (Ref factor, rel. tol. 1e-12) and scales the standard
                  deviation by the slope of the conversion; .rel unchanged for multiplicative pairs; operand untouched.
  C arithmetic    all binary expressions over three variables (each in several units, as Measurement, as Quantity with a
                  ufloat magnitude, as plain Quantity), powers with small integers and seeded random expression trees of
                  depth <= 3: unit rules of plain quantities (DimensionalityError for + and - of different dimensions) and
                  first-order propagation; oracle = forward-mode derivatives in root units (own code), which also covers
                  correlated operands (x - x, x / x).
  D notations     all strings of a small grammar of the accepted notations ("(v +/- e) unit", "v +/- e unit", "(v ± e) unit",
                  the parenthesised shorthand "1.23(4) m", exponent suffixes e3 / e+3 / e-03 / E+3, signs, spaces, units
                  attached by space / * / /, measurement at the end of a product) parsed with ureg.parse_expression,
                  ureg.Quantity(str) and ureg(str), compared with a reference regex reader.
  E formats       format(m, spec) for the spec matrix of testsuite/test_measurement.py (number specs x P L H C Lx ~ D): a
                  reference reader recovers value, error and unit text from the rendering; they must be the measurement
                  within the displayed precision; default / C / P renderings are parsed back where the notation is accepted.
"""
from __future__ import annotations

import itertools
import json
import math
import random
import re
import time
import warnings
from fractions import Fraction

NAME = "c19_measurement"
RT = 1e-12


class HarnessError(Exception):
    pass


class Collector:
    def __init__(self):
        self.entries = {}

    def add(self, case, what, example, cls):
        e = self.entries.get(case)
        if e is None:
            e = self.entries[case] = {"case": case, "what": what, "class": cls, "instances": 0, "examples": []}
        e["instances"] += 1
        if len(e["examples"]) < 2:
            e["examples"].append(example)


_R = {}


def regs():
    if not _R:
        import pint
        import uncertainties  # noqa: F401  (required)
        from standins.ref import Ref

        _R["pint"] = pint
        _R["ureg"] = pint.UnitRegistry()
        _R["ref"] = Ref(_R["ureg"])
        _R["fcache"] = {}
    return _R


def ufac(units):
    """float factor to root units of a {unit name: exponent} dict (Ref: definition table only)"""
    ref = regs()["ref"]
    c = regs()["fcache"]
    f = 1.0
    for k, e in units.items():
        if k not in c:
            c[k] = float(ref.factor({k: 1}))
        f *= c[k] ** float(e)
    return f


def udim(units):
    units = {k: (int(v) if float(v) == int(v) else float(v)) for k, v in units.items()}
    return {k: float(v) for k, v in regs()["ref"].dim(units).items() if abs(float(v)) > 1e-12}


def nom_std(x):
    m = x.magnitude if hasattr(x, "_units") else x
    if hasattr(m, "nominal_value"):
        return float(m.nominal_value), float(m.std_dev)
    return float(m), 0.0


def units_of(x):
    return {k: (int(v) if float(v) == int(v) else float(v)) for k, v in x._units.items()} if hasattr(x, "_units") else {}


def close(a, b, rt=RT, at=0.0):
    if a != a or b != b:
        return a != a and b != b
    if a == b:
        return True
    if math.isinf(a) or math.isinf(b):
        return False
    return abs(a - b) <= rt * max(abs(a), abs(b)) + at


def exc_text(e):
    try:
        return ("%s: %s" % (type(e).__name__, e))[:200]
    except Exception:  # noqa: BLE001
        return type(e).__name__


def quiet(f, *a, **k):
    with warnings.catch_warnings():
        warnings.simplefilter("ignore")
        return f(*a, **k)


# own unit texts -> containers (this module's reading of the unit strings it uses)
UNITS = {
    "meter": {"meter": 1}, "centimeter": {"centimeter": 1}, "kilometer": {"kilometer": 1}, "inch": {"inch": 1},
    "second": {"second": 1}, "hour": {"hour": 1}, "millisecond": {"millisecond": 1},
    "kilogram": {"kilogram": 1}, "pound": {"pound": 1}, "gram": {"gram": 1},
    "meter/second": {"meter": 1, "second": -1}, "kilometer/hour": {"kilometer": 1, "hour": -1},
    "joule": {"joule": 1}, "electron_volt": {"electron_volt": 1}, "second**2": {"second": 2},
    "dimensionless": {}, "": {}, "degC": {"degree_Celsius": 1}, "kelvin": {"kelvin": 1},
}


# =============================================================================== A constructors
A_VALUES = (1.5, -2.75, 3e-9, -4.2e7, 6.02e23, 1e-30, 12345.678, 4)
A_RELS = (0.0, 1e-6, 0.02, 0.5, 3.0)
A_PAIRS = (("meter", "centimeter"), ("centimeter", "inch"), ("second", "hour"), ("kilogram", "pound"),
           ("meter/second", "kilometer/hour"), ("joule", "electron_volt"), ("second**2", "second**2"),
           ("dimensionless", "dimensionless"))


def part_constructors(col, stats, quick):
    R = regs()
    ureg, pint = R["ureg"], R["pint"]
    from uncertainties import ufloat

    Q, M = ureg.Quantity, ureg.Measurement
    values = A_VALUES[::2] if quick else A_VALUES
    for (u1, u2), v, r in itertools.product(A_PAIRS, values, A_RELS):
        e = abs(v) * r
        k = ufac(UNITS[u1]) / ufac(UNITS[u2])  # one u1 is k u2
        e2 = e * k                             # the same error expressed in u2
        forms = {
            "M(v,e,unit)": lambda: M(v, e, u1),
            "M(Q,Q)": lambda: M(Q(v, u1), Q(e, u1)),
            "M(Q,Q other unit)": lambda: M(Q(v, u1), Q(e2, u2)),
            "M(Q,number)": lambda: M(Q(v, u1), e),
            "M(ufloat,unit)": lambda: M(ufloat(v, e), u1),
            "M(Q(ufloat))": lambda: M(Q(ufloat(v, e), u1)),
            "plus_minus(e)": lambda: Q(v, u1).plus_minus(e),
            "plus_minus(rel)": lambda: Q(v, u1).plus_minus(r, relative=True),
            "plus_minus(Q other unit)": lambda: Q(v, u1).plus_minus(Q(e2, u2)),
        }
        for fname, f in forms.items():
            stats["evaluations"] += 1
            cid = "construct:%s:%s:%r+-%r" % (fname, u1 if "other" not in fname else u1 + "," + u2, v, e)
            ex = {"part": "A", "form": fname, "u1": u1, "u2": u2, "v": v, "r": r}
            try:
                m = quiet(f)
            except Exception as exn:  # noqa: BLE001
                col.add(cid, "raised %s" % exc_text(exn), ex, "constructor")
                continue
            exact = "other" not in fname and fname != "plus_minus(rel)"
            probs = []
            if type(m).__name__ != "Measurement":
                probs.append("result type %s" % type(m).__name__)
            try:
                val, err = m.value, m.error
                if hasattr(val.magnitude, "nominal_value") or hasattr(err.magnitude, "nominal_value"):
                    probs.append(".value/.error are not plain quantities")
                if units_of(val) != UNITS[u1] or units_of(err) != UNITS[u1] or units_of(m) != UNITS[u1]:
                    probs.append("units %s / %s, expected %s" % (units_of(val), units_of(err), UNITS[u1]))
                if float(val.magnitude) != float(v):
                    probs.append(".value %r, given %r" % (val.magnitude, v))
                if not (float(err.magnitude) == e if exact else close(float(err.magnitude), e)):
                    probs.append(".error %r, given %r" % (err.magnitude, e))
                if not close(float(m.rel), e / abs(v)):
                    probs.append(".rel %r, expected %r" % (m.rel, e / abs(v)))
            except Exception as exn:  # noqa: BLE001
                probs.append("accessor raised %s" % exc_text(exn))
            if probs:
                col.add(cid, "; ".join(probs), ex, "constructor")
        # negative errors
        if r > 0:
            neg = {
                "M(v,-e,unit)": lambda: M(v, -e, u1),
                "M(Q,-Q)": lambda: M(Q(v, u1), Q(-e2, u2)),
                "M(Q,-number)": lambda: M(Q(v, u1), -e),
                "plus_minus(-e)": lambda: Q(v, u1).plus_minus(-e),
                "plus_minus(-rel)": lambda: Q(v, u1).plus_minus(-r, relative=True),
                "plus_minus(-Q)": lambda: Q(v, u1).plus_minus(Q(-e2, u2)),
            }
            for fname, f in neg.items():
                stats["evaluations"] += 1
                cid = "negative-error:%s:%s:%r+-%r" % (fname, u1, v, -e)
                ex = {"part": "A-neg", "form": fname, "u1": u1, "u2": u2, "v": v, "r": r}
                try:
                    m = quiet(f)
                except ValueError as exn:
                    if isinstance(exn, pint.DimensionalityError):
                        col.add(cid, "raised %s instead of ValueError" % exc_text(exn), ex, "negative-error")
                    continue
                except Exception as exn:  # noqa: BLE001
                    col.add(cid, "raised %s instead of ValueError" % exc_text(exn), ex, "negative-error")
                    continue
                col.add(cid, "negative error accepted: %r" % (m,), ex, "negative-error")
    # rejected forms
    for (u1, u2) in A_PAIRS:
        other = "second" if "second" not in u1 else "meter"
        checks = {
            "plus_minus(Q,relative=True)": (lambda: Q(2.0, u1).plus_minus(Q(0.1, u2), relative=True), ValueError),
            "M(Q,Q incommensurable)": (lambda: M(Q(2.0, u1), Q(0.1, other)), pint.DimensionalityError),
            "plus_minus(Q incommensurable)": (lambda: Q(2.0, u1).plus_minus(Q(0.1, other)), pint.DimensionalityError),
        }
        for fname, (f, exc) in checks.items():
            if u1 == "dimensionless" and "incomm" not in fname:
                pass
            stats["evaluations"] += 1
            cid = "reject:%s:%s" % (fname, u1)
            ex = {"part": "A-reject", "form": fname, "u1": u1, "u2": u2}
            try:
                m = quiet(f)
            except exc:
                continue
            except Exception as exn:  # noqa: BLE001
                col.add(cid, "raised %s instead of %s" % (exc_text(exn), exc.__name__), ex, "reject")
                continue
            col.add(cid, "accepted: %r" % (m,), ex, "reject")


# =============================================================================== B conversion
B_CLASSES = {
    "length": {"[length]": 1}, "time": {"[time]": 1}, "mass": {"[mass]": 1},
    "energy": {"[length]": 2, "[mass]": 1, "[time]": -2}, "pressure": {"[length]": -1, "[mass]": 1, "[time]": -2},
    "force": {"[length]": 1, "[mass]": 1, "[time]": -2}, "power": {"[length]": 2, "[mass]": 1, "[time]": -3},
    "velocity": {"[length]": 1, "[time]": -1},
}
B_PREFIXED = ("kilometer", "millimeter", "microsecond", "milligram", "kilojoule", "megapascal", "kilonewton", "milliwatt")
B_VALUES = ((2.5, 0.125), (-7.3e4, 2.0e3), (3.3e-7, 1.0e-9))
# kelvin = scale * (magnitude + shift)
TEMPS = {"kelvin": (1.0, 0.0), "degree_Celsius": (1.0, 273.15), "degree_Fahrenheit": (5.0 / 9.0, 459.67),
         "degree_Rankine": (5.0 / 9.0, 0.0)}


def conversion_classes():
    ref = regs()["ref"]
    out = {k: [] for k in B_CLASSES}
    names = [n for n, d in ref.units.items() if n == d.name] + list(B_PREFIXED)
    for n in sorted(set(names)):
        r = ref.resolve(n)
        if r is None:
            continue
        d = r[1]
        if not getattr(d, "is_multiplicative", True) or getattr(d, "is_logarithmic", False):
            continue
        try:
            dims = {k: float(v) for k, v in ref.dim({n: 1}).items()}
            f = float(ref.factor({n: 1}))
        except Exception:  # noqa: BLE001
            continue
        if not (f > 0 and math.isfinite(f)):
            continue
        for cname, cd in B_CLASSES.items():
            if dims == {k: float(v) for k, v in cd.items()}:
                out[cname].append(n)
    return out


def check_conversion(col, stats, kind, u1, u2, v, e, exp_nom, exp_std, mult, at=0.0):
    R = regs()
    ureg = R["ureg"]
    from uncertainties import ufloat

    stats["evaluations"] += 1
    cid = "to:%s:%s->%s:%r+-%r" % (kind, u1, u2, v, e)
    ex = {"part": "B", "kind": kind, "u1": u1, "u2": u2, "v": v, "e": e, "nom": exp_nom, "std": exp_std, "mult": mult,
          "at": at}
    try:
        if kind == "Measurement":
            m = ureg.Measurement(v, e, u1)
            r = quiet(m.to, u2)
        elif kind == "Quantity(ufloat)":
            m = ureg.Quantity(ufloat(v, e), u1)
            r = quiet(m.to, u2)
        else:  # ito
            m = ureg.Measurement(v, e, u1)
            r = m
            quiet(m.ito, u2)
    except Exception as exn:  # noqa: BLE001
        col.add(cid, "raised %s" % exc_text(exn), ex, "conversion")
        return
    n, s = nom_std(r)
    probs = []
    if units_of(r) != {u2: 1}:
        probs.append("units %s" % units_of(r))
    if not close(n, exp_nom, RT, at):
        probs.append("nominal %r, expected %r (like a plain quantity)" % (n, exp_nom))
    if not close(s, exp_std, RT, at * 1e-3):
        probs.append("std %r, expected %r (error x slope)" % (s, exp_std))
    if mult and v != 0 and kind == "Measurement" and not close(float(r.rel), e / abs(v), 1e-11):
        probs.append("rel %r, before %r" % (r.rel, e / abs(v)))
    if kind != "ito":
        n0, s0 = nom_std(m)
        if (n0, s0) != (float(v), float(e)) or units_of(m) != {u1: 1}:
            probs.append("operand changed to %r" % (m,))
    if probs:
        col.add(cid, "; ".join(probs), ex, "conversion")


def part_conversion(col, stats, quick, rng):
    classes = conversion_classes()
    stats["conversion_units"] = {k: len(v) for k, v in classes.items()}
    for cname, names in classes.items():
        pairs = [(a, b) for a in names for b in names]
        if quick:
            pairs = [p for j, p in enumerate(pairs) if j % 23 == rng.randrange(23) or p[0] == p[1]][:400]
        for j, (u1, u2) in enumerate(pairs):
            k = ufac({u1: 1}) / ufac({u2: 1})
            v, e = B_VALUES[j % len(B_VALUES)]
            kind = ("Measurement", "Quantity(ufloat)", "ito")[j % 3] if (quick or j % 2) else "Measurement"
            check_conversion(col, stats, kind, u1, u2, v, e, v * k, e * k, True)
    for u1, u2 in itertools.product(TEMPS, TEMPS):
        s1, h1 = TEMPS[u1]
        s2, h2 = TEMPS[u2]
        for v, e in ((20.0, 0.5), (-40.0, 2.0), (310.15, 0.01), (0.0, 1.0)):
            for kind in ("Measurement", "Quantity(ufloat)", "ito"):
                check_conversion(col, stats, kind, u1, u2, v, e, s1 * (v + h1) / s2 - h2, e * s1 / s2, False, at=1e-9)


# =============================================================================== C arithmetic
# variables: (value, error, unit) per slot; unit choices per slot
C_SLOTS = {
    "a": [(2.5, 0.125, "meter"), (250.0, 12.5, "centimeter"), (0.0025, 0.000125, "kilometer")],
    "b": [(-1.75, 0.5, "meter"), (40.0, 3.0, "inch")],
    "c": [(8.0, 0.7, "second"), (5.0e-3, 6.0e-4, "hour")],
    "d": [(0.4, 0.05, "dimensionless")],
}
C_DIM = {"meter": (1, 0), "centimeter": (1, 0), "kilometer": (1, 0), "inch": (1, 0), "second": (0, 1), "hour": (0, 1),
         "dimensionless": (0, 0)}
KINDS = ("Measurement", "Quantity(ufloat)", "plain")


class DimMismatch(Exception):
    pass


class Node:
    """forward-mode first-order propagation in root units: value, dimension exponents, d value / d variable"""

    def __init__(self, val, dim, grad, mag=0.0):
        self.val, self.dim, self.grad = val, dim, grad
        self.mag = max(abs(val), mag)  # largest intermediate magnitude: scale of the rounding noise after cancellation


def o_eval(ast, env):
    op = ast[0]
    if op == "var":
        v, e, u = env[ast[1]]["data"]
        f = ufac(UNITS[u])
        return Node(v * f, C_DIM[u], {ast[1]: 1.0})
    if op == "num":
        return Node(float(ast[1]), (0, 0), {})
    if op == "neg":
        a = o_eval(ast[1], env)
        return Node(-a.val, a.dim, {k: -g for k, g in a.grad.items()}, a.mag)
    if op == "pow":
        a = o_eval(ast[1], env)
        n = ast[2]
        if n == 0:
            return Node(1.0, (0, 0), {k: 0.0 for k in a.grad})
        return Node(a.val ** n, (a.dim[0] * n, a.dim[1] * n), {k: n * a.val ** (n - 1) * g for k, g in a.grad.items()})
    a, b = o_eval(ast[1], env), o_eval(ast[2], env)
    keys = set(a.grad) | set(b.grad)
    ga = lambda k: a.grad.get(k, 0.0)  # noqa: E731
    gb = lambda k: b.grad.get(k, 0.0)  # noqa: E731
    if op in ("add", "sub"):
        if a.dim != b.dim:
            raise DimMismatch()
        s = 1.0 if op == "add" else -1.0
        return Node(a.val + s * b.val, a.dim, {k: ga(k) + s * gb(k) for k in keys}, max(a.mag, b.mag))
    if op == "mul":
        return Node(a.val * b.val, (a.dim[0] + b.dim[0], a.dim[1] + b.dim[1]), {k: ga(k) * b.val + a.val * gb(k) for k in keys})
    if op == "div":
        return Node(a.val / b.val, (a.dim[0] - b.dim[0], a.dim[1] - b.dim[1]),
                    {k: ga(k) / b.val - a.val * gb(k) / b.val ** 2 for k in keys})
    raise HarnessError(op)


def p_eval(ast, env):
    op = ast[0]
    if op == "var":
        return env[ast[1]]["obj"]
    if op == "num":
        return ast[1]
    if op == "neg":
        return -p_eval(ast[1], env)
    if op == "pow":
        return p_eval(ast[1], env) ** ast[2]
    a, b = p_eval(ast[1], env), p_eval(ast[2], env)
    return {"add": lambda: a + b, "sub": lambda: a - b, "mul": lambda: a * b, "div": lambda: a / b}[op]()


def a_str(ast, env):
    op = ast[0]
    if op == "var":
        d = env[ast[1]]
        return "%s[%s,%s]" % (ast[1], d["data"][2], {"Measurement": "M", "Quantity(ufloat)": "Qu", "plain": "Q"}[d["kind"]])
    if op == "num":
        return repr(ast[1])
    if op == "neg":
        return "-(%s)" % a_str(ast[1], env)
    if op == "pow":
        return "(%s)**%d" % (a_str(ast[1], env), ast[2])
    return "(%s%s%s)" % (a_str(ast[1], env), {"add": "+", "sub": "-", "mul": "*", "div": "/"}[op], a_str(ast[2], env))


def make_env(choice):
    """choice: {slot: (index into C_SLOTS[slot], kind)}"""
    ureg = regs()["ureg"]
    from uncertainties import ufloat

    env = {}
    for slot, (j, kind) in choice.items():
        v, e, u = C_SLOTS[slot][j]
        if kind == "Measurement":
            obj = ureg.Measurement(v, e, u)
        elif kind == "Quantity(ufloat)":
            obj = ureg.Quantity(ufloat(v, e), u)
        else:
            obj = ureg.Quantity(v, u)
            e = 0.0
        env[slot] = {"data": (v, e, u), "kind": kind, "obj": obj}
    return env


def vars_of(ast, acc=None):
    acc = set() if acc is None else acc
    if ast[0] == "var":
        acc.add(ast[1])
    else:
        for x in ast[1:]:
            if isinstance(x, tuple):
                vars_of(x, acc)
    return acc


def check_expr(col, stats, ast, choice):
    pint = regs()["pint"]
    env = make_env(choice)
    stats["evaluations"] += 1
    text = a_str(ast, env)
    cid = "arith:%s" % text
    ex = {"part": "C", "ast": ast, "choice": {k: list(v) for k, v in choice.items()}}
    try:
        exp = o_eval(ast, env)
        if not math.isfinite(exp.val) or abs(exp.val) > 1e200:
            return
    except DimMismatch:
        exp = None
    except (ZeroDivisionError, OverflowError):
        return
    try:
        res = quiet(p_eval, ast, env)
    except pint.DimensionalityError:
        if exp is not None:
            col.add(cid, "raised DimensionalityError on a dimensionally valid expression", ex, "arith-raised")
        return
    except ZeroDivisionError:
        return
    except Exception as exn:  # noqa: BLE001
        col.add(cid, "raised %s" % exc_text(exn), ex, "arith-raised")
        return
    if exp is None:
        col.add(cid, "sum / difference of different dimensions returned %r instead of raising DimensionalityError" % (res,), ex,
                "arith-dimension")
        return
    n, s = nom_std(res)
    u = units_of(res)
    f = ufac(u)
    dims = udim(u)
    edims = {k: float(v) for k, v in (("[length]", exp.dim[0]), ("[time]", exp.dim[1])) if v}
    sigma = math.sqrt(sum((exp.grad.get(k, 0.0) * env[k]["data"][1] * ufac(UNITS[env[k]["data"][2]])) ** 2 for k in env))
    scale = max(exp.mag, sigma, 1e-300)
    probs = []
    if dims != edims:
        probs.append("dimensionality %s, expected %s" % (dims, edims))
    else:
        if not close(n * f, exp.val, 1e-9, 1e-12 * scale):
            probs.append("nominal %r (root units), expected %r" % (n * f, exp.val))
        if not close(s * f, sigma, 1e-9, 1e-12 * scale):
            probs.append("std %r (root units), expected %r from first-order propagation" % (s * f, sigma))
    for k, d in env.items():
        n0, s0 = nom_std(d["obj"])
        if (n0, s0) != (float(d["data"][0]), float(d["data"][1])):
            probs.append("operand %s changed" % k)
    if probs:
        col.add(cid, "; ".join(probs), ex, "arith-value")


def rand_ast(rng, depth, slots):
    if depth == 0 or rng.random() < 0.25:
        return ("var", rng.choice(slots))
    r = rng.random()
    if r < 0.15:
        return ("pow", rand_ast(rng, depth - 1, slots), rng.choice((2, 3, -1, -2)))
    if r < 0.22:
        return ("neg", rand_ast(rng, depth - 1, slots))
    if r < 0.32:
        return (rng.choice(("mul", "div")), rand_ast(rng, depth - 1, slots), ("num", rng.choice((3, -0.5, 2.25))))
    if r < 0.38:
        return ("mul", ("num", rng.choice((3, -0.5, 2.25))), rand_ast(rng, depth - 1, slots))
    return (rng.choice(("add", "sub", "mul", "div")), rand_ast(rng, depth - 1, slots), rand_ast(rng, depth - 1, slots))


def part_arithmetic(col, stats, quick, rng):
    slots = list(C_SLOTS)
    # exhaustive: all binary operations over ordered slot pairs x unit choices x kinds
    for op in ("add", "sub", "mul", "div"):
        for s1, s2 in itertools.product(slots, slots):
            for j1, j2 in itertools.product(range(len(C_SLOTS[s1])), range(len(C_SLOTS[s2]))):
                if s1 == s2 and j1 != j2:
                    continue
                for k1, k2 in itertools.product(KINDS, KINDS):
                    if k1 == k2 == "plain" or (s1 == s2 and k1 != k2):
                        continue
                    if quick and (j1 + j2 + KINDS.index(k1)) % 2:
                        continue
                    choice = {s1: (j1, k1)}
                    choice[s2] = (j2, k2)
                    check_expr(col, stats, (op, ("var", s1), ("var", s2)), choice)
    for s in slots:
        for j in range(len(C_SLOTS[s])):
            for kind in KINDS[:2]:
                for n in (0, 1, 2, 3, -1, -2):
                    check_expr(col, stats, ("pow", ("var", s), n), {s: (j, kind)})
                for k in (3, -0.5):
                    check_expr(col, stats, ("mul", ("num", k), ("var", s)), {s: (j, kind)})
                    check_expr(col, stats, ("mul", ("var", s), ("num", k)), {s: (j, kind)})
                    check_expr(col, stats, ("div", ("var", s), ("num", k)), {s: (j, kind)})
                    check_expr(col, stats, ("div", ("num", k), ("var", s)), {s: (j, kind)})
                check_expr(col, stats, ("neg", ("var", s)), {s: (j, kind)})
    for _ in range(300 if quick else 6000):
        ast = rand_ast(rng, 3, slots)
        used = sorted(vars_of(ast))
        if not used:
            continue
        choice = {s: (rng.randrange(len(C_SLOTS[s])), rng.choice(KINDS)) for s in used}
        if all(k == "plain" for _, k in choice.values()):
            choice[used[0]] = (choice[used[0]][0], "Measurement")
        check_expr(col, stats, ast, choice)


# =============================================================================== D notations
NUM = r"(?:\d+\.\d*|\.\d+|\d+)(?:[eE][-+]?\d+)?"
RE_PAREN = re.compile(r"^\s*(?P<osign>[-+]?)\s*\(\s*(?P<sign>[-+]?)\s*(?P<v>%s|nan)\s*(?:\+\s*/\s*-|±)\s*(?P<e>%s|nan)\s*\)"
                      r"(?P<exp>[eE][-+]?\d+)?(?P<pow>\*\*\d+)?(?P<rest>.*)$" % (NUM, NUM))
RE_BARE = re.compile(r"^\s*(?P<sign>[-+]?)\s*(?P<v>%s)\s*(?:\+\s*/\s*-|±)\s*(?P<e>%s)(?P<rest>.*)$" % (NUM, NUM))
RE_SHORT = re.compile(r"^\s*(?P<sign>[-+]?)\s*(?P<v>\d+(?:\.(?P<dec>\d*))?)\((?P<d>\d+)\)(?P<exp>[eE][-+]?\d+)?(?P<rest>.*)$")
UNIT_TEXT = {"": {}, "m": {"meter": 1}, "meter": {"meter": 1}, "m**2": {"meter": 2}, "m/s": {"meter": 1, "second": -1},
             "s": {"second": 1}}


def read_unit(rest):
    """own reader of the unit tail: '', ' m', '*m', ' * meter', ' / s', ' m**2', ' m/s' -> container"""
    t = rest.strip()
    inv = False
    if t.startswith("*") and not t.startswith("**"):
        t = t[1:].strip()
    elif t.startswith("/"):
        inv = True
        t = t[1:].strip()
    if t not in UNIT_TEXT:
        raise HarnessError("reference reader: unit tail %r" % rest)
    u = dict(UNIT_TEXT[t])
    return {k: -v for k, v in u.items()} if inv else u


def read_measurement(s):
    """reference reader -> (nominal, std, unit container) of one measurement notation, optionally preceded by
    'meter * ' / '3 * ' factors"""
    factor, units = 1.0, {}
    body = s
    m = re.match(r"^\s*(meter|m|3|2\.5)\s*\*\s*(.*)$", s)
    if m and ("+/-" in m.group(2) or "±" in m.group(2) or "(" in m.group(2)):
        head, body = m.group(1), m.group(2)
        if head in ("meter", "m"):
            units = {"meter": 1}
        else:
            factor = float(head)
    for rx, kind in ((RE_PAREN, "paren"), (RE_SHORT, "short"), (RE_BARE, "bare")):
        g = rx.match(body)
        if g:
            break
    else:
        raise HarnessError("reference reader cannot read %r" % s)
    d = g.groupdict()
    sign = -1.0 if d.get("sign") == "-" else 1.0
    if d.get("osign") == "-":
        sign = -sign
    scale = float("1" + d["exp"]) if d.get("exp") else 1.0
    if kind == "short":
        v = float(d["v"])
        ndec = len(d["dec"]) if d.get("dec") is not None else 0
        e = int(d["d"]) * 10.0 ** (-ndec)  # the digits in parentheses count units of the last digit of v
    else:
        v = float(d["v"])
        e = float(d["e"])
    n, sd = sign * v * scale, e * scale
    p = int(d["pow"][2:]) if d.get("pow") else 1
    if p != 1:  # (v +/- e)**p: first-order
        n, sd = n ** p, abs(p * n ** (p - 1)) * sd if n == n else sd
    u = read_unit(d["rest"])
    for k, x in u.items():
        units[k] = units.get(k, 0) + x
    n, sd = n * factor, sd * abs(factor)
    return n, sd, {k: v for k, v in units.items() if v}


def notation_strings(quick):
    """-> list of (string, tag)"""
    noms = ("2.0", "1.23", "12", "0.05", "2e3") if not quick else ("2.0", "1.23", "12")
    errs = ("0.3", "0.04", "3", "3e2") if not quick else ("0.3", "0.04", "3")
    pms = ("+/-", " +/- ", "±", " ± ", " + / - ") if not quick else ("+/-", " +/- ", " ± ")
    signs = ("", "-", "+")
    exps = ("", "e3", "e+3", "e-3", "e+03", "e-03", "E+3", "E-3", "E3") if not quick else ("", "e3", "e-03", "E+3", "E3")
    tails = ("", " m", "m", " meter", " m**2", " m/s", "*m", " * m", " / s", " ")
    out = []
    for v, e, pm in itertools.product(noms, errs, pms):
        for sg, ex, tl in itertools.product(signs, exps, tails):
            if ex and (tl == "m" or "e" in v or "e" in e):
                continue  # "e3m" is one identifier; no exponent suffix after numbers that carry their own exponent
            out.append(("(%s%s%s%s)%s%s" % (sg, v, pm, e, ex, tl), "paren"))
            if sg and not ex:
                out.append(("%s(%s%s%s)%s" % (sg, v, pm, e, tl), "paren-outer-sign"))
        for sg, tl in itertools.product(signs, tails):
            out.append(("%s%s%s%s%s" % (sg, v, pm, e, tl), "bare"))
    for v in ("1.23", "2.0", "12", "0.200", "1.5", "123.456", "7"):
        for d in ("4", "45", "3", "10", "100"):
            for sg, ex, tl in itertools.product(("", "-"), ("", "e2", "e-03", "E+3"), ("", " m", " meter", "*m", " m**2")):
                out.append(("%s%s(%s)%s%s" % (sg, v, d, ex, tl), "short"))
    for core in ("(2.0 +/- 0.3)", "(2.0+/-0.3)", "(2.0 ± 0.3)", "(-2.0 +/- 0.3)", "(2.0 +/- 0.3)e3", "2.0 +/- 0.3", "2.0(3)"):
        for head in ("meter * ", "m*", "3 * ", "2.5*"):
            for tl in ("", " ", " s", "*s"):
                out.append((head + core + tl, "product"))
    for core in ("(2.0 +/- 0.3)", "(1.23+/-0.04)", "(-2.0 ± 0.3)"):
        for p in ("**2", "**3"):
            for tl in ("", " m", " * m"):
                out.append((core + p + tl, "power"))
    for s in ("(nan +/- 0.3) m", "(2.0 +/- nan) m", "(nan+/-nan)", "(nan +/- 0.3)e3 m"):
        out.append((s, "nan"))
    seen, uniq = set(), []
    for s, t in out:
        if s not in seen:
            seen.add(s)
            uniq.append((s, t))
    return uniq


def check_notation(col, stats, s, tag):
    ureg = regs()["ureg"]
    try:
        n, sd, units = read_measurement(s)
    except HarnessError:
        if tag == "product" and s.rstrip().endswith("s"):
            # tail ' s' / '*s' after a product head: meter * (..) s
            body = s.rstrip()[:-1].rstrip().rstrip("*").rstrip()
            n, sd, units = read_measurement(body)
            units = dict(units)
            units["second"] = units.get("second", 0) + 1
        else:
            raise
    feats = [name for name, rx in (("inner-plus-sign", r"\(\s*\+\d"), ("unsigned-E-exponent", r"\)E\d"), ("exponent", r"\)[eE][-+]?\d"),
                                  ("spaced-operator", r"\+ / -")) if re.search(rx, s)]
    tag_f = tag + ("[" + ",".join(feats) + "]" if feats else "")
    if "inner-plus-sign" in feats or "unsigned-E-exponent" in feats:
        stats["skipped_notation_variants"] = stats.get("skipped_notation_variants", 0) + 1
        return  # the property does not fix these spelling variants; pint documents neither
    for api, f in (("parse_expression", ureg.parse_expression), ("Quantity", ureg.Quantity), ("ureg()", ureg)):
        stats["evaluations"] += 1
        ex = {"part": "D", "string": s, "tag": tag, "api": api}
        try:
            r = quiet(f, s)
        except Exception as exn:  # noqa: BLE001
            eol = isinstance(exn, IndexError) and s.rstrip().endswith(")")
            cid = ("tokenizer-eol:%s" if eol else "parse:%s") % s
            col.add(cid, "%s(%r) raised %s; expected (%r +/- %r) %s" % (api, s, exc_text(exn), n, sd, units or "dimensionless"),
                    ex, "tokenizer-eol" if eol else "parse-raised:" + tag_f)
            continue
        try:
            rn, rs = nom_std(r)
        except Exception:  # noqa: BLE001
            col.add("parse:%s" % s, "%s(%r) returned %r" % (api, s, r), ex, "parse-value:" + tag_f)
            continue
        ru = units_of(r)
        if not (close(rn, n) and close(rs, sd) and ru == units):
            col.add("parse:%s" % s, "%s(%r) = (%r +/- %r) %s; the notation means (%r +/- %r) %s"
                    % (api, s, rn, rs, ru or "dimensionless", n, sd, units or "dimensionless"), ex, "parse-value:" + tag_f)


def part_notations(col, stats, quick):
    strings = notation_strings(quick)
    stats["notation_strings"] = len(strings)
    for s, tag in strings:
        check_notation(col, stats, s, tag)


# =============================================================================== E formats
SUP = str.maketrans("⁰¹²³⁴⁵⁶⁷⁸⁹⁻⁺", "0123456789-+")
E_NUMSPECS = ("", ".1f", ".2f", ".3u", ".1u", ".1ue", ".3uS", "uS", ".1u%", ".2e")
E_FLAGS = ("", "P", "L", "H", "C")
E_EXTRA = (("", "Lx"), (".1f", "Lx"), (".3u", "Lx"), (".1u", "Lx"), ("", "~"), ("", "~P"), ("", "D"), (".2f", "~P"), (".3uS", "~"))
E_MEAS = ((4.0, 0.1), (0.2, 0.01), (1234.5678, 2.5), (4e20, 1e19), (4e-20, 1e-21), (-3.7, 0.45), (0.000123, 0.000004),
          (12.0, 3.0))
E_UNITS = ("second**2", "meter", "meter/second", "dimensionless")
N2 = r"-?(?:\d+\.\d*|\.\d+|\d+)"


def read_rendering(out, flag):
    """reference reader of a rendered measurement -> (value, error, tol_value, tol_error, unit text) or None"""
    if "Lx" in flag:
        g = re.match(r"^\\SI(?:\[[^\]]*\])?\{(%s) \+- (%s)(?: ?e([-+]\d+))?\}\{(.*)\}$" % (N2, N2), out)
        if not g:
            return None
        v, e, x, unit, pct = g.group(1), g.group(2), g.group(3), g.group(4), False
        short = None
    else:
        if "L" in flag:
            pm, lp, rp = r" \\pm ", r"\\left\(", r"\\right\)"
            exp = r"(?: \\times 10\^\{(-?\d+)\})?"
            pc, sep = r"( \\%)?", r"\\ "
        elif "H" in flag:
            pm, lp, rp = " &plusmn; ", r"\(", r"\)"
            exp = r"(?:×10<sup>(-?\d+)</sup>)?"
            pc, sep = r"(%)?", " "
        elif "P" in flag:
            pm, lp, rp = " ± ", r"\(", r"\)"
            exp = r"(?:×10([⁰¹²³⁴⁵⁶⁷⁸⁹⁻⁺]+))?"
            pc, sep = r"(%)?", " "
        elif "C" in flag:
            pm, lp, rp = r"\+/-", r"\(", r"\)"
            exp = r"(?:e([-+]\d+))?"
            pc, sep = r"(%)?", " "
        else:
            pm, lp, rp = r" \+/- ", r"\(", r"\)"
            exp = r"(?:e([-+]\d+))?"
            pc, sep = r"(%)?", " "
        g = re.match(r"^%s(%s)%s(%s)%s%s%s%s(.*)$" % (lp, N2, pm, N2, rp, exp, pc, sep), out)
        short = None
        if g:
            v, e, x, pct, unit = g.group(1), g.group(2), g.group(3), bool(g.group(4)), g.group(5)
        else:
            g = re.match(r"^(%s)%s(\d+(?:\.\d+)?)%s%s%s(.*)$" % (N2, lp, rp, exp, sep), out) or \
                re.match(r"^%s(%s)%s(\d+(?:\.\d+)?)%s%s%s%s(.*)$" % (lp, N2, lp, rp, exp, rp, sep), out)
            if not g:
                return None
            v, short, x, unit, pct = g.group(1), g.group(2), g.group(3), g.group(4), False
            e = None
    x = int(x.translate(SUP)) if x else 0
    ndec = len(v.split(".")[1]) if "." in v else 0
    scale = 10.0 ** x / (100.0 if pct else 1.0)
    if short is not None and "." in short:
        ev, edec = float(short), len(short.split(".")[1])
    elif short is not None:
        ev, edec = int(short) * 10.0 ** (-ndec), ndec
    else:
        ev, edec = float(e), (len(e.split(".")[1]) if "." in e else 0)
    return float(v) * scale, ev * scale, 0.5000001 * 10.0 ** (-ndec) * scale, 0.5000001 * 10.0 ** (-edec) * scale, unit


def check_format(col, stats, v, e, unit, nspec, flag):
    ureg = regs()["ureg"]
    spec = nspec + flag
    stats["evaluations"] += 1
    cid = "format:%r:(%r+-%r) %s" % (spec, v, e, unit)
    ex = {"part": "E", "v": v, "e": e, "unit": unit, "nspec": nspec, "flag": flag}
    m = ureg.Measurement(v, e, unit)
    try:
        out = quiet(format, m, spec)
    except Exception as exn:  # noqa: BLE001
        col.add(cid, "format(m, %r) raised %s" % (spec, exc_text(exn)), ex, "format-raised")
        return
    rd = read_rendering(out, flag)
    if rd is None:
        col.add(cid, "rendering %r is not of the form value, error, unit for this style" % out, ex, "format-shape")
        return
    rv, re_, tv, te, utext = rd
    probs = []
    if abs(rv - v) > tv + 1e-12 * abs(v):
        probs.append("value printed as %r (displayed precision %.3g), the measurement has %r" % (rv, tv, v))
    if abs(re_ - e) > te + 1e-12 * abs(e):
        probs.append("error printed as %r (displayed precision %.3g), the measurement has %r" % (re_, te, e))
    try:
        uexp = quiet(format, m.units, flag)
    except Exception:  # noqa: BLE001
        uexp = None
    if "Lx" in flag and uexp is not None:
        g = re.match(r"^\\si(?:\[[^\]]*\])?\{(.*)\}$", uexp)
        uexp = g.group(1) if g else uexp
    if uexp is not None and utext != uexp:
        probs.append("unit text %r, the unit alone renders as %r" % (utext, uexp))
    if probs:
        col.add(cid, "format(m, %r) = %r: %s" % (spec, out, "; ".join(probs)), ex, "format-value")
    # parse back: default-like, compact and pretty renderings
    style = "".join(c for c in flag if c in "PLHC") or ("Lx" if "Lx" in flag else "")
    if style in ("", "C", "P") and "Lx" not in flag and "%" not in nspec:
        stats["evaluations"] += 1
        pid = "parse-back:%r:(%r+-%r) %s" % (spec, v, e, unit)
        try:
            r = quiet(ureg.parse_expression, out)
        except Exception as exn:  # noqa: BLE001
            eol = isinstance(exn, IndexError)
            if "×10" in out and not eol:
                return
            col.add(pid if not eol else "tokenizer-eol:%s" % out, "parse_expression(%r) raised %s" % (out, exc_text(exn)), ex,
                    "parse-back-raised" + (":pretty-exponent" if "×10" in out else (":eol" if eol else "")))
            return
        try:
            rn, rs = nom_std(r)
        except Exception:  # noqa: BLE001
            col.add(pid, "parse_expression(%r) returned %r" % (out, r), ex, "parse-back-value")
            return
        if not (close(rn, rv, 1e-9) and close(rs, re_, 1e-9) and udim(units_of(r)) == udim(UNITS[unit])
                and close(ufac(units_of(r)), ufac(UNITS[unit]), 1e-12)):
            col.add(pid, "parse_expression(%r) = (%r +/- %r) %s, but the text says (%r +/- %r) %s"
                    % (out, rn, rs, units_of(r), rv, re_, unit), ex,
                    "parse-back-value" + (":shorthand" if re.search(r"\d\(\d+\)", out) else ""))


def part_formats(col, stats, quick):
    meas = E_MEAS[::2] if quick else E_MEAS
    units = E_UNITS[:2] if quick else E_UNITS
    combos = [(n, f) for n in E_NUMSPECS for f in E_FLAGS] + list(E_EXTRA)
    stats["format_specs"] = len(combos)
    for (v, e), unit, (nspec, flag) in itertools.product(meas, units, combos):
        check_format(col, stats, v, e, unit, nspec, flag)


# =============================================================================== driver
PARTS = ("A", "B", "C", "D", "E")


def run(tier: str = "quick", seed: int = 0, **kw) -> dict:
    t0 = time.time()
    regs()
    quick = tier == "quick"
    rng = random.Random(seed)
    col = Collector()
    stats = {"evaluations": 0}
    by_part = {}
    only = kw.get("parts", PARTS)
    for p, f in (("A", lambda: part_constructors(col, stats, quick)),
                 ("B", lambda: part_conversion(col, stats, quick, random.Random("%s:B" % seed))),
                 ("C", lambda: part_arithmetic(col, stats, quick, random.Random("%s:C" % seed))),
                 ("D", lambda: part_notations(col, stats, quick)),
                 ("E", lambda: part_formats(col, stats, quick))):
        if p in only:
            e0 = stats["evaluations"]
            f()
            by_part[p] = stats["evaluations"] - e0
    del rng
    global LAST
    LAST = col
    entries = sorted(col.entries.values(), key=lambda e: e["case"])
    by_class = {}
    for e in entries:
        by_class.setdefault(e["class"], []).append(e)
    chosen, k = [], 0
    order = sorted(by_class)
    while len(chosen) < 25 and any(k < len(by_class[c]) for c in order):
        for c in order:
            if k < len(by_class[c]) and len(chosen) < 25:
                chosen.append(by_class[c][k])
        k += 1
    chosen.sort(key=lambda e: e["case"])
    return {
        "name": NAME, "tier": tier, "seed": seed,
        "bound": "A: %d values x %d relative errors x %d unit pairs x 9 constructor forms (+ 6 negative-error forms, 3 rejected "
                 "forms); B: ordered pairs of the multiplicative units of the bundled registry in 8 dimension classes %s (%s) "
                 "and 16 offset-scale pairs x 4 temperatures x {Measurement.to, Quantity(ufloat).to, ito}; C: all binary "
                 "operations over 4 variable slots x their unit choices x {Measurement, Quantity(ufloat), plain} (%s), powers "
                 "-2..3, scalar factors, and %d seeded random expression trees of depth <= 3; D: %d notation strings x 3 "
                 "parsing entry points; E: %d measurements x %d units x %d format specs (+ parse-back of plain / compact / "
                 "pretty renderings)"
                 % (len(A_VALUES[::2] if quick else A_VALUES), len(A_RELS), len(A_PAIRS), stats.get("conversion_units", {}),
                    "strided sample" if quick else "all pairs", "every second combination" if quick else "all",
                    300 if quick else 6000, stats.get("notation_strings", 0), len(E_MEAS[::2] if quick else E_MEAS),
                    len(E_UNITS[:2] if quick else E_UNITS), stats.get("format_specs", 0)),
        "evaluations": stats["evaluations"],
        "evaluations_by_part": by_part,
        "distinct_nontrivial": stats["evaluations"],
        "rule": "itertools.product enumerations of the stated catalogues (parts A, B, D, E and the binary expressions of C) and "
                "random.Random('<seed>:C') expression trees; every case calls pint and is compared with this module's own "
                "expectation",
        "exhaustive": not quick,
        "exhaustive_scope": "thorough: the stated catalogues are enumerated completely; the random expression trees of part C "
                            "are a sample",
        "violations": chosen,
        "violation_count": len(entries),
        "violating_evaluations": sum(e["instances"] for e in entries),
        "violation_classes": {c: len(es) for c, es in sorted(by_class.items())},
        "samples": [
            "M(Q(1.5,'meter'), Q(3.0,'centimeter')): value 1.5 m, error 0.03 m, rel 0.02",
            "M(20.0, 0.5, 'degC').to('degF') -> 68.0 +/- 0.9 degF",
            "(a[meter,M]-a[meter,M]) -> 0 +/- 0 m; (a[centimeter,M]+c[second,M]) must raise DimensionalityError",
            "parse_expression('1.23(4) m') must be (1.23 +/- 0.04) meter",
            "format(M(0.2, 0.01, 's**2'), '.3uSP') = '0.2000(100) second²' reads back as 0.2000 +/- 0.0100",
        ],
        "seconds": round(time.time() - t0, 1),
    }


LAST = None


def replay(data: dict) -> bool:
    regs()
    ok = True
    for ex in data.get("examples", [data]):
        col = Collector()
        stats = {"evaluations": 0}
        p = ex["part"]
        if p.startswith("A"):
            part_constructors(col, stats, False)
            keep = {c: e for c, e in col.entries.items() if any(x == ex for x in e["examples"])}
            col.entries = keep if keep else {c: e for c, e in col.entries.items() if c == data.get("case")}
        elif p == "B":
            check_conversion(col, stats, ex["kind"], ex["u1"], ex["u2"], ex["v"], ex["e"], ex["nom"], ex["std"], ex["mult"],
                             ex.get("at", 0.0))
        elif p == "C":
            def tup(x):
                return tuple(tup(y) for y in x) if isinstance(x, (list, tuple)) else x
            check_expr(col, stats, tup(ex["ast"]), {k: tuple(v) for k, v in ex["choice"].items()})
        elif p == "D":
            check_notation(col, stats, ex["string"], ex["tag"])
        elif p == "E":
            check_format(col, stats, ex["v"], ex["e"], ex["unit"], ex["nspec"], ex["flag"])
        ok = ok and not col.entries
    return ok


if __name__ == "__main__":
    import argparse

    ap = argparse.ArgumentParser()
    ap.add_argument("--tier", default="quick")
    ap.add_argument("--seed", type=int, default=0)
    a = ap.parse_args()
    print(json.dumps(run(a.tier, a.seed), indent=1, default=str))
