"""Bounded stand-in (C01): the @ureg.check decorator agrees with the dimensionality predicate for every way of
delivering the arguments (positional prefix, keywords in any order, defaults skipped): it raises DimensionalityError iff
some argument's dimensionality differs from the one declared for ITS parameter."""
from __future__ import annotations

import itertools
import json

NAME = "c01_check_kwargs"
PARAMS = ["a", "b", "c", "d"]
DIMS = ["[length]", "[time]", "[mass]", None]
GOOD = {"a": "kilometer", "b": "hour", "c": "pound", "d": "kelvin"}
BAD = {"a": "hour", "b": "pound", "c": "kilometer", "d": "second"}  # d is unchecked (None): nothing is bad there
_REG = {}


def _reg():
    import pint

    if "u" not in _REG:
        _REG["u"] = pint.UnitRegistry()
    return _REG["u"]


def _one(npos, kworder, defaulted, bad):
    """npos positional arguments, then the remaining non-defaulted ones as keywords in `kworder`; `bad`: set of parameter names given a wrong dimension"""
    import pint

    u = _reg()
    defaults = {p: u.Quantity(1, GOOD[p]) for p in PARAMS}
    seen = []

    def f(a, b=defaults["b"], c=defaults["c"], d=defaults["d"]):
        seen.append((a, b, c, d))
        return 1

    w = u.check(*DIMS)(f)
    val = {p: u.Quantity(2, (BAD if p in bad else GOOD)[p]) for p in PARAMS}
    args = [val[p] for p in PARAMS[:npos]]
    kwargs = {p: val[p] for p in kworder}
    wrong = any(p in bad and DIMS[PARAMS.index(p)] is not None and p not in defaulted for p in PARAMS)
    try:
        w(*args, **kwargs)
    except pint.DimensionalityError:
        return None if wrong else "raised DimensionalityError although every argument has the declared dimensionality"
    except Exception as e:  # noqa: BLE001
        return f"raised {type(e).__name__}: {e}"
    if wrong:
        return "accepted although an argument has another dimensionality than declared for its parameter"
    exp = tuple(val[p] if p not in defaulted else defaults[p] for p in PARAMS)
    if seen[0] != exp:
        return f"function received {seen[0]}, expected {exp}"
    return None


def run(tier="quick", seed=0, **kw):
    evals, viols, seen, samples = 0, [], {}, []
    for npos in range(1, 5):
        rest = PARAMS[npos:]
        for k in range(len(rest) + 1):
            for given in itertools.combinations(rest, k):
                defaulted = set(rest) - set(given)
                for kworder in itertools.permutations(given):
                    for nb in range(0, 3):
                        for bad in itertools.combinations([p for p in PARAMS if p not in defaulted], nb):
                            evals += 1
                            msg = _one(npos, kworder, defaulted, set(bad))
                            if msg:
                                kind = "spurious-error" if "although every" in msg else "accepted-wrong" if "accepted" in msg else "other"
                                case = f"check-kwargs:{kind}:{'in-order' if list(kworder) == sorted(kworder) else 'out-of-order'}:" \
                                       f"{'defaults-skipped' if defaulted else 'all-given'}"
                                if case in seen:
                                    seen[case]["count"] += 1
                                    continue
                                v = {"case": case, "count": 1, "what": f"@check{tuple(DIMS)} on f(a, b=.., c=.., d=..): {npos} positional, keywords {list(kworder)}, "
                                     f"wrong dimension at {sorted(bad)}: {msg}", "npos": npos, "kworder": list(kworder),
                                     "defaulted": sorted(defaulted), "bad": sorted(bad)}
                                seen[case] = v
                                viols.append(v)
                            elif len(samples) < 4 and evals % 131 == 0:
                                samples.append({"positional": npos, "keywords": list(kworder), "wrong_dimension_at": sorted(bad)})
    return {"name": NAME, "bound": "one 4-parameter function (3 checked dimensions + None): every positional prefix x every subset and order of "
            "keywords x 0-2 wrongly-dimensioned arguments, exhaustive",
            "evaluations": evals, "distinct_nontrivial": evals, "rule": "raise iff an argument differs in dimensionality from its own parameter's declaration",
            "exhaustive": True, "violations": viols[:25], "violation_count": sum(v["count"] for v in viols), "samples": samples}


def replay(data):
    return _one(data["npos"], tuple(data["kworder"]), set(data["defaulted"]), set(data["bad"])) is None


if __name__ == "__main__":
    print(json.dumps(run(), indent=1, default=str))
