"""Bounded stand-in for C09: "Every textual format denotes the unit exactly; plain-text formats round-trip".

Real code under test (pint, /repo): format()/str() of Unit and Quantity (pint.delegates.formatter.*,
pint.formatting) and the inverse direction UnitRegistry.parse_units / Quantity(str) (string_preprocessor,
tokenizer, ParserHelper).

Oracle (independent of the formatter code):
 * round trip: `ureg.parse_units(format(unit, spec)) == unit` for the plain-text specs
   "", "D", "C", "P", "~", "~D", "~C", "~P"; `ureg.Quantity(str(q)) == q`;
 * structure (LaTeX "L"/"~L", HTML "H"/"~H", siunitx "Lx"): small parsers written here decompose the
   rendered text into numerator / denominator terms (name, exponent) and compare them with the unit's
   container (names, or the symbols declared in the definition table for "~");
 * the magnitude part of a formatted quantity equals Python's format(magnitude, mspec);
 * unit / quantity are equal to their former selves, with the same hash, after formatting.

Spaces: every canonical unit of the default registry (+ the dimensionless unit); all compound units with
<= 3 distinct factors over a 12-unit alphabet with exponents in {-3..3}\\{0} (and +-1/2, +-3/2 for the default
and compact formats and the structural checks); float, Decimal and Fraction registries.
"""
from __future__ import annotations

import decimal
import fractions
import itertools
import json
import logging
import math
import multiprocessing
import os
import random
import re
import time
import warnings

import pint

NAME = "c09_format"

Fraction = fractions.Fraction
Decimal = decimal.Decimal

SPECS_RT = ["", "D", "C", "P", "~", "~D", "~C", "~P"]
SPECS_FRAC = ["", "D", "C", "~", "~D", "~C"]  # fractional exponents: default and compact formats only
SPECS_STRUCT = ["L", "~L", "H", "~H", "Lx"]
ALPHABET = [
    "meter",
    "second",
    "kilogram",
    "kelvin",
    "newton",
    "ohm",
    "degree",
    "percent",
    "delta_degree_Celsius",
    "micrometer",
    "angstrom",
    "count",
]
INT_EXPS = ["-3", "-2", "-1", "1", "2", "3"]
FRAC_EXPS = ["-3/2", "-1/2", "1/2", "3/2"]
REGKINDS = ("float", "decimal", "fraction")
MSPECS = [".3f", "e", ".3e", "g", "+.2f", "012.4f", ",.2f", ".0f", ""]
MAX_LISTED = 25
PER_KIND = 2


# --------------------------------------------------------------------------------------------
# registries (created once in the parent, inherited by forked workers)
# --------------------------------------------------------------------------------------------
_G = {}


def _setup():
    if _G:
        return _G
    regs = {
        "float": pint.UnitRegistry(),
        "decimal": pint.UnitRegistry(non_int_type=Decimal),
        "fraction": pint.UnitRegistry(non_int_type=Fraction),
    }
    tables = {}
    for k, r in regs.items():
        # definition table right after construction: canonical name -> declared symbol, multiplicative?
        sym, mult = {}, {}
        for _k, d in sorted(r._units.items()):  # sorted: independent of PYTHONHASHSEED
            sym[d.name] = d.defined_symbol if d.defined_symbol else d.name
            mult[d.name] = type(d.converter).__name__ == "ScaleConverter"
        pnames = [p.name for p in r._prefixes.values() if p.name]
        tables[k] = {"sym": sym, "mult": mult, "prefix_names": list(dict.fromkeys(pnames))}
    assert list(tables["float"]["sym"]) == list(tables["decimal"]["sym"]) == list(tables["fraction"]["sym"])
    _G.update(regs=regs, tables=tables, names=list(tables["float"]["sym"]))
    return _G


def _exp_value(regkind, e):
    """exponent string ('2', '-3/2') -> number of the registry's flavour (ints stay ints)"""
    f = Fraction(e)
    if f.denominator == 1:
        return int(f)
    if regkind == "float":
        return float(f)
    if regkind == "decimal":
        return Decimal(f.numerator) / Decimal(f.denominator)
    return f


def _expr(desc):
    """own rendering of a unit description as an expression (for units built by parsing)"""
    parts = []
    for name, e in desc:
        f = Fraction(e)
        txt = str(int(f)) if f.denominator == 1 else repr(float(f))
        parts.append(f"{name}**({txt})")
    return " * ".join(parts) if parts else "dimensionless"


def _label(desc):
    return "*".join(n if e == "1" else f"{n}^{e}" for n, e in desc) if desc else "dimensionless"


def _build(ureg, regkind, desc, prov):
    if prov == "parsed":
        return ureg.parse_units(_expr(desc))
    return ureg.Unit(ureg.UnitsContainer({n: _exp_value(regkind, e) for n, e in desc}))


def _state(unit):
    return tuple(sorted((k, Fraction(str(v)) if not isinstance(v, float) else Fraction(v)) for k, v in unit._units.items()))


# --------------------------------------------------------------------------------------------
# structural parsers (reference side)
# --------------------------------------------------------------------------------------------
class Struct(Exception):
    pass


def _take_group(s, i):
    if i >= len(s) or s[i] != "{":
        raise Struct(f"expected '{{' at {i} in {s!r}")
    depth = 0
    for j in range(i, len(s)):
        if s[j] == "{" and (j == 0 or s[j - 1] != "\\"):
            depth += 1
        elif s[j] == "}" and s[j - 1] != "\\":
            depth -= 1
            if depth == 0:
                return s[i + 1 : j], j + 1
    raise Struct(f"unbalanced braces in {s!r}")


_LATEX_UNESC = re.compile(r"\\([&%$#_{}])")


def _parse_latex(s):
    if s.startswith(r"\frac{"):
        num, j = _take_group(s, 5)
        den, k = _take_group(s, j)
        if k != len(s):
            raise Struct(f"trailing text after \\frac in {s!r}")
    else:
        num, den = s, ""

    def terms(x):
        if x in ("", "1"):
            return []
        if x.startswith(r"\left(") and x.endswith(r"\right)"):
            x = x[len(r"\left(") : -len(r"\right)")]
        out = []
        for t in x.split(r" \cdot "):
            m = re.fullmatch(r"\\mathrm\{(.*?)\}(?:\^\{(.*)\})?", t)
            if not m:
                raise Struct(f"term {t!r} is not \\mathrm{{name}}^{{exp}}")
            out.append((_LATEX_UNESC.sub(r"\1", m.group(1)), m.group(2) or "1"))
        return out

    return terms(num), terms(den)


def _parse_html(s):
    s = re.sub(r"<sup>(.*?)</sup>", r"^{\1}", s)
    if s.count("/") > 1:
        raise Struct(f"more than one '/' in {s!r}")
    num, _, den = s.partition("/")

    def terms(x, is_den):
        if x in ("", "1"):
            return []
        if x.startswith("(") and x.endswith(")"):
            x = x[1:-1]
        elif is_den and " " in x:
            raise Struct(f"several denominator terms without parentheses in {s!r}")
        out = []
        for t in x.split(" "):
            m = re.fullmatch(r"(.+?)(?:\^\{(.*)\})?", t)
            if not m:
                raise Struct(f"bad term {t!r}")
            out.append((m.group(1), m.group(2) or "1"))
        return out

    return terms(num, False), terms(den, True)


def _struct_expected(desc, display):
    pos = sorted((display(n), Fraction(e)) for n, e in desc if Fraction(e) > 0)
    neg = sorted((display(n), -Fraction(e)) for n, e in desc if Fraction(e) < 0)
    return pos, neg


def _num(x):
    try:
        return Fraction(x)
    except (ValueError, ZeroDivisionError):
        raise Struct(f"exponent {x!r} is not a number")


def _check_markup(out, desc, display, parser, tilde):
    """-> None or description of the structural mismatch"""
    try:
        if not desc:
            got = parser(out)
            want = ([], []) if tilde else ([("dimensionless", "1")], [])
            return None if (got == want) else f"rendered {out!r}"
        num, den = parser(out)
        gpos = sorted((n, _num(e)) for n, e in num)
        gneg = sorted((n, _num(e)) for n, e in den)
    except Struct as e:
        return f"rendered {out!r}: {e}"
    pos, neg = _struct_expected(desc, display)
    if gpos != pos or gneg != neg:
        return f"rendered {out!r}: numerator {gpos!r} / denominator {gneg!r}, unit has {pos!r} / {neg!r}"
    return None


def _siunitx_variants(name, prefix_names, unit_names):
    """\\name, or \\prefix\\unit when the name really is prefix name + declared unit name"""
    v = {"\\" + name}
    for p in prefix_names:
        if name.startswith(p) and name[len(p) :] in unit_names:
            v.add("\\" + p + "\\" + name[len(p) :])
    return v


def _siunitx_power(f):
    if f.denominator == 1:
        n = int(f)
        return {""} if n == 1 else {r"\squared"} if n == 2 else {r"\cubed"} if n == 3 else {rf"\tothe{{{n}}}"}
    x = float(f)
    return {rf"\tothe{{{x:.3f}}}", rf"\tothe{{{x:.2f}}}", rf"\tothe{{{x:.1f}}}", rf"\tothe{{{x:g}}}"}


def _check_siunitx(out, desc, prefix_names, unit_names):
    m = re.fullmatch(r"\\si\[\]\{(.*)\}", out, flags=re.S)
    if not m:
        return f"rendered {out!r}: not of the form \\si[]{{...}}"
    inner = m.group(1)
    pos = [(n, Fraction(e)) for n, e in desc if Fraction(e) > 0]
    neg = [(n, -Fraction(e)) for n, e in desc if Fraction(e) < 0]

    def renderings(items, per):
        res = set()
        for perm in itertools.permutations(items):
            opts = [[per + v + pw for v in _siunitx_variants(n, prefix_names, unit_names) for pw in _siunitx_power(e)] for n, e in perm]
            for combo in itertools.product(*opts):
                res.add("".join(combo))
        return res

    allowed = {a + b for a in renderings(pos, "") for b in renderings(neg, r"\per")}
    if inner not in allowed:
        return f"rendered {out!r}: expected units {pos!r} then \\per-prefixed {neg!r}"
    return None


# --------------------------------------------------------------------------------------------
# unit checks (worker side)
# --------------------------------------------------------------------------------------------
def _check_unit(regkind, desc, prov, struct=True):
    """-> (n_evaluations, [violation dicts], {spec: example} of Fraction 'n'-format failures)"""
    g = _G
    ureg, tab = g["regs"][regkind], g["tables"][regkind]
    desc = [tuple(x) for x in desc]
    unit = _build(ureg, regkind, desc, prov)
    before, hbefore = _state(unit), hash(unit)
    has_frac = any(Fraction(e).denominator != 1 for _, e in desc)
    label = _label(desc)
    base = {"reg": regkind, "unit": [list(x) for x in desc], "prov": prov}
    viol, ffail, n = [], {}, 0
    single = len(desc) == 1 and desc[0][1] == "1"

    def fmt(spec):
        try:
            return "ok", format(unit, spec)
        except Exception as e:
            return "exc", e

    for spec in SPECS_FRAC if has_frac else SPECS_RT:
        n += 1
        st, s = fmt(spec)
        if st == "exc":
            if regkind == "fraction" and isinstance(s, (ValueError, TypeError)) and "Fraction" in str(s):
                ffail.setdefault(spec, {"unit": base["unit"], "prov": prov, "error": f"{type(s).__name__}: {s}"})
            else:
                viol.append(
                    dict(base, kind="format-raises", spec=spec, case=f"format-raises:{regkind}:{label}:{spec}",
                         what=f"format({label}, {spec!r}) raised {type(s).__name__}: {s}")
                )
            continue
        try:
            back = ureg.parse_units(s)
            err = None
        except Exception as e:
            back, err = None, e
        if err is not None or back != unit or _state(back) != before:
            kind = "symbol-roundtrip" if (single and "~" in spec) else "roundtrip"
            cid = f"symbol-roundtrip:{desc[0][0]}:{spec}" if kind == "symbol-roundtrip" else f"roundtrip:{regkind}:{label}:{spec}"
            if regkind != "float" and kind == "symbol-roundtrip":
                cid = f"symbol-roundtrip:{regkind}:{desc[0][0]}:{spec}"
            got = f"raises {type(err).__name__}: {err}" if err is not None else f"gives {back!s}"
            viol.append(dict(base, kind=kind, spec=spec, case=cid, what=f"format({label}, {spec!r}) = {s!r}; parse_units of it {got}"))
    if struct:
        for spec in SPECS_STRUCT:
            n += 1
            st, s = fmt(spec)
            if st == "exc":
                if regkind == "fraction" and isinstance(s, (ValueError, TypeError)) and "Fraction" in str(s):
                    ffail.setdefault(spec, {"unit": base["unit"], "prov": prov, "error": f"{type(s).__name__}: {s}"})
                else:
                    viol.append(
                        dict(base, kind="format-raises", spec=spec, case=f"format-raises:{regkind}:{label}:{spec}",
                             what=f"format({label}, {spec!r}) raised {type(s).__name__}: {s}")
                    )
                continue
            tilde = "~" in spec
            display = (lambda nm: tab["sym"][nm]) if tilde else (lambda nm: nm)
            if spec.endswith("Lx"):
                msg = _check_siunitx(s, desc, tab["prefix_names"], tab["sym"])
            elif spec.endswith("L"):
                msg = _check_markup(s, desc, display, _parse_latex, tilde)
            else:
                msg = _check_markup(s, desc, display, _parse_html, tilde)
            if msg:
                viol.append(dict(base, kind="structure", spec=spec, case=f"structure:{spec}:{regkind}:{label}", what=msg))
    if _state(unit) != before or hash(unit) != hbefore:
        viol.append(dict(base, kind="mutated", spec="*", case=f"mutated:{regkind}:{label}", what="unit changed by formatting"))
    return n, viol, ffail


def _task_units(args):
    regkind, prov, descs, struct = args
    n_eval, viol, ffail, fcount = 0, [], {}, {}
    for desc in descs:
        n, v, ff = _check_unit(regkind, desc, prov, struct)
        n_eval += n
        viol.extend(v)
        for spec, ex in ff.items():
            fcount[spec] = fcount.get(spec, 0) + 1
            ffail.setdefault(spec, ex)
    return n_eval, viol, ffail, fcount, len(descs)


# --------------------------------------------------------------------------------------------
# quantity checks
# --------------------------------------------------------------------------------------------
def _mag(regkind, m):
    """magnitude description ('int', '12') / ('float', repr) / ('decimal', str) / ('fraction', 'a/b')"""
    t, txt = m
    if t == "int":
        return int(txt)
    if t == "float":
        return float(txt)
    if t == "decimal":
        return Decimal(txt)
    return Fraction(txt)


_SUP = str.maketrans("-0123456789", "⁻⁰¹²³⁴⁵⁶⁷⁸⁹")


def _pretty_magnitude(txt):
    """documented look of the pretty ('P') format: scientific notation is shown as mantissa×10ⁿ"""
    m = re.fullmatch(r"(.*\d\.?\d*)[eE]([+-]?)0*(\d+)", txt)
    if not m:
        return txt
    sign = "-" if m.group(2) == "-" else ""
    return m.group(1) + "×10" + (sign + m.group(3)).translate(_SUP)


def _safe_hash(x):
    """hash(Quantity) converts to base units, which some unit/magnitude-type combinations do not support
    (not a formatting matter): the exception type stands in for the hash then"""
    try:
        return hash(x)
    except Exception as e:
        return ("unhashable", type(e).__name__)


def _same_mag(a, b):
    try:
        if isinstance(a, float) and isinstance(b, float) and math.isnan(a) and math.isnan(b):
            return True
        return bool(a == b)
    except Exception:
        return False


def _check_quantity(regkind, desc, m):
    g = _G
    ureg = g["regs"][regkind]
    desc = [tuple(x) for x in desc]
    mag = _mag(regkind, m)
    unit = _build(ureg, regkind, desc, "native")
    q = ureg.Quantity(mag, unit)
    label = _label(desc)
    base = {"reg": regkind, "unit": [list(x) for x in desc], "mag": list(m)}
    ubefore, mbefore, hbefore = _state(q.units), q.magnitude, _safe_hash(q)
    viol, n, ffail = [], 0, {}

    def known(e):
        return regkind == "fraction" and isinstance(e, (ValueError, TypeError)) and "Fraction" in str(e)

    fraction_known = False

    # str round trip
    n += 1
    try:
        s = str(q)
        err = None
    except Exception as e:
        s, err = None, e
    if err is not None:
        if known(err):
            fraction_known = True
            ffail.setdefault("", {"unit": base["unit"], "prov": "native", "error": f"{type(err).__name__}: {err}"})
        else:
            viol.append(dict(base, kind="format-raises", case=f"format-raises:{regkind}:str:{m[1]} {label}", what=f"str(Quantity({mag!r}, {label})) raised {type(err).__name__}: {err}"))
    else:
        try:
            back = ureg.Quantity(s)
            perr = None
        except Exception as e:
            back, perr = None, e
        ok = perr is None and _state(back.units) == ubefore and _same_mag(back.magnitude, mag)
        if not ok:
            offset = any(not g["tables"][regkind]["mult"][nm] for nm, _ in desc)
            got = f"raises {type(perr).__name__}: {perr}" if perr is not None else f"gives {back!r}"
            cid = f"quantity-roundtrip:offset:{label}" if offset else f"quantity-roundtrip:{regkind}:{m[1]} {label}"
            viol.append(dict(base, kind="quantity-roundtrip-offset" if offset else "quantity-roundtrip", case=cid, what=f"str(q) = {s!r}; Quantity of it {got}; q = Quantity({mag!r}, {label!r})"))

    # magnitude rendering
    if not fraction_known:
        for mspec in MSPECS:
            for uspec in ("", "~", "P", "~C"):
                n += 1
                spec = mspec + uspec
                try:
                    want_m = format(mag, mspec)
                except Exception:
                    continue  # Python itself cannot format this magnitude type with this spec
                try:
                    out = format(q, spec)
                except Exception as e:
                    if not known(e):
                        viol.append(dict(base, kind="magnitude", spec=spec, case=f"magnitude:{regkind}:{spec}:{m[1]} {label}", what=f"format(q, {spec!r}) raised {type(e).__name__}: {e}"))
                    continue
                ustr = format(q.units, uspec)
                # pretty format: scientific notation may be shown as mantissa×10ⁿ (pint does so for positive
                # magnitudes only; both spellings denote the same number and are accepted)
                forms = {want_m, _pretty_magnitude(want_m)} if "P" in uspec else {want_m}
                allowed = set()
                for wm in forms:
                    allowed.add(wm + " " + ustr if ustr else wm)
                    if ustr.startswith("1 / "):
                        allowed.add(wm + " " + ustr[2:])
                if out not in allowed:
                    viol.append(dict(base, kind="magnitude", spec=spec, case=f"magnitude:{regkind}:{spec}:{m[1]} {label}", what=f"format(q, {spec!r}) = {out!r}, expected one of {sorted(allowed)!r} (Python renders the magnitude as {want_m!r})"))
        # compact modifier
        if all(g["tables"][regkind]["mult"][nm] for nm, _ in desc) and desc and not isinstance(mag, Fraction):
            for spec, rest in (("#~P", "~P"), ("#D", "D"), (".2f#~P", ".2f~P")):
                n += 1
                try:
                    qc = q.to_compact()
                except Exception:
                    continue  # to_compact itself fails for this magnitude: C15's subject, not formatting
                try:
                    out = format(q, spec)
                    want = format(qc, rest)
                    mtxt = format(qc.magnitude, rest.replace("~", "").replace("P", "").replace("D", ""))
                    mforms = (mtxt, _pretty_magnitude(mtxt)) if "P" in rest else (mtxt,)
                except Exception as e:
                    viol.append(dict(base, kind="magnitude", spec=spec, case=f"magnitude:{regkind}:{spec}:{m[1]} {label}", what=f"format(q, {spec!r}) raised {type(e).__name__}: {e}"))
                    continue
                if out != want or not out.startswith(mforms):
                    viol.append(dict(base, kind="magnitude", spec=spec, case=f"magnitude:{regkind}:{spec}:{m[1]} {label}", what=f"format(q, {spec!r}) = {out!r}, but format(q.to_compact(), {rest!r}) = {want!r} (magnitude {mtxt!r})"))
    if _state(q.units) != ubefore or not _same_mag(q.magnitude, mbefore) or type(q.magnitude) is not type(mbefore) or _safe_hash(q) != hbefore:
        viol.append(dict(base, kind="mutated", case=f"mutated:{regkind}:{m[1]} {label}", what="quantity changed by formatting"))
    return n, viol, ffail


def _task_quantities(args):
    regkind, items = args
    n_eval, viol, ffail, fcount = 0, [], {}, {}
    with warnings.catch_warnings():
        warnings.simplefilter("ignore")
        for desc, m in items:
            n, v, ff = _check_quantity(regkind, desc, m)
            n_eval += n
            viol.extend(v)
            for spec, ex in ff.items():
                fcount[spec] = fcount.get(spec, 0) + 1
                ffail.setdefault(spec, ex)
    return n_eval, viol, ffail, fcount, len(items)


def _check_default_format(seed, n):
    """registry-level default_format: str(q) / format(q, "") must be what the explicit spec gives"""
    rng = random.Random(seed + 17)
    viol, evals = [], 0
    for dflt in ("~P", ".3f~C", "C", ".2e"):
        ureg = pint.UnitRegistry()
        ureg.formatter.default_format = dflt
        for _ in range(n):
            k = rng.choice((1, 2, 3))
            desc = tuple((nm, rng.choice(INT_EXPS)) for nm in rng.sample(ALPHABET, k))
            mag = rng.choice([rng.uniform(-1e4, 1e4), rng.randrange(-1000, 1000), 1e-9 * rng.random()])
            q = ureg.Quantity(mag, ureg.Unit(ureg.UnitsContainer({a: int(b) for a, b in desc})))
            evals += 1
            a, b, c = str(q), format(q, ""), format(q, dflt)
            un = q.units
            ua, uc = str(un), format(un, "".join(ch for ch in dflt if ch in "~PCDHL"))
            if not (a == b == c) or ua != uc:
                viol.append(dict(kind="default-format", case=f"default-format:{dflt}:{mag!r} {_label(desc)}", reg="float", unit=[list(x) for x in desc],
                                 dflt=dflt, magnitude=repr(mag), what=f"default_format={dflt!r}: str(q)={a!r}, format(q,'')={b!r}, format(q,{dflt!r})={c!r}; str(unit)={ua!r} vs {uc!r}"))
    return evals, viol


def _dispatch(task):
    return _task_units(task[1]) if task[0] == "u" else _task_quantities(task[1])


# --------------------------------------------------------------------------------------------
# enumeration
# --------------------------------------------------------------------------------------------
def _compound(exps_for, k):
    """all units with exactly k distinct alphabet factors; exps_for: list of exponent strings"""
    for combo in itertools.combinations(ALPHABET, k):
        for es in itertools.product(exps_for, repeat=k):
            yield tuple(zip(combo, es))


def _has_frac(desc):
    return any("/" in e for _, e in desc)


def _stride(seq, k, seed):
    return [x for i, x in enumerate(seq) if i % k == seed % k] if k > 1 else list(seq)


def _random_mags(rng, regkind, n):
    out = []
    for _ in range(n):
        r = rng.random()
        if r < 0.35:
            out.append(("int", str(rng.choice([0, 1, -1, 7, 12, -250, 10**6, 10**20, rng.randrange(-10**9, 10**9)]))))
        elif regkind == "float":
            x = rng.choice(
                [rng.uniform(-1000, 1000), rng.random() * 10 ** rng.randrange(-30, 30), 0.1 + 0.2, 1e22, 1e-7, -0.0, 5e-324, 1.7976931348623157e308, float(rng.randrange(-100, 100)), 1234.5678]
            )
            out.append(("float", repr(x)))
        elif regkind == "decimal":
            out.append(("decimal", rng.choice([str(round(rng.uniform(-1000, 1000), rng.randrange(0, 8))), "1.10", "-0.001", "1E+3", "123456789012345678.123456789", "0.1"])))
        else:
            out.append(("fraction", f"{rng.randrange(-1000, 1000)}/{rng.randrange(1, 1000)}"))
    return out


def _plan(tier, seed, names):
    """-> list of pool tasks and bookkeeping numbers"""
    rng = random.Random(seed)
    quick = tier == "quick"
    singles = [((n, "1"),) for n in names] + [()]
    c1 = list(_compound(INT_EXPS, 1))
    c2 = list(_compound(INT_EXPS, 2))
    c3 = list(_compound(INT_EXPS, 3))
    allexp = INT_EXPS + FRAC_EXPS
    f1 = [d for d in _compound(allexp, 1) if _has_frac(d)]
    f2 = [d for d in _compound(allexp, 2) if _has_frac(d)]
    f3 = [d for d in _compound(allexp, 3) if _has_frac(d)]
    space = {"singles": len(singles), "int<=3": len(c1) + len(c2) + len(c3), "frac<=3": len(f1) + len(f2) + len(f3)}
    tasks, done = [], {}

    def add(regkind, prov, descs, struct=True, chunk=400):
        for i in range(0, len(descs), chunk):
            tasks.append(("u", (regkind, prov, descs[i : i + chunk], struct)))
        done[(regkind, prov)] = done.get((regkind, prov), 0) + len(descs)

    exhaustive = not quick
    # float registry
    k3 = 11 if quick else 1
    kf3 = 64 if quick else 8
    add("float", "native", singles)
    add("float", "native", c1 + c2 + _stride(c3, k3, seed))
    add("float", "native", f1 + f2 + _stride(f3, kf3, seed))
    add("float", "parsed", _stride(c1 + c2, 3, seed) + _stride(c3, 97 if quick else 11, seed) + _stride(f2, 5, seed), struct=False)
    # Decimal and Fraction registries
    for rk in ("decimal", "fraction"):
        add(rk, "native", singles)
        add(rk, "native", c1 + _stride(c2, 5 if quick else 1, seed) + _stride(c3, 61 if quick else 1, seed))
        add(rk, "native", f1 + _stride(f2, 7 if quick else 1, seed) + _stride(f3, 257 if quick else 16, seed))
        add(rk, "parsed", c1 + _stride(c2, 9 if quick else 2, seed) + _stride(c3, 199 if quick else 7, seed) + _stride(f2, 11 if quick else 3, seed), struct=False)
    # quantities
    nq = {"float": 1000 if quick else 8000, "decimal": 300 if quick else 2500, "fraction": 300 if quick else 2500}
    offs = [((n, "1"),) for n in ("degree_Celsius", "degree_Fahrenheit", "degree_Reaumur")]
    pool_units = singles + c1 + c2 + f1 + _stride(c3, 101, seed)
    nquant = 0
    for rk in REGKINDS:
        items = []
        mags = _random_mags(rng, rk, nq[rk])
        for i, m in enumerate(mags):
            d = offs[i % 3] if i < 6 else pool_units[rng.randrange(len(pool_units))]
            items.append((d, m))
        nquant += len(items)
        for i in range(0, len(items), 100):
            tasks.append(("q", (rk, items[i : i + 100])))
    return tasks, space, done, nquant, exhaustive


# --------------------------------------------------------------------------------------------
# run / replay
# --------------------------------------------------------------------------------------------
def run(tier: str = "quick", seed: int = 0, **kw) -> dict:
    assert tier in ("quick", "thorough")
    t0 = time.time()
    workers = int(kw.get("workers", min(16, os.cpu_count() or 1)))
    max_listed = int(kw.get("max_listed", MAX_LISTED))
    plog = logging.getLogger("pint")
    old = plog.level
    plog.setLevel(logging.ERROR)
    try:
        g = _setup()
        tasks, space, done, nquant, exhaustive = _plan(tier, seed, g["names"])
        ctx = multiprocessing.get_context("fork")
        evaluations, nunits = 0, 0
        viol, ffail, fcount = [], {}, {}
        with ctx.Pool(workers) as pool:
            for task, (n, v, ff, fc, k) in zip(tasks, pool.imap(_dispatch, tasks, chunksize=1)):
                evaluations += n
                viol.extend(v)
                if task[0] == "u":
                    nunits += k
                for spec, ex in ff.items():
                    ffail.setdefault(spec, ex)
                for spec, c in fc.items():
                    fcount[spec] = fcount.get(spec, 0) + c
        n, v = _check_default_format(seed, 60 if tier == "quick" else 600)
        evaluations += n
        viol.extend(v)
    finally:
        plog.setLevel(old)
    # the Fraction-registry 'n' format failure: one aggregated entry per spec
    agg = []
    for spec in SPECS_RT + SPECS_STRUCT:
        if spec in ffail:
            ex = ffail[spec]
            agg.append(
                dict(kind="fraction-format", case=f"fraction-format:{spec}", reg="fraction", unit=ex["unit"], prov=ex["prov"], spec=spec, count=fcount[spec],
                     what=f"Fraction registry: format(unit, {spec!r}) raised for {fcount[spec]} units with an exponent other than 1, e.g. {_label([tuple(x) for x in ex['unit']])} ({ex['prov']}): {ex['error']}")
            )
    # de-duplicate case ids (the same unit may be reached through several plans)
    seen, uniq = set(), []
    for v in agg + viol:
        if v["case"] not in seen:
            seen.add(v["case"])
            uniq.append(v)
    kinds = {}
    for v in uniq:
        kinds[v["kind"]] = kinds.get(v["kind"], 0) + 1
    listed, per = [], {}
    for v in uniq:
        lim = {"fraction-format": 13, "symbol-roundtrip": 4}.get(v["kind"], PER_KIND)
        if per.get(v["kind"], 0) < lim and len(listed) < max_listed:
            per[v["kind"]] = per.get(v["kind"], 0) + 1
            listed.append(v)
    if len(listed) < max_listed:
        ids = {v["case"] for v in listed}
        for v in uniq:
            if len(listed) >= max_listed:
                break
            if v["case"] not in ids:
                listed.append(v)
    samples = [
        {"unit": "meter", "spec": "~P", "check": "parse_units(format(u, spec)) == u"},
        {"unit": _label(tasks[2][1][2][5]), "reg": tasks[2][1][0], "built": tasks[2][1][1], "specs": SPECS_RT + SPECS_STRUCT},
        {"unit": "kilogram*meter^2*second^-2", "spec": "L", "check": "\\frac{..}{..} terms == container"},
        {"quantity": "Quantity(1234.5678, 'meter/second**2')", "spec": ".3f~P", "check": "magnitude text == format(1234.5678, '.3f')"},
    ]
    per_reg = {f"{k[0]}/{k[1]}": v for k, v in done.items()}
    return {
        "name": NAME,
        "bound": (
            f"{space['singles']} single units (every canonical unit of the default registry + dimensionless) x 8 plain-text + 5 markup specs in "
            f"float, Decimal and Fraction registries; compound units with <= 3 distinct factors over the 12-unit alphabet {ALPHABET}: "
            f"{space['int<=3']} with exponents in -3..3 (x 8 + 5 specs) and {space['frac<=3']} with at least one exponent in +-1/2, +-3/2 (x 6 + 5 specs); "
            f"units executed per registry/provenance: {per_reg}"
            + (" (every unit of the integer space in all three registries; fractional 3-factor units sampled)" if exhaustive else " (1- and 2-factor units complete in the float registry, the rest by deterministic stride)")
            + f"; {nquant} quantities (int/float/Decimal/Fraction magnitudes) for str round trip, {len(MSPECS)} magnitude specs x 4 unit specs, '#' compact modifier, unchanged-after-formatting; 4 default_format settings x {60 if tier == 'quick' else 600} quantities"
        ),
        "evaluations": evaluations,
        "distinct_nontrivial": nunits + nquant,
        "rule": "one case = (registry, how the unit was built [native container | parsed expression], unit, spec); every case is non-trivial "
        "(format + parse back, or format + structural decomposition); counted: distinct (registry, provenance, unit) and quantities",
        # the fractional 3-factor units and the quantities are deterministic samples in both tiers
        "exhaustive": False,
        "exhaustive_parts": {
            "single canonical units x specs x 3 registries": True,
            "1- and 2-factor units, integer exponents, float registry": True,
            "<=3-factor units, integer exponents, all 3 registries": exhaustive,
            "1- and 2-factor units with fractional exponents, float registry": True,
            "3-factor units with fractional exponents": False,
            "quantities / magnitude specs": False,
        },
        "violations": listed,
        "violation_count": len(uniq),
        "violation_kinds": kinds,
        "samples": samples,
        "wall_s": round(time.time() - t0, 1),
        "tier": tier,
        "seed": seed,
    }


def replay(data: dict) -> bool:
    plog = logging.getLogger("pint")
    old = plog.level
    plog.setLevel(logging.ERROR)
    try:
        _setup()
        kind = data["kind"]
        with warnings.catch_warnings():
            warnings.simplefilter("ignore")
            if kind == "default-format":
                ureg = pint.UnitRegistry()
                ureg.formatter.default_format = data["dflt"]
                mag = float(data["magnitude"]) if "." in data["magnitude"] or "e" in data["magnitude"] else int(data["magnitude"])
                q = ureg.Quantity(mag, ureg.Unit(ureg.UnitsContainer({a: int(b) for a, b in data["unit"]})))
                return str(q) == format(q, "") == format(q, data["dflt"])
            if "mag" in data:
                _, v, _ff = _check_quantity(data["reg"], data["unit"], tuple(data["mag"]))
                return not any(x["case"] == data["case"] for x in v)
            _, v, ff = _check_unit(data["reg"], data["unit"], data["prov"], struct=True)
            if kind == "fraction-format":
                return data["spec"] not in ff
            return not any(x["case"] == data["case"] for x in v)
    finally:
        plog.setLevel(old)


if __name__ == "__main__":
    import argparse

    ap = argparse.ArgumentParser()
    ap.add_argument("--tier", default="quick", choices=("quick", "thorough"))
    ap.add_argument("--seed", type=int, default=0)
    a = ap.parse_args()
    print(json.dumps(run(a.tier, a.seed), indent=1, default=str, ensure_ascii=False))
