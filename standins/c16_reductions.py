"""Bounded stand-in (C16): reductions whose result unit depends on HOW MANY elements are combined, and integration
over grids given in offset units.

* np.prod / np.nanprod / Quantity.prod with `axis` and `where`: over all 64 boolean masks of a 2x3 array and
  axis in {None, 0, 1}: when the selected element counts of the (non-empty) output positions differ there is no single
  unit -> DimensionalityError; otherwise values equal NumPy on the magnitudes and the unit is unit**count; the physical
  result does not depend on the input being given in metre or centimetre.  (Empty output positions are not judged.)
* np.trapezoid / np.trapz with `x=` or `dx=` in degC / degF / kelvin / delta_degC: in an autoconvert registry the
  result equals NumPy on the base-unit (kelvin) grid times unit(y)*kelvin; in the default registry an offset grid raises
  OffsetUnitCalculusError; the result does not depend on the grid being given in degC or degF."""
from __future__ import annotations

import itertools
import json

NAME = "c16_reductions"
_REG = {}


def _regs():
    import pint

    if not _REG:
        _REG["default"] = pint.UnitRegistry()
        _REG["auto"] = pint.UnitRegistry(autoconvert_offset_to_baseunit=True)
    return _REG


def _close(a, b, rtol=1e-9):
    import numpy as np

    a, b = np.asarray(a, dtype=float), np.asarray(b, dtype=float)
    return a.shape == b.shape and bool(np.all(np.abs(a - b) <= rtol * np.maximum(1.0, np.maximum(np.abs(a), np.abs(b)))))


def _prod_case(fname, form, axis, mask_bits):
    import numpy as np
    import pint

    u = _regs()["default"]
    base = np.array([[2.0, 3.0, 5.0], [7.0, 11.0, 13.0]])
    mask = np.array([(mask_bits >> i) & 1 for i in range(6)], dtype=bool).reshape(2, 3)
    counts = np.sum(mask, axis=axis)
    nz = sorted(set(int(c) for c in np.atleast_1d(counts).ravel() if c))
    outs = {}
    for unit, scale in (("meter", 1.0), ("centimeter", 100.0)):
        q = u.Quantity(base * scale, unit)
        try:
            if form == "function":
                r = getattr(np, fname)(q, axis=axis, where=mask)
            else:
                r = q.prod(axis=axis, where=mask)
            outs[unit] = ("ok", r)
        except pint.DimensionalityError:
            outs[unit] = ("dimerr", None)
        except Exception as e:  # noqa: BLE001
            outs[unit] = ("exc", f"{type(e).__name__}: {e}")
    if len(nz) > 1:
        for unit, (k, r) in outs.items():
            if k != "dimerr":
                return f"selected counts per output position are {nz}: no single result unit exists, expected DimensionalityError; " \
                       f"input in {unit} gave " + (f"{r!r}" if k == "ok" else str(r))
        return None
    if not nz:
        return None  # nothing selected anywhere: not judged
    n = nz[0]
    ref = np.prod(base, axis=axis, where=mask)
    for unit, (k, r) in outs.items():
        if k != "ok":
            return f"every non-empty output position multiplies {n} element(s): expected {unit}**{n}; got {k} {r}"
        if dict(r.units._units) != {unit: n}:
            return f"unit {r.units!s}, expected {unit}**{n}"
    sel = np.atleast_1d(counts).ravel() > 0
    m = np.atleast_1d(outs["meter"][1].magnitude).ravel()[sel]
    c = np.atleast_1d(outs["centimeter"][1].to(f"meter**{n}").magnitude).ravel()[sel]
    if not _close(m, np.atleast_1d(ref).ravel()[sel]):
        return f"values {m} differ from NumPy on the magnitudes {np.atleast_1d(ref).ravel()[sel]}"
    if not _close(m, c):
        return f"result depends on the input unit: {m} m**{n} from metres, {c} m**{n} from centimetres"
    return None


GRIDS = {"degC": [10.0, 20.0, 40.0], "degF": [50.0, 68.0, 104.0], "kelvin": [283.15, 293.15, 313.15], "delta_degC": [0.0, 10.0, 30.0]}


def _trapz_case(fname, regkey, gridunit, how):
    import numpy as np
    import pint

    if not hasattr(np, fname):
        return None
    u = _regs()[regkey]
    y = u.Quantity(np.array([1.0, 3.0, 2.0]), "joule/kelvin")
    offset = gridunit in ("degC", "degF")
    if how == "x":
        kw = {"x": u.Quantity(np.array(GRIDS[gridunit]), gridunit)}
        ref = np.trapz([1.0, 3.0, 2.0], GRIDS["kelvin"] if gridunit != "delta_degC" else GRIDS["delta_degC"]) if hasattr(np, "trapz") \
            else np.trapezoid([1.0, 3.0, 2.0], GRIDS["kelvin"] if gridunit != "delta_degC" else GRIDS["delta_degC"])
    else:
        step = {"degC": 10.0, "degF": 50.0, "kelvin": 283.15, "delta_degC": 10.0}[gridunit]
        kw = {"dx": u.Quantity(step, gridunit)}
        kstep = {"degC": 283.15, "degF": 283.15, "kelvin": 283.15, "delta_degC": 10.0}[gridunit]
        ref = (1.0 + 3.0) / 2 * kstep + (3.0 + 2.0) / 2 * kstep
    try:
        r = getattr(np, fname)(y, **kw)
    except pint.OffsetUnitCalculusError:
        if offset and regkey == "default":
            return None
        return "raised OffsetUnitCalculusError"
    except Exception as e:  # noqa: BLE001
        return f"raised {type(e).__name__}: {e}"
    if offset and regkey == "default":
        return f"default registry: an offset-unit grid must raise OffsetUnitCalculusError, got {r!r}"
    try:
        got = r.to("joule").magnitude
    except Exception as e:  # noqa: BLE001
        return f"result {r!r} is not an energy ({type(e).__name__}); expected {ref} joule"
    if not _close(got, ref):
        return f"result {r!r} = {got} J, NumPy on the kelvin grid gives {ref} J"
    return None


def run(tier="quick", seed=0, **kw):
    evals, viols, seen, samples = 0, [], {}, []

    def note(case, what, data):
        if case in seen:
            seen[case]["count"] += 1
            return
        v = dict(case=case, count=1, what=what, **data)
        seen[case] = v
        viols.append(v)

    for fname, form, axis, bits in itertools.product(("prod", "nanprod"), ("function", "method"), (None, 0, 1), range(64)):
        if form == "method" and fname == "nanprod":
            continue
        evals += 1
        msg = _prod_case(fname, form, axis, bits)
        if msg:
            kind = "mixed-counts-accepted" if "no single result unit" in msg else "wrong-result"
            note(f"prod-where:{fname}:{form}:axis={axis}:{kind}", f"np.{fname} ({form}) axis={axis} where=mask {bits:06b}: {msg}",
                 {"part": "prod", "fname": fname, "form": form, "axis": axis, "bits": bits})
        elif len(samples) < 3 and evals % 97 == 0:
            samples.append({"function": fname, "axis": axis, "mask": f"{bits:06b}"})
    for fname, regkey, gridunit, how in itertools.product(("trapz", "trapezoid"), ("default", "auto"), GRIDS, ("x", "dx")):
        evals += 1
        msg = _trapz_case(fname, regkey, gridunit, how)
        if msg:
            note(f"trapz-grid:{regkey}:{gridunit}:{how}", f"np.{fname}(y [J/K], {how}=<{gridunit} grid>) in the {regkey} registry: {msg}",
                 {"part": "trapz", "fname": fname, "regkey": regkey, "gridunit": gridunit, "how": how})
        elif len(samples) < 5:
            samples.append({"function": fname, "registry": regkey, "grid": gridunit, "given_as": how})
    return {"name": NAME, "bound": "prod/nanprod (function and method) x axis in {None,0,1} x all 64 masks of a 2x3 array x {m, cm}; "
            "trapz/trapezoid x {default, autoconvert} registry x grid units {degC, degF, kelvin, delta_degC} x {x=, dx=}; exhaustive",
            "evaluations": evals, "distinct_nontrivial": evals, "rule": "every case is a reduction whose unit depends on element counts or on an offset grid",
            "exhaustive": True, "violations": viols[:25], "violation_count": sum(v["count"] for v in viols), "samples": samples}


def replay(data):
    if data["part"] == "prod":
        return _prod_case(data["fname"], data["form"], data["axis"], data["bits"]) is None
    return _trapz_case(data["fname"], data["regkey"], data["gridunit"], data["how"]) is None


if __name__ == "__main__":
    print(json.dumps(run(), indent=1, default=str))
