"""Independent reference implementations of the spec functions Dim / Factor / RootU over the
*definition table* of a registry (exact Fraction arithmetic).  They do not call any of the
registry's own resolution, recursion or cache code -- only read `_units`, `_prefixes`,
`_dimensions` (definition objects as produced by the definition parser)."""
from __future__ import annotations

from fractions import Fraction


def F(x):
    if isinstance(x, Fraction):
        return x
    if isinstance(x, int):
        return Fraction(x)
    if isinstance(x, float):
        return Fraction(repr(x))
    return Fraction(str(x))


class Ref:
    def __init__(self, ureg, declared_units=None):
        self.ureg = ureg
        # snapshot of the declared tables (lazy prefixed entries added later are ignored)
        self.units = dict(ureg._units.maps[-1]) if hasattr(ureg._units, "maps") else dict(ureg._units)
        if declared_units is not None:
            self.units = {k: v for k, v in self.units.items() if k in declared_units}
        self.prefixes = dict(ureg._prefixes)
        self.dimensions = dict(ureg._dimensions)

    # ---- name resolution (exact, else prefix + unit [+ 's'])
    def resolve(self, name):
        """-> (prefix_value: Fraction, unit definition) or None"""
        if name in self.units:
            return Fraction(1), self.units[name]
        for suffix in ("", "s"):
            if suffix and not name.endswith(suffix):
                continue
            stem = name[: len(name) - len(suffix)] if suffix else name
            for p, pdef in self.prefixes.items():
                if p and stem.startswith(p):
                    u = stem[len(p):]
                    if u in self.units and not (suffix and len(u) == 1):
                        return F(pdef.value), self.units[u]
            if suffix and stem in self.units and len(stem) > 1:
                return Fraction(1), self.units[stem]
        return None

    # ---- dimensionality
    def dim_of_dimension(self, dname, acc, exp):
        d = self.dimensions[dname]
        ref = getattr(d, "reference", None)
        if ref is None or d.is_base:
            acc[dname] = acc.get(dname, Fraction(0)) + exp
        else:
            for k, v in ref.items():
                self.dim_of_dimension(k, acc, exp * F(v))

    def dim(self, uc):
        acc = {}
        self._dim(uc, Fraction(1), acc)
        return {k: v for k, v in acc.items() if v != 0 and k != "[]"}

    def _dim(self, uc, exp, acc):
        for k, v in dict(uc).items():
            e = exp * F(v)
            if k.startswith("[") and k.endswith("]"):
                self.dim_of_dimension(k, acc, e)
                continue
            r = self.resolve(k)
            if r is None:
                raise KeyError(k)
            _, udef = r
            if udef.reference is not None:
                self._dim(udef.reference, e, acc)

    # ---- factor to root units and root-unit exponents
    def root(self, uc):
        """-> (factor: Fraction, {root unit name: exponent}) for multiplicative, rationally scaled units"""
        acc = {}
        f = self._root(uc, Fraction(1), acc)
        return f, {k: v for k, v in acc.items() if v != 0}

    def _root(self, uc, exp, acc):
        f = Fraction(1)
        for k, v in dict(uc).items():
            e = exp * F(v)
            r = self.resolve(k)
            if r is None:
                raise KeyError(k)
            pval, udef = r
            f *= _pow(pval, e)
            if udef.is_base:
                acc[udef.name] = acc.get(udef.name, Fraction(0)) + e
            else:
                f *= _pow(F(udef.converter.scale), e)
                if udef.reference is not None:
                    f *= self._root(udef.reference, e, acc)
        return f

    def factor(self, uc):
        return self.root(uc)[0]


def _pow(base, e):
    if e.denominator == 1:
        return base ** int(e)
    if base == 1:
        return base
    raise ValueError("non-integer exponent of a scale: not exactly representable")
