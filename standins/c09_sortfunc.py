"""Bounded stand-in (C09): formatting with the bundled dimensional sort function (formatter.default_sort_func =
sort_by_dimensionality) never fails on a valid unit, renders the same factors as the default sort, and orders them by
the formatter's dim_order.  All canonical units alone and combined with dimensionless / dimensional partners."""
from __future__ import annotations

import itertools
import json

NAME = "c09_sortfunc"
SPECS = ["D", "P", "C", "~D", "~P", "~C", "H", "L"]
PARTNERS = ["radian", "steradian", "count", "bit", "percent", "meter", "second", "kilogram", "kelvin", "mole", "ampere", "candela"]
_REG = {}


def _regs():
    import pint
    from pint.delegates.formatter._compound_unit_helpers import sort_by_dimensionality

    if not _REG:
        a, b = pint.UnitRegistry(), pint.UnitRegistry()
        b.formatter.default_sort_func = sort_by_dimensionality
        _REG["plain"], _REG["dim"] = a, b
    return _REG["plain"], _REG["dim"]


def _one(units, spec):
    """units: list of (name, exponent)"""
    plain, dim = _regs()
    uc = dict(units)
    try:
        ref = format(plain.Unit(plain.UnitsContainer(uc)), spec)
    except Exception:  # noqa: BLE001
        return "skip", None  # the default sort cannot render it either: not this stand-in's concern
    recognised = True
    order = dim.formatter.dim_order
    for n in uc:
        dims = dim.get_dimensionality(n) or {"[]": None}
        if not any(d in order for d in dims):
            recognised = False
    try:
        got = format(dim.Unit(dim.UnitsContainer(uc)), spec)
    except Exception as e:  # noqa: BLE001
        kind = "unrecognised-dimension" if not recognised else "recognised-dimensions"
        return kind, f"format(unit, {spec!r}) raised {type(e).__name__}: {str(e)[:90]} (default sort renders {ref!r})"
    if sorted(got.replace(" ", "")) != sorted(ref.replace(" ", "")) and spec in ("D", "C", "~D", "~C"):
        try:
            if dim.parse_units(got) != dim.parse_units(ref):
                return "different-factors", f"renders {got!r}, default sort renders {ref!r}: not the same unit"
        except Exception:  # noqa: BLE001
            pass
    return "ok", None


def _cases(tier):
    plain, _ = _regs()
    canon = sorted({plain.get_name(n) for n in plain._units if not n.startswith("delta_")})
    for n in canon:
        yield [(n, 1)]
    pool = canon if tier == "thorough" else canon[::7]
    for n, p in itertools.product(pool, PARTNERS):
        if n != p:
            yield [(n, 1), (p, 1)]
            yield [(p, 2), (n, -1)]
    for a, b, c in itertools.combinations(PARTNERS, 3):
        yield [(a, 1), (b, -1), (c, 2)]


def run(tier="quick", seed=0, **kw):
    evals, viols, seen, samples = 0, [], {}, []
    for units in _cases(tier):
        for spec in SPECS if tier == "thorough" else SPECS[:4] + SPECS[6:]:
            kind, msg = _one(units, spec)
            if kind == "skip":
                continue
            evals += 1
            if msg:
                case = f"sortdim:{kind}:{spec}" if kind != "unrecognised-dimension" else f"sortdim:{kind}"
                if case in seen:
                    seen[case]["count"] += 1
                    continue
                v = {"case": case, "count": 1, "what": f"default_sort_func = sort_by_dimensionality, unit {dict(units)}: {msg}",
                     "units": [list(x) for x in units], "spec": spec}
                seen[case] = v
                viols.append(v)
            elif len(samples) < 4 and evals % 991 == 0:
                samples.append({"unit": dict(units), "spec": spec})
    return {"name": NAME, "bound": "every canonical unit alone, (every 7th in quick / every in thorough) canonical unit x 12 partners in two "
            "shapes, all partner triples; x 6 (quick) / 8 (thorough) format specs; exhaustive",
            "evaluations": evals, "distinct_nontrivial": evals, "rule": "each case is formatted with the dimensional sort and compared with the default sort",
            "exhaustive": True, "violations": viols[:25], "violation_count": sum(v["count"] for v in viols), "samples": samples}


def replay(data):
    kind, msg = _one([tuple(x) for x in data["units"]], data["spec"])
    return msg is None


if __name__ == "__main__":
    print(json.dumps(run(), indent=1, default=str))
