"""Bounded stand-in (C14): the contracts of contracts/c14_groups.py evaluated by the run-time monitor on REAL objects.

Two purposes.  (1) Vacuity: the registry-wide precondition `groups_wf` (and `group_ok`, registration under the own name) is a
conjunction of nested quantified facts for which the solvers find no model within the budget of the cover checks; here it is
evaluated on every group and system of the default registry - it holds there, so the verified contracts speak about real
states.  (2) The same postconditions (memo of the edited object, of its users and of every system dropped; sets updated) are
checked on real calls with every memo warmed first.  Clauses the monitor cannot evaluate (quantifiers over all objects of a
class) are skipped and counted."""
from __future__ import annotations

NAME = "c14_monitor"


def _warm(ureg):
    for g in ureg._groups.values():
        g.members
    for s in ureg._systems.values():
        s.members


def run(tier: str = "quick", seed: int = 0, **kw) -> dict:
    import contracts.props  # noqa: F401
    import pint
    from pv import decl, monitor

    ureg = pint.UnitRegistry()
    viol, n, skipped, samples = [], 0, set(), []
    gnames = sorted(ureg._groups)
    G = "pint.facets.group.objects:Group."
    S = "pint.facets.system.objects:System."
    jobs = []
    for gn in gnames:
        other = next((o for o in sorted(ureg._groups) if o not in (gn, "root") and not ureg._groups[o].is_used_group(gn)
                      and o not in ureg._groups[gn]._used_groups), None)
        jobs += [(G + "invalidate_members", "_groups", gn, {}),
                 (G + "add_units", "_groups", gn, {"unit_names": ("c14_probe_a", "c14_probe_b", "c14_probe_a")}),
                 (G + "remove_units", "_groups", gn, {"unit_names": ("c14_probe_a", "c14_probe_b")}),
                 ] + ([(G + "add_groups", "_groups", gn, {"group_names": (other,)}),
                       (G + "remove_groups", "_groups", gn, {"group_names": (other,)})] if other else [])
    for sn in sorted(ureg._systems):
        jobs += [(S + "invalidate_members", "_systems", sn, {}),
                 (S + "add_groups", "_systems", sn, {"group_names": ("Avoirdupois", "c14_no_such_group")}),
                 (S + "remove_groups", "_systems", sn, {"group_names": ("Avoirdupois", "c14_no_such_group")})]
    for key, table, name, extra in jobs:
        _warm(ureg)
        obj = getattr(ureg, table)[name]
        c = decl.CONTRACTS[key]
        # the string universe of the monitor's quantifiers: every group, system and unit name of the registry
        uni = [tuple(ureg._groups), tuple(ureg._systems), tuple(sorted(ureg._groups["root"].members)[:40]),
               ("c14_probe_a", "c14_probe_b", "c14_no_such_group")]
        r = monitor.check_call(c, {"self": obj, **extra}, universe_extra=uni)
        n += 1
        case = f"{key.split(':')[1]}:{name}"
        for u in r.get("detail", {}).get("unsupported", []) if isinstance(r.get("detail"), dict) else []:
            skipped.add(u.split(":")[0])
        if r["outcome"] == "precondition-false":
            viol.append({"case": "precondition:" + case, "what": f"the contract's precondition `{r['detail']}` is false on the default registry"})
        elif r["failed"]:
            viol.append({"case": case, "what": f"{r['outcome']}; failed clauses: {r['failed']}; {str(r['detail'])[:200]}"})
        elif len(samples) < 4:
            samples.append(case)
    return {"name": NAME,
            "bound": f"{len(gnames)} groups x 5 edit operations + systems x 3 operations of the default registry, all memos warmed before each call; "
                     f"clauses skipped by the monitor: {sorted(skipped)}",
            "evaluations": n, "distinct_nontrivial": n, "rule": "one real call per (operation, object); non-trivial = memos set before the call",
            "exhaustive": True, "violations": viol[:25], "violation_count": len(viol), "samples": samples}


def replay(data: dict) -> bool:
    r = run("thorough")
    return all(v["case"] != data.get("case") for v in r["violations"])
