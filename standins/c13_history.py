"""Bounded stand-in for C13 -- "Answers do not depend on query history: caches are transparent".

A registry is taken through a sequence of the 12 operations of `OPS` (8 kinds of queries: conversions,
parse_units, parse_expression, root units + dimensionality, base units, compatible units, formatting,
prefixed-unit look-ups; 4 state changes: enter/leave a context with a rule and a redefinition,
default_system = 'cgs', default_system = None, define a NEW unit); then all contexts are left and a fixed
battery of 47 read-only questions is asked.  Every answer must equal the answer of a FRESH registry brought
to the same declarative state (same default system, same added definitions, no contexts) -- the reference
never sees the history.

Sequences: thorough = all 22620 sequences of length 1..4 over the 12 operations plus 1500 seeded samples of
length 5..8; quick = all of length <= 2 plus 300 seeded samples of lengths 3..6.  To keep registry
construction (0.2-0.3 s) off the critical path the sequences of a job are run back-to-back on one registry
(each sequence starts by leaving all contexts and setting default_system = 'mks', so what a sequence sees is
an even longer history); units defined by earlier sequences are projected out of the answers; the registry is
replaced after 60 sequences, and after a disagreement unless it answers like a fresh registry again once it is
back in the neutral state (see `_seq_job`).  Disagreements are grouped into cases: `default-system-none`,
`double-prefix:<name>`, otherwise `history:<minimal operation sequence>` (minimised on brand-new registries).
The cases that are listed are re-run alone on a brand-new registry (`reproduces_on_fresh_registry`).

Part 2: two registries A (default) and B (system='cgs', the same new unit names meaning other things) are
used alternately, B possibly created in the middle, the batteries asked alternately too: every answer must be
the one the same registry gives when it is the only registry in use (control runs) -- process-wide
lru_caches: ParserHelper.from_string, pattern_to_regex, _split_format.
"""
from __future__ import annotations

import itertools
import json
import multiprocessing as mp
import random
import re
import sys
import time

NAME = "c13_history"
MAXV = 25
FTOL = 1e-12

OPS = ["conv", "punits", "pexpr", "rootdim", "base", "compat", "fmt", "ctx", "cgs", "nosys", "define", "prefixed"]
NOPS = len(OPS)


# ------------------------------------------------------------------------------------------------------
# canonical form of answers
# ------------------------------------------------------------------------------------------------------
def _canon(x):
    import pint

    if isinstance(x, BaseException):
        return ("EXC", type(x).__name__)
    if isinstance(x, bool) or x is None or isinstance(x, (int, str)):
        return x
    if isinstance(x, float):
        return x
    if hasattr(x, "_magnitude") and hasattr(x, "_units"):
        return ("Q", _canon(x._magnitude), _canon(x._units))
    if hasattr(x, "_units") and hasattr(x, "_REGISTRY"):
        return ("U", _canon(x._units))
    if isinstance(x, pint.util.UnitsContainer):
        return ("UC", tuple(sorted((k, float(v)) for k, v in x.items())))
    if isinstance(x, (set, frozenset)):
        return ("SET", tuple(sorted((_canon(e) for e in x), key=repr)))
    if isinstance(x, (tuple, list)):
        return tuple(_canon(e) for e in x)
    if isinstance(x, dict):
        return ("D", tuple(sorted((str(k), _canon(v)) for k, v in x.items())))
    try:
        return float(x)
    except Exception:
        return repr(x)


def _isnum(x):
    return isinstance(x, (int, float)) and not isinstance(x, bool)


def _same(a, b):
    if _isnum(a) and _isnum(b):
        a, b = float(a), float(b)
        return a == b or abs(a - b) <= FTOL * max(abs(a), abs(b)) or (a != a and b != b)
    if isinstance(a, tuple) and isinstance(b, tuple):
        return len(a) == len(b) and all(_same(x, y) for x, y in zip(a, b))
    return type(a) is type(b) and a == b


_OLDUNIT = re.compile(r"c13u\d+[ab]")


def _project(x, names):
    """Replace the current sequence's new-unit names by tokens; drop set members / strings that only
    mention units defined by EARLIER sequences run on the same registry (not part of this declarative state)."""
    if isinstance(x, str):
        for i, n in enumerate(names):
            x = x.replace(n, f"<NU{i + 1}>")
        return x
    if isinstance(x, tuple):
        if len(x) == 2 and x[0] == "SET":
            items = [_project(e, names) for e in x[1]]
            items = [e for e in items if not _OLDUNIT.search(repr(e))]
            return ("SET", tuple(sorted(items, key=repr)))
        return tuple(_project(e, names) for e in x)
    return x


# ------------------------------------------------------------------------------------------------------
# the battery
# ------------------------------------------------------------------------------------------------------
def _battery():
    B = []

    def q(qid, f, group="other"):
        B.append((qid, f, group))

    def conv(v, a, b):
        return lambda u, n: u.Quantity(v, a).to(b).magnitude

    q("1 mile->kilometer", conv(1, "mile", "kilometer"))
    q("2.5 pound->gram", conv(2.5, "pound", "gram"))
    q("3 inch->centimeter", conv(3, "inch", "centimeter"))
    q("1 kilowatt_hour->joule", conv(1, "kilowatt_hour", "joule"))
    q("100 degC->kelvin", conv(100, "degC", "kelvin"))
    q("1 millisecond->microsecond", conv(1, "millisecond", "microsecond"))
    q("1 foot->meter", conv(1, "foot", "meter"))
    q("5 meter->second", conv(5, "meter", "second"))
    q("convert nautical_mile->yard", lambda u, n: u.convert(1, "nautical_mile", "yard"))
    q("parse_units kilometer/hour", lambda u, n: u.parse_units("kilometer/hour"))
    q("parse_units kg*m/s**2", lambda u, n: u.parse_units("kg*m/s**2"))
    for name in ("kilomillifoot", "microkiloinch", "millimillimeter"):
        q(f"parse_units {name}", (lambda name: lambda u, n: u.parse_units(name))(name), "double-prefix:" + name)
        q(f"contains {name}", (lambda name: lambda u, n: name in u)(name), "double-prefix:" + name)
    q("parse_units kilopascal", lambda u, n: u.parse_units("kilopascal"))
    q("parse_expression 3 newton*meter", lambda u, n: u.parse_expression("3 newton*meter"))
    q("parse_expression 4 foot + 2 inch", lambda u, n: u.parse_expression("4 foot + 2 inch"))
    q("contains kilometer/kilofoo", lambda u, n: ("kilometer" in u, "kilofoo" in u))
    q("get_root_units mile/hour", lambda u, n: u.get_root_units("mile/hour"))
    q("get_root_units pound", lambda u, n: u.get_root_units("pound"))
    q("get_base_units mile/hour", lambda u, n: u.get_base_units("mile/hour"), "base")
    q("get_base_units pound", lambda u, n: u.get_base_units("pound"), "base")
    q("get_base_units newton", lambda u, n: u.get_base_units("newton"), "base")
    q("get_base_units dyne", lambda u, n: u.get_base_units("dyne"), "base")
    q("1 mile to_base_units", lambda u, n: u.Quantity(1, "mile").to_base_units(), "base")
    q("3 newton to_root_units", lambda u, n: u.Quantity(3, "newton").to_root_units())
    q("get_dimensionality newton", lambda u, n: u.get_dimensionality("newton"))
    q("volt dimensionality", lambda u, n: u.Quantity(1, "volt").dimensionality)
    q("Unit(mile/hour).dimensionality", lambda u, n: u.Unit("mile/hour").dimensionality)
    q("get_compatible_units meter", lambda u, n: u.get_compatible_units("meter"))
    q("get_compatible_units joule", lambda u, n: u.get_compatible_units("joule"))
    q("get_compatible_units meter imperial", lambda u, n: u.get_compatible_units("meter", "imperial"))
    q("is_compatible_with", lambda u, n: (u.Quantity(1, "meter").is_compatible_with("inch"), u.Quantity(1, "meter").is_compatible_with("second")))
    q("format ~P", lambda u, n: f"{u.Quantity(1.5, 'mile/hour'):~P}")
    q("format .2f~L", lambda u, n: f"{u.Quantity(2, 'newton*meter'):.2f~L}")
    q("format D", lambda u, n: f"{u.Quantity(3, 'foot**2'):D}")
    q("format unit ~C", lambda u, n: (str(u.Unit("kilogram*meter/second**2")), f"{u.Unit('kilogram*meter/second**2'):~C}"))
    q("format ~H / to_compact", lambda u, n: (f"{u.Quantity(1234.5, 'meter'):~H}", str(u.Quantity(12345, "meter").to_compact())))
    q("get_name/get_symbol", lambda u, n: (u.get_name("km"), u.get_symbol("kilometer")))
    # the units a `define` operation of this sequence added (UndefinedUnitError in both registries if none)
    q("NU1->meter", lambda u, n: u.Quantity(1, n[0]).to("meter").magnitude, "newunit")
    q("NU1 dimensionality/base", lambda u, n: (u.get_dimensionality(n[0]), u.get_base_units(n[0])), "newunit")
    q("kilo-NU1", lambda u, n: (u.parse_units("kilo" + n[0]), u.Quantity(2, "kilo" + n[0]).to("foot").magnitude), "newunit")
    q("format NU1", lambda u, n: f"{u.Quantity(2, n[0]) * u.Quantity(3, 'second'):P}", "newunit")
    q("NU2->mile/hour", lambda u, n: u.Quantity(1, n[1]).to("mile/hour").magnitude, "newunit")
    return B


# NB the battery itself never looks up millifoot, kiloinch or millimeter: looking a prefixed unit up registers it
# (lazily), and the double-prefix questions are about exactly those; only operation `prefixed` looks them up.
BATTERY = _battery()
QIDS = [b[0] for b in BATTERY]
QGROUP = {b[0]: b[2] for b in BATTERY}


def ask(u, names):
    """names: [NU1 name, NU2 name] (always two names; they may be undefined)."""
    out = {}
    for (qid, f, _g) in BATTERY:
        try:
            r = f(u, names)
        except Exception as exc:
            r = exc
        out[qid] = _project(_canon(r), names)
    return out


# ------------------------------------------------------------------------------------------------------
# registries, operations
# ------------------------------------------------------------------------------------------------------
def _new_registry(variant="A"):
    import pint
    from pint import Context

    u = pint.UnitRegistry() if variant == "A" else pint.UnitRegistry(system="cgs")
    c = Context("c13ctx", aliases=("c13c",))
    c.redefine("yard = 1 meter")
    c.add_transformation("[length]", "[time]", lambda ureg, x, **kw: ureg.Quantity(x.to("meter").magnitude * 2.0, "second"))
    u.add_context(c)
    return u


def _defs(names, variant):
    """Definition strings of the new units of a sequence (declarative state)."""
    if variant == "A":
        return [f"{names[0]} = 7 * foot", f"{names[1]} = 3 * {names[0]} / second"]
    return [f"{names[0]} = 2 * inch", f"{names[1]} = 5 * {names[0]} / second"]


class Subject:
    """A registry under test together with what the reference needs to know: its declarative state."""

    def __init__(self, variant="A"):
        self.variant = variant
        self.u = _new_registry(variant)
        self.serial = 0
        self.nseq = 0
        self.history = []
        self.begin()

    def begin(self, reset=False):
        """Start of a sequence: neutral declarative state."""
        self.serial += 1
        self.names = [f"c13u{self.serial}a", f"c13u{self.serial}b"]
        self.ndefs = 0
        self.in_ctx = False
        self.system = "mks" if self.variant == "A" else "cgs"
        if reset:
            self.u.disable_contexts()
            self.u.default_system = self.system
        self.cur = []
        self.history.append(self.cur)

    def quiet(self, f):
        try:
            f()
        except Exception:
            pass

    def apply(self, op):
        u = self.u
        Q = u.Quantity
        z = self.quiet
        self.cur.append(op)
        if op == "conv":
            for (v, a, b) in ((1, "mile", "kilometer"), (2.5, "pound", "gram"), (3, "inch", "centimeter"), (100, "degC", "kelvin"),
                              (1, "foot", "meter"), (5, "meter", "second"), (2, "yard", "inch"), (1, "mile/hour", "meter/second")):
                z(lambda: Q(v, a).to(b))
            z(lambda: u.convert(1, "nautical_mile", "yard"))
        elif op == "punits":
            for s in ("kilometer/hour", "kg*m/s**2", "newton*meter", "foot**2", "mile/hour", "kilomillifoot", "yard", self.names[0]):
                z(lambda: u.parse_units(s))
        elif op == "pexpr":
            for s in ("3 newton*meter", "4 foot + 2 inch", "2.5 mile/hour", "1e3 joule/second", "2 " + self.names[0]):
                z(lambda: u.parse_expression(s))
        elif op == "rootdim":
            for s in ("mile/hour", "pound", "newton", "yard", "foot", self.names[0]):
                z(lambda: u.get_root_units(s))
                z(lambda: u.get_dimensionality(s))
            z(lambda: Q(3, "newton").to_root_units())
            z(lambda: Q(1, "volt").dimensionality)
            z(lambda: u.Unit("mile/hour").dimensionality)
        elif op == "base":
            for s in ("mile/hour", "pound", "newton", "dyne", "yard", self.names[0]):
                z(lambda: u.get_base_units(s))
            z(lambda: Q(1, "mile").to_base_units())
        elif op == "compat":
            for s in ("meter", "joule", "second"):
                z(lambda: u.get_compatible_units(s))
            z(lambda: u.get_compatible_units("meter", "imperial"))
            z(lambda: Q(1, "meter").is_compatible_with("second"))
        elif op == "fmt":
            z(lambda: f"{Q(1.5, 'mile/hour'):~P}")
            z(lambda: f"{Q(2, 'newton*meter'):.2f~L}")
            z(lambda: f"{Q(3, 'foot**2'):D}")
            z(lambda: str(u.Unit("kilogram*meter/second**2")))
            z(lambda: f"{Q(1234.5, 'meter'):~H}")
            z(lambda: str(Q(12345, "meter").to_compact()))
            z(lambda: f"{Q(2, self.names[0]):P}")
        elif op == "ctx":
            if self.in_ctx:
                u.disable_contexts()
            else:
                u.enable_contexts("c13ctx")
            self.in_ctx = not self.in_ctx
        elif op == "cgs":
            u.default_system = "cgs"
            self.system = "cgs"
        elif op == "nosys":
            u.default_system = None
            self.system = None
        elif op == "define":
            if self.ndefs < 2:
                u.define(_defs(self.names, self.variant)[self.ndefs])
                self.ndefs += 1
        elif op == "prefixed":
            z(lambda: u.millifoot)
            z(lambda: u.parse_units("kiloinch"))
            z(lambda: "microsecond" in u)
            z(lambda: Q(1, "kilopound"))
            z(lambda: Q(1, "µs").to("ns"))
            z(lambda: u.parse_units("millimeter"))
            z(lambda: u.parse_units("milli" + self.names[0]))
            # the very spellings the battery asks later (a lookup that fails before `define` must succeed after it)
            z(lambda: u.parse_units("kilo" + self.names[0]))
            z(lambda: u.parse_unit_name("kilo" + self.names[0]))
            z(lambda: ("kilo" + self.names[0]) in u)
        else:
            raise ValueError(op)

    def finish(self):
        """Leave all contexts (the battery is asked with no context active) and ask."""
        if self.in_ctx:
            self.u.disable_contexts()
            self.in_ctx = False
        self.nseq += 1
        return ask(self.u, self.names)

    def state(self):
        return (self.variant, self.system, self.ndefs)


_REF = {}


def reference(state):
    """Answers of a fresh registry brought to the declarative state (variant, default system, #definitions)."""
    if state not in _REF:
        variant, system, ndefs = state
        u = _new_registry(variant)
        names = ["c13u0a", "c13u0b"]
        if system != ("mks" if variant == "A" else "cgs"):
            u.default_system = system
        for d in _defs(names, variant)[:ndefs]:
            u.define(d)
        _REF[state] = ask(u, names)
    return _REF[state]


ALL_STATES = [("A", sy, n) for sy in ("mks", "cgs", None) for n in (0, 1, 2)] + [("B", sy, n) for sy in ("cgs", None) for n in (0, 1, 2)]


def _reference_job(state):
    return state, reference(state)


def _precompute_references(workers):
    """The 15 fresh-registry references are computed once (in parallel) and inherited by the forked workers."""
    todo = [st for st in ALL_STATES if st not in _REF]
    if not todo:
        return
    if workers > 1:
        with mp.get_context("fork").Pool(min(workers, len(todo))) as pool:
            for st, ans in pool.map(_reference_job, todo, chunksize=1):
                _REF[st] = ans
    else:
        for st in todo:
            reference(st)


def _diff(ans, ref):
    return [q for q in QIDS if not _same(ans[q], ref[q])]


def _case_id(qid, state, ops):
    g = QGROUP[qid]
    if g.startswith("double-prefix:"):
        return g
    if g == "base" and state[1] is None:
        return "default-system-none"
    return None  # needs a minimised sequence: decided by the parent


# ------------------------------------------------------------------------------------------------------
# part 1 jobs
# ------------------------------------------------------------------------------------------------------
def run_alone(ops, variant="A"):
    """One sequence on a brand-new registry.  -> (list of differing question ids, state, answers, reference)"""
    s = Subject(variant)
    for op in ops:
        s.apply(op)
    ans = s.finish()
    ref = reference(s.state())
    return _diff(ans, ref), s.state(), ans, ref


_DEADLINE = [None]


def _seq_job(seqs):
    """Run sequences back-to-back.  -> (evaluations, nontrivial, raw violations [(ops, qid, state, first_on_registry, obs, exp)], planned)

    Registry reuse.  After a sequence that showed a disagreement the registry is put back into the neutral
    declarative state and the battery is asked: if it answers like a fresh registry it is used further.  If not, it
    is replaced -- except that operation `prefixed` is irreversible by nature (prefixed names stay registered): the
    sequences containing it are run last, and a registry whose only deviation is in the double-prefix questions
    keeps being used for them (each of them performs the same look-ups itself)."""
    order = sorted(range(len(seqs)), key=lambda i: ("prefixed" in seqs[i], i))
    subj = Subject("A")
    first = True
    out = []
    nontriv = 0
    done = 0
    neutral = ("A", "mks", 0)
    for pos, idx in enumerate(order):
        ops = seqs[idx]
        if _DEADLINE[0] is not None and time.time() > _DEADLINE[0]:
            break
        if not first:
            subj.begin(reset=True)
        for op in ops:
            subj.apply(op)
        ans = subj.finish()
        st = subj.state()
        bad = _diff(ans, reference(st))
        done += 1
        if len(set(ops) & {"ctx", "cgs", "nosys", "define", "prefixed"}) >= 1 and len(ops) >= 2:
            nontriv += 1
        replace = subj.nseq >= 60
        if bad:
            ref = reference(st)
            for qid in bad:
                out.append((list(ops), qid, list(st), first, repr(ans[qid])[:200], repr(ref[qid])[:200]))
            if not replace:
                subj.begin(reset=True)
                dirty = _diff(ask(subj.u, subj.names), reference(neutral))
                if dirty:
                    nxt = seqs[order[pos + 1]] if pos + 1 < len(order) else ()
                    tolerated = "prefixed" in nxt and all(QGROUP[q].startswith("double-prefix") for q in dirty)
                    replace = not tolerated
        if replace:
            subj = Subject("A")
            first = True
        else:
            first = False
    return done, nontriv, out, len(seqs)


def _sequences(tier, seed):
    seqs = []
    if tier == "quick":
        for k in (1, 2):
            seqs.extend(itertools.product(OPS, repeat=k))
        rnd = random.Random(f"c13-{seed}")
        for _ in range(300):
            k = rnd.randint(3, 6)
            seqs.append(tuple(rnd.choice(OPS) for _ in range(k)))
        exhaustive_to = 2
    else:
        for k in (1, 2, 3, 4):
            seqs.extend(itertools.product(OPS, repeat=k))
        rnd = random.Random(f"c13-{seed}")
        for _ in range(1500):
            k = rnd.randint(5, 8)
            seqs.append(tuple(rnd.choice(OPS) for _ in range(k)))
        exhaustive_to = 4
    return seqs, exhaustive_to


# ------------------------------------------------------------------------------------------------------
# part 2: two registries interleaved
# ------------------------------------------------------------------------------------------------------
_SOLO = {}


def _solo(ops, variant):
    """Control run: the registry alone, same operations, the battery asked twice (memoised per process)."""
    key = (tuple(ops), variant)
    if key not in _SOLO:
        _SOLO[key] = _solo_run(ops, variant)
    return _SOLO[key]


def _solo_run(ops, variant):
    x = Subject(variant)
    for op in ops:
        x.apply(op)
    first = x.finish()
    return first, ask(x.u, x.names)


def run_pair(ops_a, ops_b, create_b_at):
    """A and B used alternately (a1 b1 a2 b2 ...); B is created before A's step number `create_b_at`; then the
    batteries are asked alternately too (A, B, A, B).  Every answer must be the one the same registry gives when
    it is the only registry used (control runs): using B never changes A's answers and vice versa.
    -> list of (registry, qid, observed, expected)"""
    a = Subject("A")
    b = None
    n = max(len(ops_a), len(ops_b))
    pending_b = list(ops_b)
    for i in range(n):
        if b is None and i >= create_b_at:
            b = Subject("B")
        if i < len(ops_a):
            a.apply(ops_a[i])
        if b is not None and pending_b:
            b.apply(pending_b.pop(0))
    if b is None:
        b = Subject("B")
    for op in pending_b:
        b.apply(op)
    ans_a = a.finish()
    ans_b = b.finish()
    ans_a2 = ask(a.u, a.names)
    ans_b2 = ask(b.u, b.names)
    ca, ca2 = _solo(ops_a, "A")
    cb, cb2 = _solo(ops_b, "B")
    bad = []
    for who, got, want in (("A", ans_a, ca), ("B", ans_b, cb), ("A-2nd-battery", ans_a2, ca2), ("B-2nd-battery", ans_b2, cb2)):
        for q in _diff(got, want):
            bad.append((who, q, repr(got[q])[:160], repr(want[q])[:160]))
    return bad


def _pair_job(pairs):
    out = []
    for (oa, ob, cb) in pairs:
        for (who, q, obs, exp) in run_pair(oa, ob, cb):
            out.append((list(oa), list(ob), cb, who, q, obs, exp))
    return len(pairs), out


def _pairs(tier, seed):
    rnd = random.Random(f"c13-pairs-{seed}")
    pairs = []
    if tier != "quick":
        for a in OPS:
            for b in OPS:
                pairs.append(((a,), (b,), 0))
    nrand = 24 if tier == "quick" else 300
    for _ in range(nrand):
        ka, kb = rnd.randint(1, 3), rnd.randint(1, 3)
        pairs.append((tuple(rnd.choice(OPS) for _ in range(ka)), tuple(rnd.choice(OPS) for _ in range(kb)), rnd.randint(0, ka)))
    return pairs


# ------------------------------------------------------------------------------------------------------
_ALONE = {}


def _alone_diffs(ops):
    key = tuple(ops)
    if key not in _ALONE:
        _ALONE[key] = set(run_alone(key)[0])
    return _ALONE[key]


def _is_subsequence(m, ops):
    it = iter(ops)
    return all(x in it for x in m)


def _minimise(ops, qid, known=()):
    """Shortest subsequence (greedy removal of operations) after which question `qid` still disagrees on a
    brand-new registry; minimal sequences found earlier are tried first.  None if `ops` alone does not reproduce."""
    for m in known:
        if _is_subsequence(m, ops) and qid in _alone_diffs(m):
            return list(m)
    ops = list(ops)
    if qid not in _alone_diffs(ops):
        return None
    changed = True
    while changed and len(ops) > 1:
        changed = False
        for i in range(len(ops)):
            cand = ops[:i] + ops[i + 1:]
            if qid in _alone_diffs(cand):
                ops = cand
                changed = True
                break
    return ops


def _describe(m, qid):
    d, stm, ans, ref = run_alone(m)
    return (f"after {'-'.join(m)} (then leaving contexts): {qid}: observed {ans[qid]!r}, a fresh registry in state "
            f"system={stm[1]!r}, new units={stm[2]} gives {ref[qid]!r}")[:700]


def run(tier: str = "quick", seed: int = 0, **kw) -> dict:
    t0 = time.time()
    workers = int(kw.get("workers", 16))
    budget = float(kw.get("budget_s", 40 if tier == "quick" else 480))
    _DEADLINE[0] = t0 + budget  # inherited by the forked workers: sequences not started by then are dropped (and reported)
    _precompute_references(workers)
    seqs, exhaustive_to = _sequences(tier, seed)
    # interleave lengths over the jobs so that they take similar time; order inside a job is deterministic
    njobs = workers  # strided: every job gets the same mix of lengths, shortest first
    jobs = [seqs[i::njobs] for i in range(njobs)]
    jobs = [j for j in jobs if j]
    pairs = _pairs(tier, seed)
    pjobs = [pairs[i::workers * 2] for i in range(workers * 2)]
    pjobs = [j for j in pjobs if j]
    if workers > 1:
        with mp.get_context("fork").Pool(workers) as pool:
            r1 = pool.map_async(_seq_job, jobs, chunksize=1)
            r2 = pool.map_async(_pair_job, pjobs, chunksize=1)
            res1, res2 = r1.get(), r2.get()
    else:
        res1 = [_seq_job(j) for j in jobs]
        res2 = [_pair_job(j) for j in pjobs]
    t1 = time.time()
    evals = sum(r[0] for r in res1)
    planned = sum(r[3] for r in res1)
    complete = evals == planned
    _DEADLINE[0] = None
    nontriv = sum(r[1] for r in res1)
    raw = [v for r in res1 for v in r[2]]
    praw = [v for r in res2 for v in r[1]]
    pevals = sum(r[0] for r in res2)

    # ---- group the raw disagreements into cases
    cases = {}  # case id -> record
    occ = {}
    pending = {}  # qid -> list of raw (to be minimised)
    nseq_viol = len({tuple(v[0]) for v in raw})
    for (ops, qid, st, first, obs, exp) in raw:
        cid = _case_id(qid, tuple(st), ops)
        if cid is None:
            pending.setdefault(qid, []).append((ops, st, first, obs, exp))
            continue
        occ[cid] = occ.get(cid, 0) + 1
        rec = cases.get(cid)
        if rec is None or (len(ops), ops, qid) < (len(rec["ops"]), rec["ops"], rec["question"]):
            cases[cid] = {"case": cid, "what": f"after {'-'.join(ops)} (then leaving contexts): {qid}: observed {obs}, a fresh registry in state system={st[1]!r}, new units={st[2]} gives {exp}",
                          "part": "sequence", "ops": ops, "question": qid}
    # other disagreements: minimise the shortest few sequences per question on brand-new registries
    todo = []
    for qid in sorted(pending):
        items = sorted(pending[qid], key=lambda t: (len(t[0]), t[0]))
        occ_q = len(items)
        for (ops, st, first, obs, exp) in items[:2]:
            if len(todo) < 30:
                todo.append((ops, qid, obs, exp, occ_q))
    mins = []
    known = []
    for (ops, qid, obs, exp, occ_q) in sorted(todo, key=lambda t: (len(t[0]), t[0], t[1])):
        m = _minimise(ops, qid, known)
        if m is not None and tuple(m) not in known:
            known.append(tuple(m))
        mins.append(((ops, qid, obs, exp, occ_q), m))
    todo = [t for t, _ in mins]
    mins = [(m, _describe(m, t[1]) if m is not None and f"history:{'-'.join(m)}" not in cases and not any(
        mm is not None and mm == m for (_, mm) in mins[:i]) else None) for i, (t, m) in enumerate(mins)]
    for (ops, qid, obs, exp, occ_q), (m, what) in zip(todo, mins):
        if m is None:
            cid = f"history-dependent:{qid}:{'-'.join(ops)}"
            cases.setdefault(cid, {"case": cid, "what": f"{qid}: observed {obs}, expected {exp}; not reproduced by this sequence alone on a new registry (depends on earlier sequences run on the same registry)",
                                   "part": "sequence", "ops": ops, "question": qid, "alone": False})
            occ[cid] = occ.get(cid, 0) + 1
            continue
        cid = f"history:{'-'.join(m)}"  # one case per minimal sequence, listing every question it changes
        if cid not in cases:
            cases[cid] = {"case": cid, "what": what or _describe(m, qid), "part": "sequence", "ops": list(m), "questions": [qid]}
            occ[cid] = occ_q
        elif qid not in cases[cid]["questions"]:
            cases[cid]["questions"].append(qid)
            occ[cid] += occ_q
    for (oa, ob, cb, who, qid, obs, exp) in praw:
        cid = f"cross-registry:{who}:{qid}:{'-'.join(oa)}|{'-'.join(ob)}@{cb}"
        cases.setdefault(cid, {"case": cid, "what": f"registry {who}: {qid}: observed {obs}, expected {exp} (A ops {oa}, B ops {ob}, B created before A's step {cb})",
                               "part": "pair", "ops_a": oa, "ops_b": ob, "create_b_at": cb, "who": who, "question": qid})
        occ[cid] = occ.get(cid, 0) + 1
    for cid, d in cases.items():
        d["raw_disagreements_of_this_kind"] = occ.get(cid, 1)
    viol = sorted(cases.values(), key=lambda d: (d["case"].split(":")[0], len(d.get("ops", [])), d["case"]))
    kept = []
    per = {}
    for d in viol:
        k = d["case"].split(":")[0]
        if per.get(k, 0) < 9 and len(kept) < MAXV:
            kept.append(d)
            per[k] = per.get(k, 0) + 1
    if workers > 1 and kept:
        with mp.get_context("fork").Pool(min(workers, len(kept))) as pool:
            holds = pool.map(replay, kept, chunksize=1)
    else:
        holds = [replay(d) for d in kept]
    for d, h in zip(kept, holds):
        d["reproduces_on_fresh_registry"] = not h

    sample_ops = ["ctx", "base", "ctx", "nosys"]
    d, st, ans, ref = run_alone(sample_ops)
    samples = [
        {"sequence": sample_ops, "declarative_state": {"default_system": st[1], "new_units": st[2]},
         "question": "get_base_units mile/hour", "registry_with_history": repr(ans["get_base_units mile/hour"]), "fresh_registry": repr(ref["get_base_units mile/hour"])},
        {"sequence": ["define", "prefixed", "fmt"], "question": "kilo-NU1", "fresh_registry": repr(reference(("A", "mks", 1))["kilo-NU1"])},
        {"battery": QIDS},
    ]
    return {
        "name": NAME,
        "bound": (
            f"{len(seqs)} operation sequences over the 12 operations {OPS}: all of length 1..{exhaustive_to}"
            + (f" plus 300 seeded samples of length 3..6 (seed {seed})" if tier == "quick" else f" plus 1500 seeded samples of length 5..8 (seed {seed})")
            + f", each followed by a battery of {len(BATTERY)} read-only questions compared with a fresh registry in the same declarative state "
            f"(3 default systems x 0..2 new units); {pevals} interleavings of two registries (A default, B system='cgs' with the same new unit names meaning other things), "
            + ("" if tier == "quick" else "all 144 pairs of single operations plus ") + "seeded pairs of sequences of length 1..3, both batteries compared with their fresh references"
        ),
        "evaluations": evals + pevals,
        "distinct_nontrivial": nontriv,
        "rule": "sequence = tuple of operation names; non-trivial = length >= 2 and at least one state-changing operation (ctx, cgs, nosys, define, prefixed)",
        "exhaustive": tier != "quick" and complete,
        "exhaustive_note": (f"all sequences of length <= {exhaustive_to} are enumerated; longer ones and the two-registry pairs are seeded samples"
                            if complete else f"wall-clock budget of {budget:.0f} s exhausted: only {evals} of the {planned} planned sequences were run"),
        "violations": kept,
        "violation_count": len(cases),
        "sequences_with_a_disagreement": nseq_viol,
        "raw_disagreements": len(raw) + len(praw),
        "timing": {"sequences_and_pairs_s": round(t1 - t0, 2), "grouping_minimising_replay_s": round(time.time() - t1, 2)},
        "seconds": round(time.time() - t0, 2),
        "samples": samples,
    }


def replay(data: dict) -> bool:
    if data.get("part") == "pair":
        bad = run_pair(tuple(data["ops_a"]), tuple(data["ops_b"]), data["create_b_at"])
        return not bad
    diffs = run_alone(data["ops"])[0]
    qs = data.get("questions") or ([data["question"]] if data.get("question") else None)
    return not (set(qs) & set(diffs)) if qs else not diffs


if __name__ == "__main__":
    import argparse

    ap = argparse.ArgumentParser()
    ap.add_argument("--tier", default="quick")
    ap.add_argument("--seed", type=int, default=0)
    ap.add_argument("--replay", default=None)
    a = ap.parse_args()
    if a.replay:
        with open(a.replay) as fh:
            print(json.dumps({"holds": replay(json.load(fh))}))
        sys.exit(0)
    print(json.dumps(run(a.tier, a.seed), indent=1, default=str))
