"""Bounded stand-in (C10), added after seeded change C10-3 was missed (disk-cache key built from the root file only).

"Definition files mean what they say, independent of ... loading path": a registry loaded through a `cache_folder` must answer
like an uncached load of the files AS THEY ARE NOW - also after only an `@import`ed file (or a file imported by an imported
file) was edited between two loads that share the cache folder.  For every edit scenario the cached load is compared with an
uncached load on every defined unit: root factor, root units and dimensionality, and a cross-unit conversion."""
from __future__ import annotations

import itertools
import os
import shutil
import tempfile

NAME = "c10_importcache"
ROOT = "@import sub.txt\nmeter = [length] = m\nsecond = [time] = s\nroo = {roo} * meter\n"
SUB = "@import leaf.txt\nfoo = {foo}\nbar = 2 * foo\n"
LEAF = "baz = {baz}\n"
V0 = {"roo": "7", "foo": "3 * meter", "baz": "11 * second"}
EDITS = {
    "none": {},
    "root": {"roo": "8"},
    "import-factor": {"foo": "4 * meter"},
    "import-dimension": {"foo": "5 * second"},
    "nested-import-factor": {"baz": "13 * second"},
    "nested-import-dimension": {"baz": "13 * meter"},
    "import-and-root": {"foo": "6 * meter", "roo": "9"},
}
UNITS = ["roo", "foo", "bar", "baz", "meter", "second"]


def _write(d, vals):
    open(os.path.join(d, "root.txt"), "w").write(ROOT.format(**vals))
    open(os.path.join(d, "sub.txt"), "w").write(SUB.format(**vals))
    open(os.path.join(d, "leaf.txt"), "w").write(LEAF.format(**vals))


def _answers(ureg):
    import pint

    out = {}
    for u in UNITS:
        f, ru = ureg.get_root_units(u)
        out[u] = (round(float(f), 12), str(ru), str(ureg.get_dimensionality(u)), str(ureg._units[u].reference))
    for a, b in itertools.permutations(["foo", "bar", "baz", "roo"], 2):
        try:
            out[f"{a}->{b}"] = round(float(ureg.Quantity(1, a).to(b).magnitude), 12)
        except pint.DimensionalityError:
            out[f"{a}->{b}"] = "DimensionalityError"
    return out


def _scenario(first, second):
    import pint

    d = tempfile.mkdtemp(prefix="c10imp_")
    try:
        cache = os.path.join(d, "cache")
        os.mkdir(cache)
        vals = dict(V0, **EDITS[first])
        _write(d, vals)
        pint.UnitRegistry(os.path.join(d, "root.txt"), cache_folder=cache)._units  # cold load fills the cache
        vals = dict(vals, **EDITS[second])
        _write(d, vals)
        # make sure modification times differ where the key uses them
        for fn in ("root.txt", "sub.txt", "leaf.txt"):
            st = os.stat(os.path.join(d, fn))
            os.utime(os.path.join(d, fn), (st.st_atime + 5, st.st_mtime + 5))
        cached = _answers(pint.UnitRegistry(os.path.join(d, "root.txt"), cache_folder=cache))
        again = _answers(pint.UnitRegistry(os.path.join(d, "root.txt"), cache_folder=cache))
        plain = _answers(pint.UnitRegistry(os.path.join(d, "root.txt")))
        return cached, again, plain
    finally:
        shutil.rmtree(d, ignore_errors=True)


def run(tier: str = "quick", seed: int = 0, **kw) -> dict:
    viol, n, samples = [], 0, []
    for first, second in itertools.product(EDITS, EDITS):
        cached, again, plain = _scenario(first, second)
        n += 1
        case = f"importcache:{first}>{second}"
        for label, got in (("second load", cached), ("third load", again)):
            bad = [k for k in plain if got.get(k) != plain[k]]
            if bad:
                k = bad[0]
                viol.append({"case": case, "first": first, "second": second,
                             "what": f"{label} through the shared cache_folder: {k} -> {got.get(k)}, an uncached load of the same files gives {plain[k]} ({len(bad)} answers differ)"})
                break
        else:
            if len(samples) < 4 and second != "none":
                samples.append(case)
    return {"name": NAME,
            "bound": f"root file importing a file that imports a file; {len(EDITS)} x {len(EDITS)} (state at the first load, edit before the second load) "
                     f"scenarios sharing one cache folder; {len(UNITS)} units (factor, root units, dimensionality, stored reference) and 12 conversions compared, "
                     "second and third load",
            "evaluations": n, "distinct_nontrivial": n, "rule": "cross product of edit scenarios", "exhaustive": True,
            "violations": viol[:25], "violation_count": len(viol), "samples": samples}


def replay(data: dict) -> bool:
    cached, again, plain = _scenario(data["first"], data["second"])
    return cached == plain and again == plain
