"""Bounded stand-in (C06, supplementary): logarithmic and offset units INSIDE COMPOUND units.

In a registry created with `autoconvert_offset_to_baseunit=True` a unit such as dBm/Hz, dBW/kHz, dBm*s or
degC/m is accepted by `to` / `ito` / `m_as` / `ureg.convert`.  The property says such conversions "follow
their defining affine or logarithmic maps, are mutually inverse" and go "two-stage through the reference
unit" (`_validate_and_extract`, `_add_ref_of_log_or_offset_unit`, `_convert`).

Reference (independent of pint: a hand-written table of SI factors and dimension vectors, and the maps of
default_en.txt written out here):

    a compound unit is  H * R   with H the (single, first-order) non-multiplicative head (or a linear head)
    and R a multiplicative remainder.   x [H*R]  stands for the linear quantity   lin_H(x) * ref_H * R   with
        log head     lin_H(x) = base ** (x / logfactor)          (ref_H = 1 mW for dBm, 1 W for dBW, ...)
        offset head  lin_H(x) = scale * x + offset   [kelvin]
    and the converted value is  lin_H'^-1( lin_H(x) * ref_H * R / (ref_H' * R') ).
    e.g. 5 dBm/Hz = 10**0.5 mW/Hz = 35 dBm/kHz = 5 dBW/kHz;  5 degC/m = 278.15 K/m = 41 degF/m.
    Different dimensionality -> DimensionalityError.  In the default registry mode (no autoconvert) every
    compound conversion with a non-multiplicative head raises DimensionalityError.

Families (all ordered source x destination pairs, several values each, forms to / round trip / ito / m_as /
ureg.convert / ndarray to / ndarray ito):
  logref      dBm dBW dBu + W mW uW kW heads  x  remainders {none, /Hz, /kHz, /MHz, *s, *ms, /m**2, /cm**2} (+ J, mJ)
  offset      degC degF degRe + K degR mK heads  x  {none, /m, /km, /cm, *m, *s}
  logdimless  dB Np octave decade + dimensionless  x  {none, /m, /km, *s, /s}   (log -> log accepted under either
              reading of a level per length: defining map, or linear-in-level; pint matches neither)
  userlog     user-defined log units (20 log10 over 1 uV; 10 log10 over 1 kW; references that are themselves
              compound: W/m**2, mW/cm**2) x {none, /m, /Hz, *m**2}
  default     the logref / offset compound pairs (source != destination) in a default-mode registry: must raise
              DimensionalityError
"""
from __future__ import annotations

import json
import math
import sys
import time
from fractions import Fraction as Fr

NAME = "c06_logcompound"
RTOL = 1e-9
ATOL_NONLIN = 1e-9  # absolute slack when the destination value is a level / an offset temperature

# ------------------------------------------------------------------ independent table
# dimension vectors over (kg, m, s, K, A)
_D = {
    "power": (1, 2, -3, 0, 0), "energy": (1, 2, -2, 0, 0), "freq": (0, 0, -1, 0, 0), "time": (0, 0, 1, 0, 0),
    "length": (0, 1, 0, 0, 0), "temp": (0, 0, 0, 1, 0), "volt": (1, 2, -3, 0, -1), "none": (0, 0, 0, 0, 0),
}
# linear units: canonical pint name -> (exact factor to the coherent SI unit, dimension)
LIN = {
    "watt": (Fr(1), _D["power"]), "milliwatt": (Fr(1, 1000), _D["power"]), "microwatt": (Fr(1, 10**6), _D["power"]),
    "kilowatt": (Fr(1000), _D["power"]), "joule": (Fr(1), _D["energy"]), "millijoule": (Fr(1, 1000), _D["energy"]),
    "hertz": (Fr(1), _D["freq"]), "kilohertz": (Fr(1000), _D["freq"]), "megahertz": (Fr(10**6), _D["freq"]),
    "second": (Fr(1), _D["time"]), "millisecond": (Fr(1, 1000), _D["time"]),
    "meter": (Fr(1), _D["length"]), "centimeter": (Fr(1, 100), _D["length"]), "kilometer": (Fr(1000), _D["length"]),
    "kelvin": (Fr(1), _D["temp"]), "millikelvin": (Fr(1, 1000), _D["temp"]), "degree_Rankine": (Fr(5, 9), _D["temp"]),
    "volt": (Fr(1), _D["volt"]), "millivolt": (Fr(1, 1000), _D["volt"]),
}
# logarithmic units (default_en.txt:  x = logfactor * log(lin / reference) / log(logbase)):
#   name -> (reference factor in SI, reference dimension, logfactor, logbase)
LOG = {
    "decibelwatt": (1.0, _D["power"], 10.0, 10.0),
    "decibelmilliwatt": (1e-3, _D["power"], 10.0, 10.0),
    "decibelmicrowatt": (1e-6, _D["power"], 10.0, 10.0),
    "decibel": (1.0, _D["none"], 10.0, 10.0),
    "decade": (1.0, _D["none"], 1.0, 10.0),
    "octave": (1.0, _D["none"], 1.0, 2.0),
    "neper": (1.0, _D["none"], 0.5, math.e),
    # user-defined ones (family userlog), defined in the registry by USER_DEFS below
    "decibelmicrovolt": (1e-6, _D["volt"], 20.0, 10.0),
    "decibelkilowatt": (1e3, _D["power"], 10.0, 10.0),
    "decibelwattm2": (1.0, (1, 0, -3, 0, 0), 10.0, 10.0),            # W / m**2
    "decibelmilliwattcm2": (1e-3 / 1e-4, (1, 0, -3, 0, 0), 10.0, 10.0),  # mW / cm**2 = 10 W/m**2
}
USER_DEFS = (
    "decibelmicrovolt = 1e-6 volt; logbase: 10; logfactor: 20 = dBuV",
    "decibelkilowatt = 1e3 watt; logbase: 10; logfactor: 10 = dBkW",
    "decibelwattm2 = watt / meter ** 2; logbase: 10; logfactor: 10 = dBWm2",
    "decibelmilliwattcm2 = milliwatt / centimeter ** 2; logbase: 10; logfactor: 10 = dBmWcm2",
)
# offset units (kelvin = scale * x + offset)
OFF = {
    "degree_Celsius": (1.0, 273.15),
    "degree_Fahrenheit": (5.0 / 9.0, 233.15 + 200.0 / 9.0),
    "degree_Reaumur": (5.0 / 4.0, 273.15),
}

REM = {  # remainder name -> tuple of (linear unit, exponent)
    "": (), "/Hz": (("hertz", -1),), "/kHz": (("kilohertz", -1),), "/MHz": (("megahertz", -1),),
    "*s": (("second", 1),), "*ms": (("millisecond", 1),), "/m2": (("meter", -2),), "/cm2": (("centimeter", -2),),
    "/m": (("meter", -1),), "/km": (("kilometer", -1),), "/cm": (("centimeter", -1),), "*m": (("meter", 1),),
    "/s": (("second", -1),), "*m2": (("meter", 2),),
}


def dim_add(a, b, k=1):
    return tuple(x + k * y for x, y in zip(a, b))


class U:
    """A compound unit: head (log / offset / linear unit name, or None) with exponent 1, times a remainder."""

    __slots__ = ("head", "rem", "kind", "dim", "remfactor", "text")

    def __init__(self, head, rem):
        self.head, self.rem = head, tuple(rem)
        self.kind = "log" if head in LOG else "offset" if head in OFF else "lin"
        dim, f = _D["none"], Fr(1)
        for n, e in self.rem:
            dim = dim_add(dim, LIN[n][1], e)
            f *= LIN[n][0] ** e
        if self.kind == "log":
            dim = dim_add(dim, LOG[head][1])
        elif self.kind == "offset":
            dim = dim_add(dim, _D["temp"])
        elif head is not None:
            dim = dim_add(dim, LIN[head][1])
            f *= LIN[head][0]
        self.dim, self.remfactor = dim, float(f)
        parts = [head] if head else []
        t = "*".join(parts) or "1"
        for n, e in self.rem:
            t += ("*" if e > 0 else "/") + n + ("" if abs(e) == 1 else "**%d" % abs(e))
        self.text = t

    def container(self):
        d = dict(self.rem)
        if self.head:
            d[self.head] = d.get(self.head, 0) + 1
        return d

    # value in this unit -> linear SI value, and back
    def to_si(self, x):
        if self.kind == "log":
            ref, _, lf, lb = LOG[self.head]
            return ref * lb ** (x / lf) * self.remfactor
        if self.kind == "offset":
            sc, off = OFF[self.head]
            return (sc * x + off) * self.remfactor
        return x * self.remfactor

    def from_si(self, y):
        y = y / self.remfactor
        if self.kind == "log":
            ref, _, lf, lb = LOG[self.head]
            return lf * math.log(y / ref) / math.log(lb)
        if self.kind == "offset":
            sc, off = OFF[self.head]
            return (y - off) / sc
        return y

    @property
    def nonmult(self):
        return self.kind != "lin"


def reference(x, a: U, b: U):
    """('ok', value) or ('err', 'DimensionalityError') from the defining maps."""
    if a.dim != b.dim:
        return ("err", "DimensionalityError")
    return ("ok", b.from_si(a.to_si(x)))


def level_reading(x, a: U, b: U):
    """Second admissible reading for log->log with a dimensionless reference ('5 dB per metre is 5000 dB per km'):
    convert the level between the two log units, scale linearly by the remainder ratio."""
    if not (a.kind == "log" and b.kind == "log"):
        return None
    pa, pb = U(a.head, ()), U(b.head, ())
    return pb.from_si(pa.to_si(x)) * (a.remfactor / b.remfactor)


def close(got, exp, nonlin):
    if isinstance(got, bool) or not isinstance(got, (int, float)):
        try:
            got = float(got)
        except Exception:  # noqa: BLE001
            return False
    if math.isnan(got) or math.isinf(got):
        return False
    return abs(got - exp) <= RTOL * abs(exp) + (ATOL_NONLIN if nonlin else 0.0)


# ------------------------------------------------------------------ families
FAMILIES = {
    "logref": dict(heads=("decibelmilliwatt", "decibelwatt", "decibelmicrowatt", "watt", "milliwatt", "microwatt", "kilowatt"),
                   rems=("", "/Hz", "/kHz", "/MHz", "*s", "*ms", "/m2", "/cm2"),
                   extra=(("joule", ""), ("millijoule", "")), reg="auto"),
    "offset": dict(heads=("degree_Celsius", "degree_Fahrenheit", "degree_Reaumur", "kelvin", "degree_Rankine", "millikelvin"),
                   rems=("", "/m", "/km", "/cm", "*m", "*s"), extra=(), reg="auto"),
    "logdimless": dict(heads=("decibel", "neper", "octave", "decade", None), rems=("", "/m", "/km", "*s", "/s"),
                       extra=(), reg="auto"),
    "userlog": dict(heads=("decibelmicrovolt", "decibelkilowatt", "decibelwattm2", "decibelmilliwattcm2",
                           "decibelmilliwatt", "volt", "millivolt", "watt", "milliwatt"),
                    rems=("", "/m", "/Hz", "*m2", "/m2", "/cm2"), extra=(), reg="user"),
}
VALUES = {
    "log": (5.0, -30.0, -3.5, 0.0, 36.5),
    "offset": (5.0, -40.0, 0.0, 100.0, 451.5),
    "lin": (5.0, 1e-6, 0.5, 1.0, 2500.0),
    "lin-temp": (5.0, 273.15, 300.0, 1.0, 1000.0),
}
FORMS_SCALAR = ("to", "roundtrip", "ito", "m_as", "convert")
FORMS_ARRAY = ("array-to", "array-ito")

_REGS = {}


def get_reg(key):
    import pint

    if key not in _REGS:
        if key == "default":
            _REGS[key] = pint.UnitRegistry()
        else:
            r = pint.UnitRegistry(autoconvert_offset_to_baseunit=True)
            if key == "user":
                for d in USER_DEFS:
                    r.define(d)
            _REGS[key] = r
    return _REGS[key]


def units_of(fam):
    spec = FAMILIES[fam]
    out = [U(h, REM[r]) for h in spec["heads"] for r in spec["rems"]]
    out += [U(h, REM[r]) for h, r in spec["extra"]]
    return out


def values_for(u: U, tier, family):
    vs = VALUES["lin-temp" if (u.kind == "lin" and family == "offset") else u.kind]
    return vs if tier == "thorough" else vs[:3]


def observe(f):
    import pint

    try:
        return ("ok", f())
    except pint.DimensionalityError as e:
        return ("err", "DimensionalityError", str(e)[:160])
    except Exception as e:  # noqa: BLE001
        return ("err", type(e).__name__, str(e)[:160])


def do_form(ureg, form, x, a: U, b: U):
    """Run one entry point of the real code; -> observe() tuple with a float (or list of floats)."""
    import numpy as np

    ca, cb = ureg.UnitsContainer(a.container()), ureg.UnitsContainer(b.container())
    ub = ureg.Unit(cb)
    if form == "to":
        return observe(lambda: ureg.Quantity(x, ca).to(ub).magnitude)
    if form == "ito":
        def f():
            q = ureg.Quantity(x, ca)
            q.ito(ub)
            if dict(q._units) != dict(cb):
                raise AssertionError("ito left units %r" % (dict(q._units),))
            return q.magnitude
        return observe(f)
    if form == "m_as":
        return observe(lambda: ureg.Quantity(x, ca).m_as(ub))
    if form == "convert":
        return observe(lambda: ureg.convert(x, ca, cb))
    if form == "array-to":
        return observe(lambda: [float(v) for v in ureg.Quantity(np.array(x, dtype=float), ca).to(ub).magnitude])
    if form == "array-ito":
        def g():
            q = ureg.Quantity(np.array(x, dtype=float), ca)
            q.ito(ub)
            return [float(v) for v in q.magnitude]
        return observe(g)
    raise ValueError(form)


def otext(o):
    return "%r" % (o[1],) if o[0] == "ok" else "%s (%s)" % (o[1], o[2])


def check(fam, regkey, form, x, a: U, b: U):
    """-> None if the real code agrees with the reference, else a short description."""
    ureg = get_reg(regkey)
    nonlin = b.nonmult
    if regkey == "default":
        got = do_form(ureg, "to", x, a, b)
        if got[0] == "err" and got[1] == "DimensionalityError":
            return None
        return "default mode: %r [%s] to [%s] -> %s; a non-multiplicative unit inside a compound unit must be refused with " \
               "DimensionalityError without autoconvert_offset_to_baseunit" % (x, a.text, b.text, otext(got))
    if form in FORMS_ARRAY:
        xs = list(x)
        exp = [reference(v, a, b) for v in xs]
        got = do_form(ureg, form, xs, a, b)
        if exp[0][0] == "err":
            return None if (got[0] == "err" and got[1] == "DimensionalityError") else \
                "%s %r [%s] -> [%s]: %s, expected DimensionalityError" % (form, xs, a.text, b.text, otext(got))
        if got[0] != "ok":
            return "%s %r [%s] -> [%s] refused: %s; same dimensionality, expected %r" % (
                form, xs, a.text, b.text, otext(got), [e[1] for e in exp])
        if len(got[1]) != len(xs) or not all(_accept(fam, v, g, e[1], a, b, nonlin) for v, g, e in zip(xs, got[1], exp)):
            return "%s %r [%s] -> [%s] = %r, expected %r" % (form, xs, a.text, b.text, got[1], [e[1] for e in exp])
        return None
    exp = reference(x, a, b)
    if form == "roundtrip":
        if exp[0] == "err":
            return None
        g1 = do_form(ureg, "to", x, a, b)
        if g1[0] != "ok":
            return None  # reported by the `to` form
        g2 = do_form(ureg, "to", g1[1], b, a)
        if g2[0] != "ok":
            return "round trip %r [%s] -> [%s] -> back refused: %s" % (x, a.text, b.text, otext(g2))
        if not close(g2[1], x, a.nonmult):
            return "round trip %r [%s] -> [%s] (%r) -> [%s] gives %r: the two conversions are not mutually inverse" % (
                x, a.text, b.text, g1[1], a.text, g2[1])
        return None
    got = do_form(ureg, form, x, a, b)
    if exp[0] == "err":
        if got[0] == "err" and got[1] == "DimensionalityError":
            return None
        return "%s: %r [%s] -> [%s] gives %s; dimensionalities differ, DimensionalityError expected" % (
            form, x, a.text, b.text, otext(got))
    if got[0] != "ok":
        return "%s: %r [%s] -> [%s] refused: %s; both sides have the same dimensionality, the defining maps give %.12g" % (
            form, x, a.text, b.text, otext(got), exp[1])
    if not _accept(fam, x, got[1], exp[1], a, b, nonlin):
        return "%s: %r [%s] -> [%s] = %r, the defining maps give %.12g" % (form, x, a.text, b.text, got[1], exp[1])
    return None


def _accept(fam, x, got, exp, a, b, nonlin):
    if close(got, exp, nonlin):
        return True
    if fam == "logdimless":
        alt = level_reading(x, a, b)
        if alt is not None and close(got, alt, nonlin):
            return True
    return False


def enumerate_cases(tier):
    """Yield (family, regkey, form, x, a, b, nontrivial)."""
    for fam in FAMILIES:
        us = units_of(fam)
        regkey = FAMILIES[fam]["reg"]
        for a in us:
            for b in us:
                same = a.dim == b.dim
                nontrivial = same and (a.nonmult or b.nonmult)
                vals = values_for(a, tier, fam)
                if not same:
                    yield fam, regkey, "to", vals[0], a, b, False
                    continue
                if not nontrivial:
                    # plain linear -> linear pairs (ordinary C02 conversions): one value
                    yield fam, regkey, "to", vals[0], a, b, False
                    continue
                for x in vals:
                    yield fam, regkey, "to", x, a, b, nontrivial
                    yield fam, regkey, "roundtrip", x, a, b, nontrivial
                nforms = vals if tier == "thorough" else vals[:1]
                for x in nforms:
                    for form in ("ito", "m_as", "convert"):
                        yield fam, regkey, form, x, a, b, nontrivial
                for form in FORMS_ARRAY:
                    yield fam, regkey, form, tuple(vals), a, b, nontrivial
    # default registry mode: compound with a non-multiplicative head must be refused
    for fam in ("logref", "offset"):
        us = units_of(fam)
        for a in us:
            for b in us:
                if a.dim != b.dim or a.text == b.text:  # identity "conversions" are returned unchanged: not a conversion
                    continue
                if (a.nonmult and a.rem) or (b.nonmult and b.rem):
                    yield "default", "default", "to", values_for(a, "quick", fam)[0], a, b, True


def case_id(fam, form, x, a, b):
    xt = ",".join("%g" % v for v in x) if isinstance(x, tuple) else "%g" % x
    return "%s:%s->%s:%s:%s" % (fam, a.text, b.text, xt, form)


def kind_of(msg):
    if "refused" in msg:
        return "refused"
    if "round trip" in msg:
        return "roundtrip"
    if "DimensionalityError expected" in msg or "must be refused" in msg:
        return "not-refused"
    return "wrong-value"


def run(tier="quick", seed=0, **kw):
    t0 = time.time()
    evals = nontriv = 0
    seen_nontrivial = set()
    per_family = {}
    viols_by_fam = {}
    kinds = {}
    samples = []
    refusals_not_judged = 0
    agg_seen = {}
    for fam, regkey, form, x, a, b, nontrivial in enumerate_cases(tier):
        evals += 1
        if nontrivial:
            seen_nontrivial.add((fam, a.text, b.text, x))
        per_family[fam] = per_family.get(fam, 0) + 1
        msg = check(fam if fam != "default" else "logref", regkey, form, x, a, b)
        if msg:
            k = kind_of(msg)
            if k in ("refused", "roundtrip") and "refused" in msg and fam not in ("logref", "default"):
                # C06 allows a combination to be refused ("raises ... instead of producing a number"); outside the
                # family pint demonstrably supports (log units with a reference unit) a refusal is not judged
                refusals_not_judged += 1
                continue
            kinds[(fam, k)] = kinds.get((fam, k), 0) + 1
            agg = "%s:%s:%s->%s" % (fam, k, a.kind, b.kind)
            if agg in agg_seen:
                agg_seen[agg]["count"] += 1
                continue
            agg_seen[agg] = {"count": 1}
            viols_by_fam.setdefault(fam, []).append({
                "case": agg, "example": case_id(fam, form, x, a, b), "what": msg, "kind": k, "family": fam, "reg": regkey, "form": form,
                "x": list(x) if isinstance(x, tuple) else x, "src": [a.head, [list(r) for r in a.rem]],
                "dst": [b.head, [list(r) for r in b.rem]]})
        elif len(samples) < 5 and nontrivial and form == "to" and a.rem and a.text != b.text and evals % 97 == 0:
            samples.append({"family": fam, "expr": "Q(%r, [%s]).to([%s])" % (x, a.text, b.text),
                            "reference": reference(x, a, b)[1]})
    nontriv = len(seen_nontrivial)
    total = sum(len(v) for v in viols_by_fam.values())
    # round-robin over families so that every family with findings is represented among the 25 listed
    listed, i = [], 0
    fams = [f for f in list(FAMILIES) + ["default"] if f in viols_by_fam]
    # prefer one example of each (family, kind) first
    firsts = []
    for f in fams:
        seen = set()
        for v in viols_by_fam[f]:
            if v["kind"] not in seen:
                seen.add(v["kind"])
                firsts.append(v)
    listed.extend(firsts[:25])
    while len(listed) < 25 and fams:
        progressed = False
        for f in fams:
            if i < len(viols_by_fam[f]) and len(listed) < 25:
                v = viols_by_fam[f][i]
                if v not in listed:
                    listed.append(v)
                progressed = True
        i += 1
        if not progressed:
            break
    nunits = {f: len(units_of(f)) for f in FAMILIES}
    return {
        "name": NAME,
        "bound": "autoconvert registry: all ordered (source, destination) pairs of " + ", ".join(
            "%d %s units" % (n, f) for f, n in nunits.items()) + " (head x remainder, see module doc), %d values per "
            "same-dimension pair, forms to/round trip/ito/m_as/convert/ndarray to/ndarray ito; plus the compound pairs of "
            "logref/offset in a default-mode registry (must be refused); float tolerance rel %g" % (
                5 if tier == "thorough" else 3, RTOL),
        "evaluations": evals,
        "distinct_nontrivial": nontriv,
        "rule": "exhaustive cross product per family; non-trivial = same dimensionality and a logarithmic or offset head on "
                "at least one side (distinct (pair, value))",
        "exhaustive": True,
        "violations": listed[:25],
        "violation_count": total,
        "instances_per_case": {k: v["count"] for k, v in sorted(agg_seen.items())},
        "refusals_not_judged": refusals_not_judged,
        "violations_by_family_and_kind": {"%s/%s" % k: v for k, v in sorted(kinds.items())},
        "evaluations_by_family": per_family,
        "samples": samples,
        "seconds": round(time.time() - t0, 2),
    }


def replay(data):
    a = U(data["src"][0], [tuple(r) for r in data["src"][1]])
    b = U(data["dst"][0], [tuple(r) for r in data["dst"][1]])
    x = tuple(data["x"]) if isinstance(data["x"], list) else data["x"]
    fam = data["family"]
    return check(fam if fam != "default" else "logref", data["reg"], data["form"], x, a, b) is None


if __name__ == "__main__":
    tier = "quick"
    if "--tier" in sys.argv:
        tier = sys.argv[sys.argv.index("--tier") + 1]
    print(json.dumps(run(tier), indent=1, default=str))
