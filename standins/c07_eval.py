"""Bounded stand-in for C07: "String expressions evaluate like ordinary arithmetic on quantities".

Four parts (all run the REAL pint code; every oracle below is written from the property statement /
Python's grammar, not from pint's tree builder):

1. tree   exhaustive enumeration of token sequences over the alphabet
          {2,3} {x,y} {+ - * / // % ** ^} ( )  with juxtaposition (two adjacent operands) as implicit
          multiplication.  Real `build_eval_tree(tokenizer(s)).evaluate` (raw and after the real
          `string_preprocessor`, spaced and compact spelling) on free symbolic atoms is compared with an
          independent recursive-descent parser that mirrors Python's grammar
              sum: term (('+'|'-') term)* ; term: factor (('*'|'/'|'//'|'%'|<juxt>) factor)* ;
              factor: ('+'|'-') factor | power ; power: primary [('**'|'^') factor] ;
              primary: NUM | NAME | '(' sum ')'
          and that parser is itself cross-checked against Python's own `ast.parse` on every sequence that
          is pure Python (no juxtaposition; '^' spelled '**').  A subset also goes through the real
          `ureg.parse_expression`, `ureg.Quantity(str)` and `ParserHelper.from_string` and is compared with
          Python operators applied to real quantities / an exact monomial reference.
2. literal  numeric literal typing in float / Decimal / Fraction registries.
3. catalogue  word forms, unicode exponents, preprocessing, +/- uncertainties (fixed catalogue).
4. hostile  "no code execution": audit hook + profile hook while parsing a catalogue of hostile strings.
Plus (1c) the ill-formed sequences of length <= 3 once more in a `python -O` child: rejection of a dangling
operator must not depend on `assert` statements.

Violations carry a `kind`; "wrong-grouping/juxtaposed-group-binds-tightest" marks the ones that coincide with a
*model* of one deviation seen on the unchanged tree (operand immediately followed by "(...)" binds like a call),
so that any other cause stands out (those are listed first).
"""
from __future__ import annotations

import ast
import decimal
import fractions
import json
import math
import multiprocessing
import operator
import os
import sys
import time
import warnings

import pint
from pint import pint_eval
from pint.pint_eval import build_eval_tree
from pint.util import ParserHelper, string_preprocessor

NAME = "c07_eval"

Fraction = fractions.Fraction
Decimal = decimal.Decimal

NUMS = ("2", "3")
NAMES = ("x", "y")
OPS = ("+", "-", "*", "/", "//", "%", "**", "^")
ALPHABET = NUMS + NAMES + OPS + ("(", ")")
_ATOMS = frozenset(NUMS + NAMES)
_NUMSET = frozenset(NUMS)
_NAMESET = frozenset(NAMES)
_OPSET = frozenset(OPS)
_BINONLY = frozenset(("*", "/", "//", "%", "**", "^"))
_OPERAND_END = frozenset(NUMS + NAMES + (")",))
_OPERAND_START = frozenset(NUMS + NAMES + ("(",))

# tier -> (N_all: all sequences up to this length, N_wf: all well-formed sequences up to this length,
#          N_real_wf: well-formed sequences through the real entry points up to this length,
#          N_real_ill: ill-formed sequences through the real entry points up to this length)
TIERS = {
    "quick": dict(n_all=5, n_wf=7, n_real_wf=5, n_real_ill=4),
    "thorough": dict(n_all=6, n_wf=8, n_real_wf=6, n_real_ill=5),
}


# --------------------------------------------------------------------------------------------------
# Independent reference: Python's expression grammar + juxtaposition == '*', '^' == '**'
# trees: ("n", text) | ("v", name) | ("neg", t) | (op, a, b) with op in + - * / // % **
# (unary plus is the identity on quantities and is dropped)
# --------------------------------------------------------------------------------------------------
class RefSyntaxError(Exception):
    pass


def ref_parse(toks, group_postfix=False):
    """group_postfix=False: the reference (Python's rules, juxtaposition == '*').
    group_postfix=True is NOT a reference: it is a model of one deviation seen on the unchanged tree
    ("operand immediately followed by a parenthesised group" binds tighter than everything, like a call),
    used only to label violations with a root cause so that other causes are not drowned out."""
    n = len(toks)
    pos = 0

    def peek():
        return toks[pos] if pos < n else None

    def primary():
        nonlocal pos
        t = peek()
        if t in _NUMSET:
            pos += 1
            return ("n", t)
        if t in _NAMESET:
            pos += 1
            return ("v", t)
        if t == "(":
            pos += 1
            e = sum_()
            if peek() != ")":
                raise RefSyntaxError("missing )")
            pos += 1
            return e
        raise RefSyntaxError("operand expected")

    def power():
        nonlocal pos
        base = primary()
        if group_postfix:
            while peek() == "(":
                base = ("*", base, primary())
        if peek() in ("**", "^"):
            pos += 1
            return ("**", base, factor())  # right operand is a *factor*: 2**-x, right associative
        return base

    def factor():
        nonlocal pos
        t = peek()
        if t == "+":
            pos += 1
            return factor()
        if t == "-":
            pos += 1
            return ("neg", factor())
        return power()

    def term():
        nonlocal pos
        left = factor()
        while True:
            t = peek()
            if t in ("*", "/", "//", "%"):
                pos += 1
                left = (t, left, factor())
            elif t in _OPERAND_START:  # juxtaposition == '*'
                left = ("*", left, factor())
            else:
                return left

    def sum_():
        nonlocal pos
        left = term()
        while peek() in ("+", "-"):
            t = toks[pos]
            pos += 1
            left = (t, left, term())
        return left

    e = sum_()
    if pos != n:
        raise RefSyntaxError("trailing tokens")
    return e


def dfa_wellformed(toks):
    """Second, even simpler statement of well-formedness (operand/operator alternation + depth)."""
    expect_operand, depth = True, 0
    for t in toks:
        if expect_operand:
            if t in _ATOMS:
                expect_operand = False
            elif t == "(":
                depth += 1
            elif t in ("+", "-"):
                pass
            else:
                return False
        else:
            if t in _OPSET:
                expect_operand = True
            elif t in _ATOMS:
                pass
            elif t == "(":
                depth += 1
                expect_operand = True
            else:  # ")"
                if depth == 0:
                    return False
                depth -= 1
    return (not expect_operand) and depth == 0


_AST_BIN = {ast.Add: "+", ast.Sub: "-", ast.Mult: "*", ast.Div: "/", ast.FloorDiv: "//", ast.Mod: "%",
            ast.Pow: "**"}


def py_parse(toks):
    """Python's own parser on the pure-Python spelling; returns a tree, or None if Python rejects it
    (or if it is not an arithmetic expression, e.g. the empty tuple `()`)."""
    src = " ".join("**" if t == "^" else t for t in toks)
    try:
        with warnings.catch_warnings():
            warnings.simplefilter("ignore")
            node = ast.parse(src, mode="eval").body
    except SyntaxError:
        return None

    def walk(nd):
        if isinstance(nd, ast.BinOp):
            return (_AST_BIN[type(nd.op)], walk(nd.left), walk(nd.right))
        if isinstance(nd, ast.UnaryOp):
            if isinstance(nd.op, ast.USub):
                return ("neg", walk(nd.operand))
            if isinstance(nd.op, ast.UAdd):
                return walk(nd.operand)
            raise KeyError(nd.op)
        if isinstance(nd, ast.Constant) and type(nd.value) is int:
            return ("n", str(nd.value))
        if isinstance(nd, ast.Name):
            return ("v", nd.id)
        raise KeyError(type(nd))

    try:
        return walk(node)
    except KeyError:
        return None


def has_juxt(toks):
    for a, b in zip(toks, toks[1:]):
        if a in _OPERAND_END and b in _OPERAND_START:
            return True
    return False


def has_plusminus(toks):
    """'+' '/' '-' in a row is pint's documented uncertainty operator '+/-' (whitespace is irrelevant to
    its tokenizer): such sequences are outside the arithmetic alphabet of part 1."""
    for i in range(len(toks) - 2):
        if toks[i] == "+" and toks[i + 1] == "/" and toks[i + 2] == "-":
            return True
    return False


def has_shorthand(toks):
    """NUM ( NUM ) is the uncertainties shorthand 1.23(4) for the uncertainty tokenizer."""
    for i in range(len(toks) - 3):
        if toks[i] in _NUMSET and toks[i + 1] == "(" and toks[i + 2] in _NUMSET and toks[i + 3] == ")":
            return True
    return False


def render_spaced(toks):
    return " ".join(toks)


def render_compact(toks):
    out = [toks[0]]
    for a, b in zip(toks, toks[1:]):
        if a in _ATOMS and b in _ATOMS:
            need = not (a in _NUMSET and b in _NAMESET)  # "2x" is fine, "x 2" / "2 3" / "x y" need a space
        elif a in _BINONLY and b in _BINONLY:
            need = True  # keep "* *" distinct from "**"
        else:
            need = False
        out.append(" " + b if need else b)
    return "".join(out)


def render_wide(toks):
    return "  ".join(toks) + " "


# --------------------------------------------------------------------------------------------------
# Symbolic atoms for the real evaluator
# --------------------------------------------------------------------------------------------------
class Sym:
    __slots__ = ("t",)

    def __init__(self, t):
        self.t = t

    @staticmethod
    def _o(o):
        if o.__class__ is Sym:
            return o.t
        raise TypeError("non-symbolic operand %r" % (o,))

    def __add__(self, o):
        return Sym(("+", self.t, Sym._o(o)))

    def __sub__(self, o):
        return Sym(("-", self.t, Sym._o(o)))

    def __mul__(self, o):
        if o.__class__ is int and o == -1:  # pint spells unary minus as `x * -1`
            return Sym(("neg", self.t))
        return Sym(("*", self.t, Sym._o(o)))

    def __truediv__(self, o):
        return Sym(("/", self.t, Sym._o(o)))

    def __floordiv__(self, o):
        return Sym(("//", self.t, Sym._o(o)))

    def __mod__(self, o):
        return Sym(("%", self.t, Sym._o(o)))

    def __pow__(self, o):
        return Sym(("**", self.t, Sym._o(o)))


_NUMBER = 2  # token.NUMBER
_NAME = 1  # token.NAME
import token as _tokenlib  # noqa: E402

assert _tokenlib.NUMBER == _NUMBER and _tokenlib.NAME == _NAME


def _define_sym(tok):
    if tok.type == _NUMBER:
        return Sym(("n", tok.string))
    if tok.type == _NAME:
        return Sym(("v", tok.string))
    raise Exception("unknown token type")


_BIN_WITH_CARET = dict(pint_eval._BINARY_OPERATOR_MAP)
_BIN_WITH_CARET["^"] = _BIN_WITH_CARET["**"]


def pint_sym(s, tokenizer=None, binmap=None):
    """real tokenizer + real tree builder + real evaluate on symbolic atoms -> (tree, None) | (None, exc)"""
    try:
        node = build_eval_tree((tokenizer or pint_eval.tokenizer)(s))
        r = node.evaluate(_define_sym, binmap, None)
    except Exception as e:  # noqa: BLE001
        return None, type(e).__name__
    if r.__class__ is Sym:
        return r.t, None
    return ("?", repr(r)), None


_NUM_ENVS = ({"x": 1.7, "y": 0.6}, {"x": 5.3, "y": 2.9}, {"x": 0.37, "y": 11.0}, {"x": 3.0, "y": 2.0},
             {"x": 2.0, "y": 5.0}, {"x": -3.0, "y": 7.0})
_PYOPS = {"+": operator.add, "-": operator.sub, "*": operator.mul, "/": operator.truediv,
          "//": operator.floordiv, "%": operator.mod, "**": operator.pow}


def _num_eval(t, env):
    k = t[0]
    if k == "n":
        return float(t[1])
    if k == "v":
        return env[t[1]]
    if k == "neg":
        return -_num_eval(t[1], env)
    if k == "?":
        raise ValueError
    r = _PYOPS[k](_num_eval(t[1], env), _num_eval(t[2], env))
    if isinstance(r, complex):
        raise ValueError
    return r


def same_value(t1, t2):
    """structurally different trees: same value?  True / False / None (undecidable numerically)"""
    decided = False
    for env in _NUM_ENVS:
        vals = []
        for t in (t1, t2):
            try:
                vals.append(_num_eval(t, env))
            except (ArithmeticError, ValueError):
                vals.append(None)
        a, b = vals
        if a is None and b is None:
            continue
        if a is None or b is None:
            return False
        if not (math.isfinite(a) and math.isfinite(b)):
            continue
        decided = True
        if not math.isclose(a, b, rel_tol=1e-9, abs_tol=1e-12):
            return False
    return True if decided else None


def show(t):
    k = t[0]
    if k in ("n", "v", "?"):
        return t[1]
    if k == "neg":
        return "(-%s)" % show(t[1])
    return "(%s %s %s)" % (show(t[1]), k, show(t[2]))


def n_ops(t):
    k = t[0]
    if k in ("n", "v", "?"):
        return 0
    if k == "neg":
        return 1 + n_ops(t[1])
    return 1 + n_ops(t[1]) + n_ops(t[2])


# --------------------------------------------------------------------------------------------------
# Part 1a: one token sequence through the symbolic paths
# --------------------------------------------------------------------------------------------------
def check_sequence(toks, stats, crosscheck=True, full_variants=True):
    """Returns list of problems: (string, path, kind, detail).  stats: dict of counters (mutated)."""
    if has_plusminus(toks):
        stats["excluded_plusminus"] += 1
        return []
    wf = dfa_wellformed(toks)
    ref = None
    if wf or crosscheck:
        try:
            ref = ref_parse(toks)
        except RefSyntaxError:
            ref = None
        if (ref is not None) != wf:
            raise AssertionError("harness: reference parser and DFA disagree on %r" % (toks,))
    juxt = has_juxt(toks)
    if crosscheck and not juxt:
        py = py_parse(toks)
        stats["python_crosschecked"] += 1
        if py != ref:
            raise AssertionError("harness: reference parser and Python's ast disagree on %r: %r vs %r"
                                 % (toks, ref, py))
    if wf:
        stats["wellformed"] += 1
        if n_ops(ref) >= 2:
            stats["nontrivial"] += 1
    else:
        stats["illformed"] += 1
    shorthand = has_shorthand(toks)
    caret = "^" in toks
    s_sp = render_spaced(toks)
    s_cp = render_compact(toks)

    runs = []  # (path, string, (tree, exc))
    binmap = _BIN_WITH_CARET if caret else None
    if shorthand:
        stats["skipped_shorthand_spelling"] += 1
    else:
        runs.append(("raw", s_sp, pint_sym(s_sp, None, binmap)))
    if full_variants or shorthand:
        pre = string_preprocessor(s_sp)
        if pre != s_sp:
            runs.append(("pre", s_sp, pint_sym(pre)))
        else:
            stats["pre_identical_to_raw"] += 1  # same string, default maps: the raw run is the preprocessed run
    if s_cp != s_sp and not shorthand and (full_variants or juxt or caret):
        runs.append(("pre-compact", s_cp, pint_sym(string_preprocessor(s_cp))))
    if shorthand or (wf and full_variants):
        runs.append(("raw-plain-tokenizer", s_sp, pint_sym(s_sp, pint_eval.plain_tokenizer, binmap)))
    if wf and full_variants:
        s_wd = render_wide(toks)
        runs.append(("pre-wide", s_wd, pint_sym(string_preprocessor(s_wd))))

    problems = []
    alt = None
    for path, s, (tree, exc) in runs:
        stats["evaluations"] += 1
        if exc is not None:
            stats["exc:" + exc] += 1
        if wf:
            if tree is None:
                problems.append((s, path, "rejected-wellformed",
                                 "raises %s, expected %s" % (exc, show(ref))))
            elif tree != ref:
                sv = same_value(tree, ref)
                if sv is True:
                    stats["structural_only_difference"] += 1
                else:
                    if alt is None:
                        alt = ref_parse(toks, True)
                    kind = "wrong-grouping" if sv is False else "wrong-grouping-undecided"
                    if tree == alt:
                        kind += "/juxtaposed-group-binds-tightest"
                    problems.append((s, path, kind,
                                     "pint groups as %s, Python's rules give %s" % (show(tree), show(ref))))
        else:
            if tree is not None:
                problems.append((s, path, "illformed-yields-value",
                                 "ill-formed input evaluates to %s" % show(tree)))
    return problems


class _Stats(dict):
    def __missing__(self, k):
        return 0


def _merge_stats(dst, src):
    for k, v in src.items():
        dst[k] = dst.get(k, 0) + v


def _merge_problems(problems, part="tree"):
    """one violation per input string; problems: (string, path, kind, detail, tokens)"""
    by = {}
    for s, path, kind, detail, toks in problems:
        v = by.get(s)
        if v is None:
            by[s] = {"case": "tree:" + s, "part": part, "string": s, "tokens": list(toks), "paths": [path],
                     "kind": kind, "what": "%s [%s]" % (detail, path)}
        elif path not in v["paths"]:
            v["paths"].append(path)
            v["what"] += " [%s]" % path
    return list(by.values())


_PUBLIC_PATHS = ("pre", "pre-compact", "pre-wide")


def _signature(v):
    """class of a tree violation: kind, whether a public pipeline shows it, operators involved"""
    public = any(p in _PUBLIC_PATHS or "/" in p or "(" in p for p in v["paths"])
    ops = tuple(sorted(set(t for t in v["tokens"] if t not in ("2", "3", "x", "y", "meter", "second",
                                                                 "c07xx", "c07yy"))))
    return (v["kind"], public, ops)


def _keep(vs, per_signature=2, cap=60):
    """what a worker sends back: unrecognised root causes first, a few of every signature, shortest first"""
    vs.sort(key=lambda v: ("/" in v["kind"], _vkey(v)))
    kept, per = [], {}
    for v in vs:
        k = _signature(v)
        if per.get(k, 0) < per_signature:
            per[k] = per.get(k, 0) + 1
            kept.append(v)
            if len(kept) >= cap:
                break
    return kept


def _vkey(v):
    s = v.get("string", v["case"])
    return (len(v.get("tokens") or s.split()), len(s), s)


def _enum_task(task):
    """task = (mode, prefix, max_len): mode 'all' = every extension of prefix up to max_len;
    mode 'wf' = only well-formed sequences of exactly length max_len starting with prefix."""
    mode, prefix, max_len = task
    stats = _Stats()
    problems = []
    if mode == "all":
        def rec(seq):
            problems.extend(p + (seq,) for p in check_sequence(seq, stats, True, True))
            if len(seq) < max_len:
                for t in ALPHABET:
                    rec(seq + (t,))
        rec(tuple(prefix))
    else:
        for seq in _gen_wellformed(tuple(prefix), max_len):
            problems.extend(p + (seq,) for p in check_sequence(seq, stats, False, False))
    vs = _merge_problems(problems)
    classes = {}
    for v in vs:
        key = v["kind"] + ":" + "+".join(sorted(v["paths"]))
        classes[key] = classes.get(key, 0) + 1
    return dict(stats), len(vs), _keep(vs), classes


def _prefix_state(prefix):
    """DFA state after prefix or None if the prefix is already dead"""
    expect, depth = True, 0
    for t in prefix:
        if expect:
            if t in _ATOMS:
                expect = False
            elif t == "(":
                depth += 1
            elif t in ("+", "-"):
                pass
            else:
                return None
        else:
            if t in _OPSET:
                expect = True
            elif t in _ATOMS:
                pass
            elif t == "(":
                depth += 1
                expect = True
            else:
                if depth == 0:
                    return None
                depth -= 1
    return expect, depth


def _gen_wellformed(prefix, length):
    """all well-formed sequences of exactly `length` tokens starting with prefix (pruned DFS)"""
    st = _prefix_state(prefix)
    if st is None:
        return
    out = list(prefix)

    def rec(expect, depth):
        remaining = length - len(out)
        # need at least `depth` closing tokens, plus one operand if one is expected
        if depth + (1 if expect else 0) > remaining:
            return
        if remaining == 0:
            yield tuple(out)
            return
        if expect:
            for t in NUMS + NAMES:
                out.append(t)
                yield from rec(False, depth)
                out.pop()
            out.append("(")
            yield from rec(True, depth + 1)
            out.pop()
            for t in ("+", "-"):
                out.append(t)
                yield from rec(True, depth)
                out.pop()
        else:
            for t in NUMS + NAMES:
                out.append(t)
                yield from rec(False, depth)
                out.pop()
            for t in OPS:
                out.append(t)
                yield from rec(True, depth)
                out.pop()
            out.append("(")
            yield from rec(True, depth + 1)
            out.pop()
            if depth > 0:
                out.append(")")
                yield from rec(False, depth - 1)
                out.pop()

    yield from rec(*st)


# --------------------------------------------------------------------------------------------------
# Part 1b: real entry points (parse_expression / Quantity(str) / ParserHelper.from_string)
# --------------------------------------------------------------------------------------------------
_REG = {}


def _registries():
    if not _REG:
        f = pint.UnitRegistry()
        q = pint.UnitRegistry(non_int_type=Fraction)
        for r in (f, q):
            r.define("c07xx = 1.75")
            r.define("c07yy = 0.625")
        _REG["float"] = f
        _REG["fraction"] = q
    return _REG


_NAME_MAPS = {"dim": {"x": "meter", "y": "second"}, "nodim": {"x": "c07xx", "y": "c07yy"}}


class _Undefined(Exception):
    pass


def _q_expected(tree, ureg, names, fraction):
    """Python operators on the named quantities (the property's right-hand side)."""
    k = tree[0]
    if k == "n":
        return Fraction(tree[1]) if fraction else int(tree[1])
    if k == "v":
        one = Fraction(1) if fraction else 1
        return ureg.Quantity(1, ureg.UnitsContainer({names[tree[1]]: one}))
    if k == "neg":
        return -_q_expected(tree[1], ureg, names, fraction)
    return _PYOPS[k](_q_expected(tree[1], ureg, names, fraction), _q_expected(tree[2], ureg, names, fraction))


def _num_same(a, b, exact_type=True):
    if exact_type and type(a) is not type(b):
        return False
    try:
        if a == b:
            return True
        if a != a and b != b:
            return True
        # value-equal groupings (associativity of *) may differ in the last bit in float arithmetic
        return isinstance(a, float) and isinstance(b, float) and math.isclose(a, b, rel_tol=1e-12)
    except Exception:  # noqa: BLE001
        return False


def _result_same(got, exp, ureg):
    gq, eq = isinstance(got, ureg.Quantity), isinstance(exp, ureg.Quantity)
    if gq != eq:
        return False
    if gq:
        return got._units == exp._units and _num_same(got._magnitude, exp._magnitude)
    return _num_same(got, exp)


def _brief(v, ureg=None):
    try:
        if hasattr(v, "_units"):
            return "Quantity(%r, %r)" % (v._magnitude, dict(v._units._d))
        if isinstance(v, ParserHelper):
            return "ParserHelper(%r, %r)" % (v.scale, dict(v.items()))
        return repr(v)
    except Exception as e:  # noqa: BLE001
        return "<unprintable %s>" % type(e).__name__


class Mono:
    """exact monomial scale * prod(name**exp): the reference for ParserHelper"""
    __slots__ = ("scale", "exps")

    def __init__(self, scale, exps):
        self.scale = scale
        self.exps = {k: v for k, v in exps.items() if v != 0}


def _ph_expected(tree, fraction):
    k = tree[0]
    if k == "n":
        return Fraction(tree[1]) if fraction else int(tree[1])
    if k == "v":
        return Mono(Fraction(1) if fraction else 1, {tree[1]: Fraction(1) if fraction else 1})
    if k == "neg":
        a = _ph_expected(tree[1], fraction)
        if isinstance(a, Mono):
            return Mono(a.scale * -1, a.exps)
        return a * -1
    a = _ph_expected(tree[1], fraction)
    b = _ph_expected(tree[2], fraction)
    am, bm = isinstance(a, Mono), isinstance(b, Mono)
    if not am and not bm:
        return _PYOPS[k](a, b)
    if k == "*":
        if am and bm:
            e = dict(a.exps)
            for n, v in b.exps.items():
                e[n] = e.get(n, 0) + v
            return Mono(a.scale * b.scale, e)
        return Mono(a.scale * b, a.exps) if am else Mono(a * b.scale, b.exps)
    if k == "/":
        if am and bm:
            e = dict(a.exps)
            for n, v in b.exps.items():
                e[n] = e.get(n, 0) - v
            return Mono(a.scale / b.scale, e)
        if am:
            return Mono(a.scale / b, a.exps)
        return Mono(a / b.scale, {n: -v for n, v in b.exps.items()})
    if k == "**" and am and not bm:
        return Mono(a.scale ** b, {n: v * b for n, v in a.exps.items()})
    raise _Undefined  # + - // % on monomials, monomial exponents: a monomial container cannot express it


def _ph_same(got, exp):
    if not isinstance(got, ParserHelper):
        return False
    if isinstance(exp, Mono):
        scale, exps = exp.scale, exp.exps
    else:
        scale, exps = exp, {}
    g = {k: v for k, v in got.items() if v != 0}
    if set(g) != set(exps) or any(g[k] != exps[k] for k in g):
        return False
    if scale == got.scale:
        return True
    try:
        return math.isclose(float(scale), float(got.scale), rel_tol=1e-12)
    except Exception:  # noqa: BLE001
        return False


def _render_named(toks, names, compact):
    """render with long names; the atoms test must use the abstract tokens"""
    out = [names.get(toks[0], toks[0])]
    for a, b in zip(toks, toks[1:]):
        bb = names.get(b, b)
        if not compact:
            out.append(" " + bb)
            continue
        if a in _ATOMS and b in _ATOMS:
            need = not (a in _NUMSET and b in _NAMESET)
        elif a in _BINONLY and b in _BINONLY:
            need = True
        else:
            need = False
        out.append(" " + bb if need else bb)
    return "".join(out)


def _alt_tag(got, exc, alt_value, same):
    """does pint's outcome (value or exception) coincide with the deviation model's outcome?"""
    try:
        alt = alt_value()
    except Exception:  # noqa: BLE001  (includes _Undefined)
        return "/juxtaposed-group-binds-tightest" if exc is not None else ""
    if exc is None and same(got, alt):
        return "/juxtaposed-group-binds-tightest"
    return ""


def _wrapq(path, v, ureg):
    if path.startswith("Quantity(") and not isinstance(v, ureg.Quantity):
        return ureg.Quantity(v)
    return v


class _TooBig(Exception):
    pass


def _guard_eval(t, env):
    """float evaluation that refuses anything that could be expensive in exact arithmetic"""
    k = t[0]
    if k == "n":
        return float(t[1])
    if k == "v":
        return env[t[1]]
    if k == "?":
        return 1.0
    if k == "neg":
        return -_guard_eval(t[1], env)
    a, b = _guard_eval(t[1], env), _guard_eval(t[2], env)
    try:
        if k == "**":
            if abs(b) > 2048:
                raise _TooBig
            r = a ** b
            if isinstance(r, complex):
                r = abs(r)
        else:
            r = _PYOPS[k](a, b)
    except OverflowError:
        raise _TooBig from None
    except ZeroDivisionError:
        return 1.0
    if r != r or abs(r) > 1e300:
        raise _TooBig
    return r


def _cheap_to_evaluate(toks, ref):
    """False if the reference tree or the tree pint builds (spaced / compact spelling) contains a power tower
    that exact (int / Fraction) arithmetic could not finish quickly."""
    trees = [ref] if ref is not None else []
    for st in (render_spaced(toks), render_compact(toks)):
        t, _ = pint_sym(string_preprocessor(st))
        if t is not None:
            trees.append(t)
    try:
        for t in trees:
            for env in ({"x": 1.75, "y": 0.625}, {"x": 1.0, "y": 1.0}):
                _guard_eval(t, env)
    except _TooBig:
        return False
    return True


def check_real(toks, stats, lite=False):
    """one sequence through the real entry points.  Returns problems (string, path, kind, detail).
    lite: only float registry x dimensional names, Fraction registry x dimensionless names, ParserHelper/float."""
    if has_plusminus(toks):
        return []
    try:
        ref = ref_parse(toks)
    except RefSyntaxError:
        ref = None
    if not _cheap_to_evaluate(toks, ref):
        stats["real_skipped_power_tower"] += 1
        return []
    regs = _registries()
    shorthand = has_shorthand(toks)
    percent = "%" in toks
    problems = []

    def run(fn):
        stats["real_evaluations"] += 1
        try:
            return fn(), None
        except Exception as e:  # noqa: BLE001
            return None, e

    # ---- registry paths ('%' is rewritten to the unit `percent` by the registry's default
    #      preprocessor, so it is not an operator there)
    if not percent:
        for regname in ("float", "fraction"):
            ureg = regs[regname]
            fraction = regname == "fraction"
            for mapname, names in _NAME_MAPS.items():
                if ref is None and not (regname == "float" and mapname == "dim"):
                    continue
                if lite and (regname, mapname) not in (("float", "dim"), ("fraction", "nodim")):
                    continue
                exp = exp_exc = None
                if ref is not None:
                    try:
                        exp = _q_expected(ref, ureg, names, fraction)
                    except Exception as e:  # noqa: BLE001
                        exp_exc = e
                for compact in (False, True):
                    if compact and shorthand:
                        continue
                    s = _render_named(toks, names, compact)
                    if compact and s == _render_named(toks, names, False):
                        continue
                    entries = [("parse_expression/%s" % regname, lambda s=s, u=ureg: u.parse_expression(s))]
                    if regname == "float" and mapname == "dim" and not compact:
                        entries.append(("Quantity(str)/float", lambda s=s, u=ureg: u.Quantity(s)))
                    for path, fn in entries:
                        got, exc = run(fn)

                        def tag(got=got, exc=exc, path=path):
                            return _alt_tag(got, exc,
                                            lambda: _wrapq(path, _q_expected(ref_parse(toks, True), ureg, names,
                                                                             fraction), ureg),
                                            lambda a, b: _result_same(a, b, ureg))
                        if ref is None:
                            if exc is None:
                                problems.append((s, path, "illformed-yields-value",
                                                 "ill-formed input evaluates to %s" % _brief(got)))
                            continue
                        want = exp
                        if path.startswith("Quantity(") and exp_exc is None and not isinstance(exp, ureg.Quantity):
                            want = ureg.Quantity(exp)
                        if exp_exc is not None:
                            if exc is None:
                                problems.append((s, path, "value-where-python-raises" + tag(),
                                                 "pint gives %s; Python operators on the quantities raise %s for %s"
                                                 % (_brief(got), type(exp_exc).__name__, show(ref))))
                            else:
                                stats["real_both_raise"] += 1
                        elif exc is not None:
                            problems.append((s, path, "rejected-wellformed" + tag(),
                                             "raises %s; Python operators give %s for %s"
                                             % (type(exc).__name__, _brief(want), show(ref))))
                        elif not _result_same(got, want, ureg):
                            problems.append((s, path, "wrong-value" + tag(),
                                             "pint gives %s; Python operators give %s for %s"
                                             % (_brief(got), _brief(want), show(ref))))
                        else:
                            stats["real_agree"] += 1
    # ---- ParserHelper
    for fraction in (False, True):
        nit = Fraction if fraction else float
        if (ref is None or lite) and fraction:
            continue
        exp = exp_exc = None
        if ref is not None:
            try:
                exp = _ph_expected(ref, fraction)
            except _Undefined:
                stats["parserhelper_outside_monomials"] += 1
                continue
            except Exception as e:  # noqa: BLE001
                exp_exc = e
        for compact in (False, True):
            if compact and shorthand:
                continue
            s = render_compact(toks) if compact else render_spaced(toks)
            if compact and s == render_spaced(toks):
                continue
            path = "ParserHelper.from_string/%s" % ("fraction" if fraction else "float")
            got, exc = run(lambda s=s, nit=nit: ParserHelper.from_string(s, nit))

            def tag(got=got, exc=exc):
                return _alt_tag(got, exc, lambda: _ph_expected(ref_parse(toks, True), fraction), _ph_same)
            if ref is None:
                if exc is None:
                    problems.append((s, path, "illformed-yields-value",
                                     "ill-formed input evaluates to %s" % _brief(got)))
                continue
            if exp_exc is not None:
                if exc is None:
                    problems.append((s, path, "value-where-python-raises" + tag(),
                                     "pint gives %s; arithmetic raises %s for %s"
                                     % (_brief(got), type(exp_exc).__name__, show(ref))))
                else:
                    stats["real_both_raise"] += 1
            elif exc is not None:
                problems.append((s, path, "rejected-wellformed" + tag(),
                                 "raises %s for %s" % (type(exc).__name__, show(ref))))
            elif not _ph_same(got, exp):
                want = "Mono(%r, %r)" % (exp.scale, exp.exps) if isinstance(exp, Mono) else repr(exp)
                problems.append((s, path, "wrong-value" + tag(),
                                 "pint gives %s; expected %s for %s" % (_brief(got), want, show(ref))))
            else:
                stats["real_agree"] += 1
    return problems


def _real_task(task):
    lite, seqs = task
    stats = _Stats()
    problems = []
    with warnings.catch_warnings():
        warnings.simplefilter("ignore")
        for toks in seqs:
            stats["real_sequences"] += 1
            for s, path, kind, detail in check_real(toks, stats, lite):
                problems.append((s, path, kind, detail, toks))
    vs = _merge_problems(problems, "tree-real")
    classes = {}
    for v in vs:
        key = v["kind"] + ":real-entry-points"
        classes[key] = classes.get(key, 0) + 1
    return dict(stats), len(vs), _keep(vs), classes


# --------------------------------------------------------------------------------------------------
# Part 2: literal typing
# --------------------------------------------------------------------------------------------------
_LITERALS = ["0", "2", "7", "10", "1000000", "2.5", "0.5", "10.25", ".5", "2.", "1e3", "1E3", "1.5E-2", "2e-1",
             "1e+2", "6.02e23"]


def _is_int_literal(s):
    return s.isdigit()


def _literal_expected(lit, regname):
    if regname == "float":
        return int(lit) if _is_int_literal(lit) else float(lit)
    if regname == "decimal":
        return Decimal(lit)
    return Fraction(lit)


def check_literal(lit, regname, form, regs):
    """-> None or 'what' string"""
    ureg = regs[regname]
    exp = _literal_expected(lit, regname)
    if form == "quantity":
        got = ureg.parse_expression(lit + " meter")
        mag = got.magnitude
        if got._units != ureg.UnitsContainer({"meter": 1}):
            return "units %r" % (dict(got._units._d),)
    elif form == "Quantity(str)":
        got = ureg.Quantity(lit + " meter")
        mag = got.magnitude
    elif form == "bare":
        mag = ureg.parse_expression(lit)
    elif form == "juxtaposed-nospace":
        mag = ureg.parse_expression(lit + "meter").magnitude if not lit.endswith(".") else exp
    elif form == "ParserHelper":
        nit = {"float": float, "decimal": Decimal, "fraction": Fraction}[regname]
        mag = ParserHelper.from_string(lit, nit).scale
    else:
        raise ValueError(form)
    if type(mag) is not type(exp) or mag != exp:
        return "literal %r in %s registry via %s read as %r (%s), expected %r (%s)" % (
            lit, regname, form, mag, type(mag).__name__, exp, type(exp).__name__)
    return None


_LIT_FORMS = ("quantity", "Quantity(str)", "bare", "juxtaposed-nospace", "ParserHelper")


def part_literals(regs):
    n = 0
    vs = []
    for regname in ("float", "decimal", "fraction"):
        for lit in _LITERALS:
            for form in _LIT_FORMS:
                n += 1
                try:
                    what = check_literal(lit, regname, form, regs)
                except Exception as e:  # noqa: BLE001
                    what = "literal %r in %s registry via %s raises %s: %s" % (
                        lit, regname, form, type(e).__name__, str(e)[:80])
                if what:
                    vs.append({"case": "literal:%s:%s:%s" % (regname, form, lit), "part": "literal",
                               "literal": lit, "registry": regname, "form": form, "what": what})
    return n, vs


# --------------------------------------------------------------------------------------------------
# Part 3: word forms / unicode / preprocessing catalogue
# --------------------------------------------------------------------------------------------------
def _catalogue(ureg):
    Q = ureg.Quantity

    def u(name):
        return Q(1, ureg.UnitsContainer({name: 1}))

    m, s, kg, cm, km, mm = u("meter"), u("second"), u("kilogram"), u("centimeter"), u("kilometer"), u("millimeter")
    N, J, K, h, deg = u("newton"), u("joule"), u("kelvin"), u("hour"), u("degree")
    cat = [
        ("meter per second", lambda: m / s),
        ("3 meter per second", lambda: 3 * m / s),
        ("meter squared", lambda: m ** 2),
        ("meter cubed", lambda: m ** 3),
        ("square meter", lambda: m ** 2),
        ("sq meter", lambda: m ** 2),
        ("cubic meter", lambda: m ** 3),
        ("2 square meter", lambda: 2 * m ** 2),
        ("5 cubic centimeter", lambda: 5 * cm ** 3),
        ("2 meter squared", lambda: 2 * m ** 2),
        ("meter per second squared", lambda: m / s ** 2),
        ("kilogram meter per second squared", lambda: kg * m / s ** 2),
        ("kilogram per cubic meter", lambda: kg / m ** 3),
        ("newton per square meter", lambda: N / m ** 2),
        ("4 meter squared per second", lambda: 4 * m ** 2 / s),
        ("square meter per second", lambda: m ** 2 / s),
        ("cubic meter per kilogram per second squared", lambda: m ** 3 / kg / s ** 2),
        ("sq kilometer", lambda: km ** 2),
        ("10 meter per second per second", lambda: 10 * m / s / s),
        ("kilometer per hour", lambda: km / h),
        ("3 kilometer per hour squared", lambda: 3 * km / h ** 2),
        ("joule per kilogram per kelvin", lambda: J / kg / K),
        ("2 meter cubed per second", lambda: 2 * m ** 3 / s),
        ("1 per second", lambda: 1 / s),
        ("meter squared * second cubed", lambda: m ** 2 * s ** 3),
        ("m²", lambda: m ** 2),
        ("m³", lambda: m ** 3),
        ("s⁻¹", lambda: s ** -1),
        ("m⁻²", lambda: m ** -2),
        ("m·s", lambda: m * s),
        ("m·s⁻¹", lambda: m * s ** -1),
        ("m²·s⁻²", lambda: m ** 2 * s ** -2),
        ("kg·m²·s⁻³", lambda: kg * m ** 2 * s ** -3),
        ("3 m²", lambda: 3 * m ** 2),
        ("m¹⁰", lambda: m ** 10),
        ("2 m/s²", lambda: 2 * m / s ** 2),
        ("9.81 m·s⁻²", lambda: 9.81 * m * s ** -2),
        ("(m·s)²", lambda: (m * s) ** 2),
        ("2²", lambda: 2 ** 2),
        ("2³ meter", lambda: 2 ** 3 * m),
        ("cm³", lambda: cm ** 3),
        ("mm²", lambda: mm ** 2),
        ("-2 m²", lambda: -2 * m ** 2),
        ("-m²", lambda: -(m ** 2)),
        ("1/s²", lambda: 1 / s ** 2),
        ("2 m² s⁻¹", lambda: 2 * m ** 2 * s ** -1),
        ("meter²second", lambda: m ** 2 * s),
        ("m/s/s", lambda: m / s / s),
        ("meter^2", lambda: m ** 2),
        ("meter^-1", lambda: m ** -1),
        ("2^3^2", lambda: 2 ** 3 ** 2),
        ("-2^2", lambda: -2 ** 2),
        ("1,000 meter", lambda: 1000 * m),
        ("45°", lambda: 45 * deg),
        ("2 meter    second", lambda: 2 * m * s),
        (" 2 meter ", lambda: 2 * m),
        ("2\tmeter", lambda: 2 * m),
        ("2 meter per 4 second", lambda: 2 * m / 4 * s),  # ' per ' is '/', so Python's rules give ((2 m)/4) s
        ("1/2 meter", lambda: 1 / 2 * m),
        ("meter/2 second", lambda: m / 2 * s),
        ("2 meter**2 second", lambda: 2 * m ** 2 * s),
        ("2**-1 meter", lambda: 2 ** -1 * m),
    ]
    try:
        from uncertainties import ufloat
    except ImportError:
        ufloat = None
    if ufloat is not None and pint_eval.HAS_UNCERTAINTIES:
        cat += [
            ("(2.0 +/- 0.3) meter", lambda: ufloat(2.0, 0.3) * m),
            ("2.0 +/- 0.3 meter", lambda: ufloat(2.0, 0.3) * m),
            ("(2.0 ± 0.3) meter", lambda: ufloat(2.0, 0.3) * m),
            ("2.0 ± 0.3 meter", lambda: ufloat(2.0, 0.3) * m),
            ("(8.0 +/- 4.0) meter per second", lambda: ufloat(8.0, 4.0) * m / s),
            ("(8.0 +/- 4.0) m·s⁻¹", lambda: ufloat(8.0, 4.0) * m * s ** -1),
            ("(2.0 +/- 0.3) meter squared", lambda: ufloat(2.0, 0.3) * m ** 2),
            ("2.0+/-0.3", lambda: ufloat(2.0, 0.3)),
            ("(2.0+/-0.3)", lambda: ufloat(2.0, 0.3)),
            ("meter * (2.0 +/- 0.3)", lambda: m * ufloat(2.0, 0.3)),
            ("(2.0 +/- 0.3) * meter", lambda: ufloat(2.0, 0.3) * m),
            ("3 * (2.0 +/- 0.5) meter", lambda: 3 * ufloat(2.0, 0.5) * m),
            ("(2.0 +/- 0.5) m²", lambda: ufloat(2.0, 0.5) * m ** 2),
            ("-(2.0 +/- 0.5) meter", lambda: -ufloat(2.0, 0.5) * m),
        ]
    return cat


def _value_close(got, exp, ureg):
    gq, eq = isinstance(got, ureg.Quantity), isinstance(exp, ureg.Quantity)
    if gq != eq:
        return False
    if gq:
        if got._units != exp._units:
            return False
        got, exp = got._magnitude, exp._magnitude
    gu, eu = hasattr(got, "std_dev"), hasattr(exp, "std_dev")
    if gu != eu:
        return False
    if gu:
        return (math.isclose(got.nominal_value, exp.nominal_value, rel_tol=1e-12)
                and math.isclose(got.std_dev, exp.std_dev, rel_tol=1e-12))
    if isinstance(got, bool) or isinstance(exp, bool):
        return False
    try:
        return math.isclose(got, exp, rel_tol=1e-12)
    except TypeError:
        return False


def check_catalogue_entry(string, expfn, ureg):
    exp = expfn() if expfn is not None else None
    whats = []
    for path, fn in (("parse_expression", ureg.parse_expression), ("Quantity(str)", ureg.Quantity)):
        try:
            got = fn(string)
        except Exception as e:  # noqa: BLE001
            if expfn is not None:
                whats.append("%s(%r) raises %s: %s; expected %s" % (path, string, type(e).__name__,
                                                                   str(e)[:60], _brief(exp)))
            continue
        if expfn is None:
            continue
        want = exp
        if path == "Quantity(str)" and not isinstance(exp, ureg.Quantity):
            want = ureg.Quantity(exp)
        if not _value_close(got, want, ureg):
            whats.append("%s(%r) = %s; Python operators give %s" % (path, string, _brief(got), _brief(want)))
    return whats


def part_catalogue(regs):
    ureg = regs["float"]
    cat = _catalogue(ureg)
    vs = []
    n = 0
    with warnings.catch_warnings():
        warnings.simplefilter("ignore")
        for string, expfn in cat:
            n += 2
            whats = check_catalogue_entry(string, expfn, ureg)
            if whats:
                vs.append({"case": "catalogue:" + string, "part": "catalogue", "string": string,
                           "what": "; ".join(whats)})
    return n, len(cat), vs


# --------------------------------------------------------------------------------------------------
# Part 4: no code execution
# --------------------------------------------------------------------------------------------------
_HOSTILE = [
    # (string, must_raise): must_raise = a value could only come from something other than arithmetic
    # on numbers and registry units (the names used are not units)
    ("__import__('os').system('true')", True),
    ("__import__('os')", True),
    ("().__class__", True),
    ("().__class__.__bases__[0].__subclasses__()", True),
    ("open('/etc/passwd')", True),
    ("open('/etc/passwd').read()", True),
    ("x.y", True),
    ("meter.magnitude", True),
    ("meter.units", False),  # "units" resolves as micro-nit: a registry lookup
    ("meter.__class__", True),
    ("meter._REGISTRY", True),
    ("meter.to('cm')", True),
    ("meter.m", False),  # both are unit symbols: may be read as arithmetic on units
    ("lambda: 1", False),  # `lambda` is a unit of the default registry
    ("(lambda: 1)()", True),
    ("[1,2]", False),
    ("[1,2][0]", False),
    ("{1: 2}", False),
    ("{'a': 1}['a']", False),
    ("meter; import os", True),
    ("meter\nimport os", True),
    ("import os", True),
    ("exec('1')", True),
    ("eval('1')", True),
    ("compile('1', 'f', 'eval')", True),
    ("f'{1}'", False),
    ("f\"{__import__('os').getpid()}\"", True),
    ("(y := 2)", True),
    ("(meter := 2)", False),
    ("getattr(meter, 'magnitude')", True),
    ("globals()", True),
    ("locals()", True),
    ("vars()", True),
    ("dir()", True),
    ("print(1)", True),
    ("input()", True),
    ("breakpoint()", True),
    ("exit()", True),
    ("__builtins__", True),
    ("__builtins__.__dict__", True),
    ("__loader__", True),
    ("os.system('true')", True),
    ("subprocess.Popen('true')", True),
    ("socket.socket()", True),
    ("meter if 1 else second", True),
    ("[m for m in (1,2)]", True),
    ("meter and second", True),
    ("not meter", True),
    ("1 if True else 2", True),
    ("meter[0]", False),
    ("meter(2)", False),
    ("meter()", True),
    ("2 .real", True),
    ("(2).bit_length()", True),
    ("'meter'", True),
    ("\"meter\" * 2", True),
    ("b'meter'", True),
    ("meter @ second", False),
    ("~2", False),
    ("2 << 3", False),
    ("2 | 3", False),
    ("2 == 2", False),
    ("2 < 3", False),
    ("*meter", True),
    ("**{'a': 1}", True),
    ("await meter", True),
    ("yield", True),
    ("...", True),
    ("1 +", True),
    ("((2)", True),
    ("2))", True),
    ("\\", True),
    ("#", True),
    ("# comment", True),
    ("\x00", True),
    ("0x10 meter", False),
    ("1_000 meter", False),
    ("1j", False),
    ("10**10**2", False),
]

_AUDIT_DENY_EXACT = frozenset((
    "exec", "compile", "import", "open", "os.system", "os.exec", "os.fork", "os.forkpty", "os.posix_spawn",
    "os.spawn", "os.startfile", "subprocess.Popen", "builtins.input", "builtins.breakpoint", "os.remove",
    "os.rename", "os.rmdir", "os.mkdir", "os.putenv", "os.listdir", "os.scandir", "shutil.rmtree",
    "ctypes.dlopen", "pty.spawn", "marshal.loads", "pickle.find_class", "code.__new__", "function.__new__",
))
_AUDIT_DENY_PREFIX = ("socket.", "urllib.", "http.", "ftplib.", "smtplib.", "webbrowser.", "winreg.")
_PROFILE_DENY_BUILTINS = frozenset(("eval", "exec", "compile", "__import__", "open", "input", "breakpoint"))
_PROFILE_DENY_MODULES = frozenset(("posix", "nt", "os", "subprocess", "_posixsubprocess", "_socket", "socket",
                                   "_io", "io", "marshal", "_pickle", "pickle", "_ctypes", "ctypes", "importlib",
                                   "_imp"))

_AUDIT = {"installed": False, "recording": False, "events": [], "benign": []}


def _audit_hook(event, args):
    if not _AUDIT["recording"]:
        return
    if event in _AUDIT_DENY_EXACT or event.startswith(_AUDIT_DENY_PREFIX):
        try:
            brief = repr(args)[:120]
        except Exception:  # noqa: BLE001
            brief = "?"
        if event == "open" and args and args[0] == "<string>" and args[1] in ("r", "rb"):
            # CPython itself: when its C tokenizer raises a SyntaxError it looks for the source line of the
            # pseudo file name "<string>" (fixed name, read-only, not controlled by the input).  Recorded as an
            # observation, not as I/O caused by the parsed text.
            _AUDIT["benign"].append("audit:%s%s" % (event, brief))
            return
        _AUDIT["events"].append("audit:%s%s" % (event, brief))


def _profile_hook(frame, event, arg):
    if event == "c_call":
        name = getattr(arg, "__name__", "")
        mod = getattr(arg, "__module__", None)
        if mod == "builtins" and name in _PROFILE_DENY_BUILTINS:
            _AUDIT["events"].append("c_call:builtins.%s" % name)
        elif mod in _PROFILE_DENY_MODULES:
            _AUDIT["events"].append("c_call:%s.%s" % (mod, name))


def _install_audit():
    if not _AUDIT["installed"]:
        sys.addaudithook(_audit_hook)
        _AUDIT["installed"] = True


def _plain_result(r, ureg):
    """a value that arithmetic on numbers and registry units can produce"""
    if isinstance(r, ureg.Quantity):
        r = r._magnitude
    if isinstance(r, ParserHelper):
        r = r.scale
    if hasattr(r, "std_dev") and hasattr(r, "nominal_value"):
        return True
    return isinstance(r, (int, float, complex, Fraction, Decimal)) and not isinstance(r, bool)


def _hostile_entries(ureg):
    return (("parse_expression", ureg.parse_expression),
            ("Quantity(str)", ureg.Quantity),
            ("ParserHelper.from_string", lambda s: ParserHelper.from_string(s)))


def check_hostile(string, must_raise, ureg):
    """-> (list of what-strings, evaluations, {entry: outcome})"""
    _install_audit()
    whats = []
    outcomes = {}
    n = 0
    with warnings.catch_warnings():
        warnings.simplefilter("ignore")
        for recording in (False, True):  # first pass: warm-up (lazy imports, lazy prefixed units, caches)
            ParserHelper.from_string.cache_clear()
            for path, fn in _hostile_entries(ureg):
                del _AUDIT["events"][:]
                del _AUDIT["benign"][:]
                old_profile = sys.getprofile()
                if recording:
                    _AUDIT["recording"] = True
                    sys.setprofile(_profile_hook)
                try:
                    try:
                        r = fn(string)
                        exc = None
                    except Exception as e:  # noqa: BLE001
                        r, exc = None, e
                finally:
                    sys.setprofile(old_profile)
                    _AUDIT["recording"] = False
                if not recording:
                    continue
                n += 1
                events = sorted(set(_AUDIT["events"]))
                if _AUDIT["benign"]:
                    outcomes["_benign_open_of_pseudo_file_<string>"] = "seen"
                if events:
                    whats.append("%s(%r) caused %s" % (path, string, ", ".join(events[:4])))
                if exc is None:
                    outcomes[path] = _brief(r)
                    if not _plain_result(r, ureg):
                        whats.append("%s(%r) returned non-arithmetic object %s" % (path, string, _brief(r)[:80]))
                    elif must_raise and path != "ParserHelper.from_string":
                        whats.append("%s(%r) returned %s although the string names no units/arithmetic"
                                     % (path, string, _brief(r)[:80]))
                else:
                    outcomes[path] = "raises " + type(exc).__name__
    return whats, n, outcomes


def part_hostile(regs):
    ureg = regs["float"]
    ureg.parse_expression("2 meter")
    vs = []
    n = 0
    values = {}
    benign = []
    for string, must_raise in _HOSTILE:
        whats, k, outcomes = check_hostile(string, must_raise, ureg)
        n += k
        if outcomes.pop("_benign_open_of_pseudo_file_<string>", None):
            benign.append(string)
        vals = {p: o for p, o in outcomes.items() if not o.startswith("raises ")}
        if vals:
            values[string] = vals
        if whats:
            vs.append({"case": "hostile:" + string, "part": "hostile", "string": string,
                       "must_raise": must_raise, "what": "; ".join(whats)})
    return n, vs, values, benign


# --------------------------------------------------------------------------------------------------
# Part 1c: "a dangling operator never yields a value" must not depend on `assert` statements being enabled:
# the same ill-formed sequences in a child interpreter started with -O
# --------------------------------------------------------------------------------------------------
def _optimized_child(strings=None):
    """runs in `python -O`; -> {"checked": n, "values": {string: repr}}"""
    import itertools
    if strings is None:
        strings = []
        for L in (1, 2, 3):
            for p in itertools.product(ALPHABET, repeat=L):
                if not dfa_wellformed(p) and not has_plusminus(p):
                    strings.append(render_spaced(p))
    values = {}
    for st in strings:
        try:
            r = ParserHelper.from_string(st)
        except Exception:  # noqa: BLE001
            continue
        values[st] = _brief(r)
    return {"debug": __debug__, "checked": len(strings), "values": values}


def _start_optimized_child(strings=None):
    import subprocess
    root = os.path.dirname(os.path.dirname(os.path.abspath(__file__)))
    env = dict(os.environ)
    env["PYTHONPATH"] = root + os.pathsep + env.get("PYTHONPATH", "")
    code = ("import json,sys; from standins import c07_eval as m; "
            "print(json.dumps(m._optimized_child(json.loads(sys.stdin.read()))))")
    proc = subprocess.Popen([sys.executable, "-O", "-c", code], stdin=subprocess.PIPE, stdout=subprocess.PIPE,
                            stderr=subprocess.PIPE, env=env, cwd=root, text=True)
    proc.stdin.write(json.dumps(strings))
    proc.stdin.close()
    return proc


def _finish_optimized_child(proc):
    out = proc.stdout.read()
    err = proc.stderr.read()
    if proc.wait() != 0:
        raise RuntimeError("python -O child failed: " + err[-500:])
    res = json.loads(out.strip().splitlines()[-1])
    if res["debug"]:
        raise RuntimeError("child did not run with -O")
    return res


def part_optimized(proc):
    res = _finish_optimized_child(proc)
    vs = []
    for st, val in sorted(res["values"].items(), key=lambda kv: (len(kv[0].split()), kv[0])):
        vs.append({"case": "tree-O:" + st, "part": "tree-O", "string": st, "kind": "illformed-yields-value-under-python-O",
                   "what": "under `python -O` (assert statements disabled) ParserHelper.from_string(%r) returns %s; "
                           "with asserts enabled it raises AssertionError" % (st, val)})
    return res["checked"], vs


# --------------------------------------------------------------------------------------------------
# driver
# --------------------------------------------------------------------------------------------------
def _all_regs():
    regs = dict(_registries())
    if "decimal" not in regs:
        regs["decimal"] = _REG.setdefault("decimal", pint.UnitRegistry(non_int_type=Decimal))
    return regs


def _chunks(lst, n):
    for i in range(0, len(lst), n):
        yield lst[i:i + n]


def run(tier: str = "quick", seed: int = 0, **kw) -> dict:
    t0 = time.time()
    tm0 = os.times()
    cfg = dict(TIERS[tier])
    cfg.update({k: v for k, v in kw.items() if k in cfg})
    workers = int(kw.get("workers", 16))
    n_all, n_wf = cfg["n_all"], cfg["n_wf"]

    _registries()  # before forking: children inherit the registries

    # ---- tasks
    tasks = []
    for t in ALPHABET:
        tasks.append(("all", (t,), 1))
    plen = min(n_all, 2 if n_all <= 6 else 3)
    import itertools
    for L in range(2, plen):
        for p in itertools.product(ALPHABET, repeat=L):
            tasks.append(("all", p, L))
    for p in itertools.product(ALPHABET, repeat=plen):
        tasks.append(("all", p, n_all))
    for L in range(n_all + 1, n_wf + 1):
        wplen = 2 if L <= 6 else 3
        for p in itertools.product(ALPHABET, repeat=wplen):
            if _prefix_state(p) is not None:
                tasks.append(("wf", p, L))
    # biggest first
    tasks.sort(key=lambda t: (-(t[2]), t[0]))

    real_wf, real_wf_lite = [], []
    for L in range(1, cfg["n_real_wf"] + 1):
        (real_wf_lite if L >= 6 else real_wf).extend(_gen_wellformed((), L))
    real_ill = []
    for L in range(1, cfg["n_real_ill"] + 1):
        for p in itertools.product(ALPHABET, repeat=L):
            if not dfa_wellformed(p) and "%" not in p:
                real_ill.append(p)
    real_tasks = ([(True, c) for c in _chunks(real_wf_lite, 300)] + [(False, c) for c in _chunks(real_wf, 200)]
                  + [(False, c) for c in _chunks(real_ill, 1000)])

    ctx = multiprocessing.get_context("fork")
    stats = _Stats()
    classes = {}
    tree_violations = []
    tree_violation_count = 0
    with ctx.Pool(min(workers, 16)) as pool:
        r_enum = pool.imap_unordered(_enum_task, tasks, chunksize=1)
        r_real = pool.imap_unordered(_real_task, real_tasks, chunksize=1)
        t_parts = time.time()
        child = _start_optimized_child() if kw.get("check_optimized", True) else None
        regs = _all_regs()
        n_lit, v_lit = part_literals(regs)
        n_cat, cat_entries, v_cat = part_catalogue(regs)
        n_host, v_host, hostile_values, hostile_benign = part_hostile(regs)
        n_opt, v_opt = part_optimized(child) if child is not None else (0, [])
        t_parts = time.time() - t_parts
        for res in (r_real, r_enum):
            for st, cnt, vs, cl in res:
                _merge_stats(stats, st)
                tree_violation_count += cnt
                tree_violations.extend(vs)
                for k, v in cl.items():
                    classes[k] = classes.get(k, 0) + v
        pool.close()
        pool.join()
    tm1 = os.times()
    cpu_seconds = (tm1.user + tm1.system + tm1.children_user + tm1.children_system) - (
        tm0.user + tm0.system + tm0.children_user + tm0.children_system)

    # one entry per string across the symbolic and real paths
    by = {}
    for v in sorted(tree_violations, key=lambda v: (v["part"] != "tree", _vkey(v))):
        o = by.get(v["string"])
        if o is None:
            by[v["string"]] = v
        else:
            o["paths"] = o["paths"] + [p for p in v["paths"] if p not in o["paths"]]
            o["what"] += " | " + v["what"]
    tree_violations = sorted(by.values(), key=_vkey)

    other = v_lit + v_cat + v_host + v_opt[:4]
    # representative selection: the other parts first, then round-robin over classes (kind + paths), classes
    # without a recognised root cause first, shortest inputs first
    groups = {}
    for v in tree_violations:
        groups.setdefault(_signature(v), []).append(v)
    picked = list(other[:15])
    room = 25 - len(picked)
    # unrecognised root causes first, then what a public pipeline shows, then fewest tokens
    order = sorted(groups, key=lambda k: ("/" in k[0], not k[1], _vkey(groups[k][0])))
    i = 0
    while room > 0 and any(groups[k] for k in order):
        k = order[i % len(order)]
        if groups[k]:
            picked.append(groups[k].pop(0))
            room -= 1
        i += 1
    # confirm the reported symbolic ones through the real entry points (cheap: <= 25 strings)
    with warnings.catch_warnings():
        warnings.simplefilter("ignore")
        for v in picked:
            if v.get("part") == "tree" and len(v["tokens"]) <= 9:
                pr = check_real(tuple(v["tokens"]), _Stats())
                v["real_entry_points"] = ["%s %r: %s" % (p[1], p[0], p[3][:160]) for p in pr][:4] or \
                    ["no disagreement at the real entry points for this token sequence"]
    violation_count = tree_violation_count + len(v_lit) + len(v_cat) + len(v_host) + len(v_opt)

    samples = [
        {"tokens": "- 2 ** 2", "reference": show(ref_parse(("-", "2", "**", "2"))),
         "pint": show(pint_sym("- 2 ** 2")[0])},
        {"tokens": "x / y ( 2 + 3 )", "reference": show(ref_parse(tuple("x / y ( 2 + 3 )".split()))),
         "pint_preprocessed_spaced": show(pint_sym(string_preprocessor("x / y ( 2 + 3 )"))[0]),
         "pint_preprocessed_compact": show(pint_sym(string_preprocessor("x/y(2+3)"))[0])},
        {"tokens": "2 ** 3 ^ - x y", "reference": show(ref_parse(tuple("2 ** 3 ^ - x y".split())))},
        {"tokens": "( x + )", "reference": "ill-formed", "pint": pint_sym("( x + )")[1]},
        {"catalogue": "kilogram meter per second squared", "expected": "kg*m/s**2"},
        {"hostile": "__import__('os').system('true')", "expected": "raises, no audit events"},
    ]
    evaluations = stats.get("evaluations", 0) + stats.get("real_evaluations", 0) + n_lit + n_cat + n_host + n_opt
    n_seq = stats.get("wellformed", 0) + stats.get("illformed", 0)
    exc_hist = {k[4:]: v for k, v in stats.items() if k.startswith("exc:")}
    out = {
        "name": NAME,
        "tier": tier,
        "bound": ("all %d token sequences of length 1..%d over the 14-token alphabet {2,3,x,y,+,-,*,/,//,%%,**,^,(,)} "
                  "(adjacent operands = juxtaposition; the %d sequences containing '+ / -' excluded as pint's '+/-' "
                  "operator) plus all well-formed sequences of length %d..%d (%d sequences checked, %d well-formed), "
                  "on symbolic atoms through the real tokenizer + build_eval_tree + evaluate: up to length %d raw, after "
                  "string_preprocessor in spaced and compact spelling, and for well-formed ones also with the plain "
                  "tokenizer and in a wide spelling; above that raw plus the preprocessed compact spelling whenever the "
                  "sequence has a juxtaposition or '^'; all well-formed sequences of length <=%d and all ill-formed "
                  "'%%'-free ones of length <=%d (%d sequences) through parse_expression (float and Fraction registry, "
                  "dimensional and dimensionless unit names), Quantity(str) and ParserHelper.from_string; all %d "
                  "ill-formed sequences of length <=3 through ParserHelper.from_string under `python -O`; %d "
                  "literal-typing checks (%d literals x 3 registries x %d forms); %d catalogue strings (word forms, "
                  "unicode, preprocessing, uncertainties) x 2 entry points; %d hostile strings x 3 entry points under "
                  "an audit hook and a profile hook"
                  % (sum(14 ** i for i in range(1, n_all + 1)), n_all, stats.get("excluded_plusminus", 0),
                     n_all + 1, n_wf, n_seq, stats.get("wellformed", 0), n_all, cfg["n_real_wf"], cfg["n_real_ill"],
                     stats.get("real_sequences", 0), n_opt, n_lit, len(_LITERALS), len(_LIT_FORMS), cat_entries,
                     len(_HOSTILE))),
        "evaluations": evaluations,
        "distinct_nontrivial": stats.get("nontrivial", 0) + cat_entries + len(_HOSTILE),
        "rule": ("lexicographic enumeration of token tuples (complete up to length n_all, then grammar-directed "
                 "enumeration of every well-formed tuple up to n_wf); a tree case is non-trivial when it is well-formed "
                 "and its reference tree has >= 2 operator applications (so grouping is a real choice); every "
                 "catalogue / hostile string counts once; no random choices are made (seed unused)"),
        "exhaustive": True,
        "violations": picked[:25],
        "violation_count": violation_count,
        "samples": samples,
        # ---- extra keys
        "tree": {
            "sequences": n_seq,
            "wellformed": stats.get("wellformed", 0),
            "illformed": stats.get("illformed", 0),
            "excluded_plusminus_spelling": stats.get("excluded_plusminus", 0),
            "raw_and_compact_skipped_uncertainty_shorthand_spelling": stats.get("skipped_shorthand_spelling", 0),
            "python_ast_crosschecked": stats.get("python_crosschecked", 0),
            "symbolic_evaluations": stats.get("evaluations", 0),
            "real_entry_evaluations": stats.get("real_evaluations", 0),
            "structural_only_differences": stats.get("structural_only_difference", 0),
            "pint_exception_histogram_symbolic": exc_hist,
            "real_entry_sequences": stats.get("real_sequences", 0),
            "real_entry_agree": stats.get("real_agree", 0),
            "real_entry_both_raise": stats.get("real_both_raise", 0),
            "parserhelper_outside_monomials": stats.get("parserhelper_outside_monomials", 0),
            "violating_strings": tree_violation_count,
            "violation_classes": dict(sorted(classes.items())),
        },
        "tree_under_python_O": {"illformed_sequences_len_le_3": n_opt, "yield_a_value": len(v_opt)},
        "literal": {"checks": n_lit, "violations": len(v_lit)},
        "catalogue": {"entries": cat_entries, "checks": n_cat, "violations": len(v_cat)},
        "hostile": {"entries": len(_HOSTILE), "checks": n_host, "violations": len(v_host),
                    "strings_that_evaluate": hostile_values,
                    "observation_cpython_tokenizer_error_opens_pseudo_file_<string>": hostile_benign},
        "config": cfg,
        "seconds": round(time.time() - t0, 1),
        "cpu_seconds_all_processes": round(cpu_seconds, 1),
        "seconds_parts_2_3_4": round(t_parts, 1),
    }
    return out


def replay(data: dict) -> bool:
    part = data.get("part") or data["case"].split(":", 1)[0]
    if part in ("tree", "tree-real"):
        toks = data.get("tokens")
        if not toks:  # recover the tokens from the string
            inv = {v: k for mp in _NAME_MAPS.values() for k, v in mp.items()}
            toks = [inv.get(t.string, t.string) for t in pint_eval.plain_tokenizer(data["string"])
                    if t.string.strip()]
        toks = tuple(toks)
        if not all(t in ALPHABET for t in toks):
            raise ValueError("not a sequence over the alphabet: %r" % (toks,))
        if check_sequence(toks, _Stats(), True, True):
            return False
        if len(toks) <= 9:
            with warnings.catch_warnings():
                warnings.simplefilter("ignore")
                if check_real(toks, _Stats()):
                    return False
        return True
    if part == "tree-O":
        res = _finish_optimized_child(_start_optimized_child([data["string"]]))
        return not res["values"]
    regs = _all_regs()
    if part == "literal":
        try:
            return check_literal(data["literal"], data["registry"], data["form"], regs) is None
        except Exception:  # noqa: BLE001
            return False
    if part == "catalogue":
        for string, expfn in _catalogue(regs["float"]):
            if string == data["string"]:
                with warnings.catch_warnings():
                    warnings.simplefilter("ignore")
                    return not check_catalogue_entry(string, expfn, regs["float"])
        raise KeyError(data["string"])
    if part == "hostile":
        must = data.get("must_raise")
        if must is None:
            must = dict(_HOSTILE).get(data["string"], True)
        return not check_hostile(data["string"], must, regs["float"])[0]
    raise ValueError("unknown part %r" % (part,))


if __name__ == "__main__":
    import argparse

    ap = argparse.ArgumentParser()
    ap.add_argument("--tier", default="quick")
    ap.add_argument("--seed", type=int, default=0)
    a = ap.parse_args()
    print(json.dumps(run(a.tier, a.seed), indent=1, default=str, ensure_ascii=False))
