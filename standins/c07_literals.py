"""Bounded stand-in (C07, supplementary): the lexical forms of numeric literals.

"Evaluating an expression string yields the same quantity as evaluating the expression with Python's
operators ... Numeric literals keep the registry's numeric type (integers stay integers)."

A grammar of decimal NUMBER spellings of Python (decinteger / pointfloat / exponentfloat of the language
reference, with `_` group separators, leading zeros where the grammar allows them, both exponent letters, all
exponent signs, integers far above 2**53, floats at the edges of the double range) is enumerated; a spelling
is kept iff Python itself reads it as ONE literal (`tokenize` gives a single NUMBER token and
`ast.literal_eval` succeeds).  Each literal is put into contexts (alone; with a unit, with and without
blank / explicit *; as exponent of a unit and of a quantity; negated; in sums / differences with integers
above 2**53; in // (and % for ParserHelper)) and sent through
    ureg(<str>), ureg.parse_expression(<str>), ureg.Quantity(<str>), ParserHelper.from_string(<str>, T).scale
for registries with non_int_type float, decimal.Decimal, fractions.Fraction.

Reference (never calls the tokenizer / preprocessor / eval-token code of pint):
  * the exact rational value R of the spelling, computed here from its digits (underscores dropped);
  * float registry:    v = ast.literal_eval(<lit>)  (Python's own reading: `int` with value R for a decinteger,
                       correctly rounded `float` otherwise);
    Decimal registry:  v = Decimal(<lit without underscores>), checked == R;   Fraction registry: v = Fraction(R);
  * the context's expression evaluated with Python's operators on v and on the named quantity
    M = ureg.Quantity(1, "meter")   (for ParserHelper: on v and plain numbers; a unit exponent is 1 * v, i.e. it is
    subject to the Decimal context like any other product).
BOTH the type and the exact value of the magnitude / scale (and of unit exponents) are compared; if the
reference raises (e.g. Decimal DivisionImpossible) pint has to raise as well.

Other NUMBER spellings of Python (hex / octal / binary / imaginary) are not part of pint's expression language
("2J" is two joule, "0x10" is read as 0 * x10 and fails on the unknown unit).  They are only checked for silent
mis-evaluation: the result may be an error, Python's value, or something carrying a further unit name -- never a
bare number (or bare `meter` quantity) different from Python's value.
"""
from __future__ import annotations

import ast
import decimal
import io
import json
import math
import sys
import time
import tokenize
from decimal import Decimal
from fractions import Fraction

NAME = "c07_literals"
BIG = "9007199254740992"  # 2**53

# ------------------------------------------------------------------ the literal grammar
INTS_Q = ["0", "00", "0_0", "1", "2", "3", "7", "10", "1_0", "42", "64", "6_4", "255", "1000", "1_000", "1_0_0",
          "9007199254740992", "9007199254740993", "9_007_199_254_740_993", "18446744073709551616",
          "18_446_744_073_709_551_617", "123456789012345678901234567890", "1_000_000_000_000_000_000_000_000_000_001"]
INTS_T = ["000", "0_00", "9", "12", "1_2", "99", "100", "1_00", "10_0", "65", "4_294_967_296", "4294967297",
          "9007199254740991", "9007199254740994", "9_0_0_7_1_9_9_2_5_4_7_4_0_9_9_3", "36893488147419103233",
          "340282366920938463463374607431768211457", "1" + "0" * 40, "1" + "_000" * 12 + "_007"]
IP_Q = ["", "0", "1", "1_0", "00", "12", "01"]
FP_Q = ["", "0", "5", "5_5", "25", "000_1", "50"]
IP_T = IP_Q + ["7", "0_0", "0_1", "007", "1_000", "9007199254740993", "123456789012345678901234567890"]
FP_T = FP_Q + ["1", "00", "0_0", "125", "1_2_5", "3333333333333333333333333333333333", "000000000000000000000000000001"]
MANT_Q = ["1", "1_0", "0", "00", "12", "1.", ".5", "1.5", "1_0.5", "1.5_5", "0.0"]
MANT_T = MANT_Q + ["7", "007", "0_1", "2.", "0.", ".0", "00.5", "1_0.", ".2_5", "1_2.2_5", "9007199254740993", "6.02214076"]
EXPD_Q = ["0", "3", "1_0", "03"]
EXPD_T = EXPD_Q + ["00", "2_2", "1", "007", "23", "0_0"]
SPECIAL = ["1e400", "1e-400", "1E+400", "1e308", "1.7976931348623157e308", "1.7976931348623159e308", "5e-324", "2e-324",
           "0.1", "0.30000000000000004", "9007199254740993.0", "9007199254740993.", "1e22", "1e23",
           "123456789012345678901234567890.5", "0.1e1", "2.5e-1", "1e1", "6.4e1", "0.5", "2.0", "3.", "1e0", "2E0", "6_4.0"]
FOREIGN = ["0x10", "0X1F", "0xff", "0x1_0", "0xe", "0x0", "0o17", "0O7", "0o1_0", "0b11", "0B101", "0b0", "0b1_1",
           "1j", "1J", "2j", "2J", "0j", "1.5j", "1e3j", "1_0j", ".5J"]


def spellings(tier):
    ints = INTS_Q + (INTS_T if tier == "thorough" else [])
    ip, fp = (IP_T, FP_T) if tier == "thorough" else (IP_Q, FP_Q)
    mant, expd = (MANT_T, EXPD_T) if tier == "thorough" else (MANT_Q, EXPD_Q)
    out = list(ints)
    out += [a + "." + b for a in ip for b in fp if a or b]
    out += [m + e + s + d for m in mant for e in "eE" for s in ("", "+", "-") for d in expd]
    out += SPECIAL
    seen, res = set(), []
    for s in out:
        if s not in seen:
            seen.add(s)
            res.append(s)
    return res


def python_reads_as_one_literal(s):
    try:
        toks = [t for t in tokenize.generate_tokens(io.StringIO(s).readline)
                if t.type not in (tokenize.NEWLINE, tokenize.NL, tokenize.ENDMARKER)]
    except (tokenize.TokenError, SyntaxError):
        return False
    if len(toks) != 1 or toks[0].type != tokenize.NUMBER or toks[0].string != s:
        return False
    try:
        v = ast.literal_eval(s)
    except (SyntaxError, ValueError):
        return False
    return type(v) in (int, float)


def exact_value(lit):
    """Exact rational of a decimal literal, from its digits (independent of int()/float()/Decimal())."""
    clean = lit.replace("_", "")
    low = clean.lower()
    mant, _, ex = low.partition("e")
    ipart, _, fpart = mant.partition(".")
    digits = (ipart + fpart) or "0"
    n = 0
    for ch in digits:
        n = n * 10 + "0123456789".index(ch)
    e = 0
    if ex:
        sign = -1 if ex[0] == "-" else 1
        for ch in ex.lstrip("+-"):
            e = e * 10 + "0123456789".index(ch)
        e *= sign
    e -= len(fpart)
    return Fraction(n * 10**e) if e >= 0 else Fraction(n, 10**(-e))


def is_int_spelling(lit):
    return not any(c in lit for c in ".eE")


KINDS = ("float", "dec", "frac")
NT = {"float": float, "dec": Decimal, "frac": Fraction}
_REGS = {}


def get_reg(kind):
    import pint

    if kind not in _REGS:
        _REGS[kind] = pint.UnitRegistry() if kind == "float" else pint.UnitRegistry(non_int_type=NT[kind])
    return _REGS[kind]


def refval(kind, lit):
    """The reference reading of a literal in a registry of the given numeric kind."""
    R = exact_value(lit)
    if kind == "float":
        v = ast.literal_eval(lit)
        if is_int_spelling(lit):
            assert type(v) is int and v == R, (lit, v, R)
        else:
            assert type(v) is float, (lit, v)
            if Fraction(1, 10**300) < abs(R) < 10**300:
                assert abs(Fraction(v) - R) <= abs(R) * Fraction(1, 2**52), (lit, v, R)
        return v
    if kind == "dec":
        clean = lit.replace("_", "")
        v = Decimal(clean)
        assert Fraction(v) == R, (lit, v, R)  # Decimal construction is exact
        return v
    return Fraction(R)


def small(kind, text):
    return refval(kind, text)


# ------------------------------------------------------------------ contexts
# name -> (template, applicable(R), reference for registry entry points f(v, kind, M), reference for ParserHelper g(v, kind))
def _ok_exp(R):
    return 0 <= R <= 64


def _any(R):
    return True


def _ph_unit(v, kind):
    return ("scale+units", v * 1, {"meter": 1})


CONTEXTS = {
    "alone": ("{L}", _any, lambda v, k, M: v, lambda v, k: ("scale+units", v, {})),
    "unit": ("{L} meter", _any, lambda v, k, M: v * M, _ph_unit),
    "unit-nospace": ("{L}meter", _any, lambda v, k, M: v * M, _ph_unit),
    "unit-star": ("{L}*meter", _any, lambda v, k, M: v * M, _ph_unit),
    "unit-first": ("meter * {L}", _any, lambda v, k, M: M * v, lambda v, k: ("scale+units", 1 * v, {"meter": 1})),
    "exp-unit": ("meter ** {L}", _ok_exp, lambda v, k, M: M ** v, lambda v, k: ("exponent", "meter", 1 * v)),
    "exp-caret": ("meter^{L}", _ok_exp, lambda v, k, M: M ** v, lambda v, k: ("exponent", "meter", 1 * v)),
    "exp-qty": ("(2 meter) ** {L}", _ok_exp, lambda v, k, M: (small(k, "2") * M) ** v,
                lambda v, k: ("scale+exponent", small(k, "2") ** v, "meter", 1 * v)),
    "neg": ("-{L}", _any, lambda v, k, M: -v, lambda v, k: ("scale+units", -v, {})),
    "neg-unit": ("-{L} meter", _any, lambda v, k, M: -v * M, lambda v, k: ("scale+units", -v * 1, {"meter": 1})),
    "sum": ("{L} + 1", _any, lambda v, k, M: v + small(k, "1"), lambda v, k: ("scale+units", v + small(k, "1"), {})),
    "diff-big": ("{L} - " + BIG, _any, lambda v, k, M: v - small(k, BIG), lambda v, k: ("scale+units", v - small(k, BIG), {})),
    "big-diff": ("9_007_199_254_740_993 - {L}", _any, lambda v, k, M: small(k, "9007199254740993") - v,
                 lambda v, k: ("scale+units", small(k, "9007199254740993") - v, {})),
    "diff-unit": ("{L} meter - " + BIG + " meter", _any, lambda v, k, M: v * M - small(k, BIG) * M, None),
    "floordiv": ("{L} // 7", _any, lambda v, k, M: v // small(k, "7"), lambda v, k: ("scale+units", v // small(k, "7"), {})),
    "floordiv-by": ("1000 // {L}", lambda R: R != 0, lambda v, k, M: small(k, "1000") // v,
                    lambda v, k: ("scale+units", small(k, "1000") // v, {})),
    "floordiv-unit": ("({L} meter) // (7 meter)", _any, lambda v, k, M: (v * M) // (small(k, "7") * M), None),
    "mod": ("{L} % 7", _any, None, lambda v, k: ("scale+units", v % small(k, "7"), {})),  # in a registry % spells percent
    "truediv": ("{L} / 4", _any, lambda v, k, M: v / small(k, "4"), lambda v, k: ("scale+units", v / small(k, "4"), {})),
}
ENTRIES = ("call", "parse_expression", "Quantity", "ParserHelper")


def eqnum(a, b):
    if type(a) is not type(b):
        return False
    try:
        if a == b:
            return True
    except Exception:  # noqa: BLE001
        return False
    if isinstance(a, float) and math.isnan(a) and math.isnan(b):
        return True
    if isinstance(a, Decimal) and a.is_nan() and b.is_nan():
        return True
    return False


def is_q(x):
    return hasattr(x, "_magnitude") and hasattr(x, "_units")


def same(a, b):
    if is_q(a) != is_q(b):
        return False
    if not is_q(a):
        return eqnum(a, b)
    if not eqnum(a._magnitude, b._magnitude):
        return False
    ua, ub = dict(a._units), dict(b._units)
    return set(ua) == set(ub) and all(eqnum(ua[k], ub[k]) for k in ua)


def show(x):
    if is_q(x):
        return "Q(%r:%s, %r)" % (x._magnitude, type(x._magnitude).__name__, dict(x._units))
    if hasattr(x, "scale") and hasattr(x, "items"):
        return "ParserHelper(%r:%s, %r)" % (x.scale, type(x.scale).__name__, dict(x.items()))
    return "%.80r:%s" % (x, type(x).__name__)


def observe(f):
    try:
        return ("ok", f())
    except AssertionError:
        raise
    except Exception as e:  # noqa: BLE001
        try:
            text = str(e)[:100]
        except Exception:  # noqa: BLE001  (formatting Fraction exponents in the message can itself fail on 3.12)
            text = "<unprintable>"
        return ("err", type(e).__name__, text)


def run_entry(kind, entry, s):
    from pint.util import ParserHelper

    ureg = get_reg(kind)
    if entry == "call":
        return observe(lambda: ureg(s))
    if entry == "parse_expression":
        return observe(lambda: ureg.parse_expression(s))
    if entry == "Quantity":
        return observe(lambda: ureg.Quantity(s))
    return observe(lambda: ParserHelper.from_string(s, NT[kind]))


def check(lit, ctx, kind, entry):
    """-> (applicable, message or None)."""
    tmpl, applicable, reg_ref, ph_ref = CONTEXTS[ctx]
    R = exact_value(lit)
    if not applicable(R):
        return False, None
    s = tmpl.format(L=lit)
    ureg = get_reg(kind)
    with decimal.localcontext():
        v = refval(kind, lit)
        if entry == "ParserHelper":
            if ph_ref is None:
                return False, None
            exp = observe(lambda: ph_ref(v, kind))
        else:
            if reg_ref is None:
                return False, None
            M = ureg.Quantity(1, ureg.UnitsContainer({"meter": 1}))
            exp = observe(lambda: reg_ref(v, kind, M))
            if exp[0] == "ok" and entry == "Quantity" and not is_q(exp[1]):
                exp = ("ok", ureg.Quantity(exp[1], ureg.UnitsContainer({})))
        got = run_entry(kind, entry, s)
    where = "%s registry, %s(%r)" % (kind, {"call": "ureg", "parse_expression": "ureg.parse_expression", "Quantity": "ureg.Quantity",
                                                "ParserHelper": "ParserHelper.from_string"}[entry], s)
    if exp[0] == "err":
        if got[0] == "err":
            return True, None
        return True, "%s -> %s, but Python's operators raise %s" % (where, show(got[1]), exp[1])
    if got[0] == "err":
        return True, "%s raises %s (%s); Python's operators give %s" % (where, got[1], got[2], _show_exp(exp[1], entry))
    if entry != "ParserHelper":
        if same(got[1], exp[1]):
            return True, None
        return True, "%s -> %s; Python's operators give %s" % (where, show(got[1]), show(exp[1]))
    ph = got[1]
    e = exp[1]
    units = dict(ph.items())
    ok = True
    if e[0] == "scale+units":
        ok = eqnum(ph.scale, e[1]) and set(units) == set(e[2]) and all(units[k] == x for k, x in e[2].items())
    elif e[0] == "exponent":
        ok = set(units) <= {e[1]} and _exp_ok(units, e[1], e[2])
    elif e[0] == "scale+exponent":
        ok = eqnum(ph.scale, e[1]) and set(units) <= {e[2]} and _exp_ok(units, e[2], e[3])
    if ok:
        return True, None
    return True, "%s -> %s; expected %s" % (where, show(ph), _show_exp(e, entry))


def _exp_ok(units, name, expo):
    if expo == 0:
        return units.get(name, 0) == 0
    return name in units and eqnum(units[name], expo)


def _show_exp(e, entry):
    if entry != "ParserHelper":
        return show(e)
    if e[0] == "scale+units":
        return "scale %s, units %r" % (show(e[1]), e[2])
    if e[0] == "exponent":
        return "exponent of %s = %s" % (e[1], show(e[2]))
    return "scale %s, exponent of %s = %s" % (show(e[1]), e[2], show(e[3]))


# ------------------------------------------------------------------ foreign NUMBER spellings
def check_foreign(lit, ctx, kind, entry):
    s = {"alone": "{L}", "unit": "{L} meter"}[ctx].format(L=lit)
    pv = ast.literal_eval(lit)
    got = run_entry(kind, entry, s)
    if got[0] == "err":
        return None
    r = got[1]
    allowed = {"meter"} if ctx == "unit" else set()
    if entry == "ParserHelper":
        names, mag = set(dict(r.items())), r.scale
    elif is_q(r):
        names, mag = set(dict(r._units)), r._magnitude
    else:
        names, mag = set(), r
    if names - allowed:
        return None  # read as <number> * <further unit name>: pint's juxtaposition, not a bare number
    try:
        equal = (complex(mag) == complex(pv))
    except Exception:  # noqa: BLE001
        equal = False
    if equal:
        return None
    return "%s registry, %s(%r) -> %s silently, Python reads the NUMBER token %s as %r" % (kind, entry, s, show(r), lit, pv)


# ------------------------------------------------------------------ driver
def _plain(lit):
    return lit.isdigit() and (lit == "0" or not lit.startswith("0")) and len(lit) < 16


def _work(lits):
    evals = nontrivial = 0
    viols = []
    for lit in lits:
        plain = _plain(lit)
        for ctx in CONTEXTS:
            for kind in KINDS:
                for entry in ENTRIES:
                    applicable, msg = check(lit, ctx, kind, entry)
                    if not applicable:
                        continue
                    evals += 1
                    nontrivial += not plain
                    if msg:
                        viols.append({"case": "lit:%s:%s:%s:%s" % (lit, ctx, kind, entry), "what": msg, "family": "decimal",
                                      "lit": lit, "ctx": ctx, "kind": kind, "entry": entry})
    return evals, nontrivial, viols


def run(tier="quick", seed=0, workers=None, **kw):
    import multiprocessing
    import os

    t0 = time.time()
    cand = spellings(tier)
    lits = [s for s in cand if python_reads_as_one_literal(s)]
    keep = set(lits)
    rejected = [s for s in cand if s not in keep]
    for k in KINDS:
        get_reg(k)  # before forking
    n = workers or max(1, min(12, (os.cpu_count() or 2)))
    chunks = [lits[i:i + 16] for i in range(0, len(lits), 16)]
    if n > 1:
        with multiprocessing.get_context("fork").Pool(n) as pool:
            parts = pool.map(_work, chunks, chunksize=1)
    else:
        parts = [_work(c) for c in chunks]
    evals = sum(p[0] for p in parts)
    nontriv = sum(p[1] for p in parts)
    viols = [v for p in parts for v in p[2]]
    samples = []
    for lit in [x for x in lits if not _plain(x)][7::61][:4]:
        s = CONTEXTS["unit"][0].format(L=lit)
        samples.append({"expr": "ureg(%r)" % s, "float registry": show(run_entry("float", "call", s)[1]),
                        "Decimal registry": show(run_entry("dec", "call", s)[1])})
    for lit in FOREIGN:
        for ctx in ("alone", "unit"):
            for kind in KINDS:
                for entry in ENTRIES:
                    evals += 1
                    nontriv += 1
                    msg = check_foreign(lit, ctx, kind, entry)
                    if msg:
                        viols.append({"case": "lit:%s:%s:%s:%s" % (lit, ctx, kind, entry), "what": msg, "family": "foreign",
                                      "lit": lit, "ctx": ctx, "kind": kind, "entry": entry})
    samples.append({"expr": "ParserHelper.from_string('0x10')", "observed": show(run_entry("float", "ParserHelper", "0x10")[1]),
                    "note": "read as 0 * x10 (juxtaposition); the registry entry points raise UndefinedUnitError"})
    return {
        "name": NAME,
        "bound": "%d decimal literal spellings that Python reads as one NUMBER (of %d generated by the decinteger / pointfloat / "
                 "exponentfloat grammar over fixed digit groups incl. '_' separators, leading zeros, e/E, exponent signs, ints up to "
                 "10**40, floats at the double range edges) x %d contexts x 3 registries (float, Decimal, Fraction) x 4 entry points "
                 "(where applicable: exponent contexts only for 0 <= value <= 64, %% only for ParserHelper), exhaustive; plus %d "
                 "hex/octal/binary/imaginary spellings x 2 contexts x 3 x 4 checked for silent mis-evaluation only" % (
                     len(lits), len(cand), len(CONTEXTS), len(FOREIGN)),
        "evaluations": evals,
        "distinct_nontrivial": nontriv,
        "rule": "cross product; non-trivial = the spelling is not a plain short decinteger (has '_', leading zero, '.', exponent, or "
                "exceeds 2**53) or is a foreign NUMBER spelling",
        "exhaustive": True,
        "violations": viols[:25],
        "violation_count": len(viols),
        "generated_but_not_a_python_literal": rejected[:12],
        "samples": samples,
        "seconds": round(time.time() - t0, 2),
    }


def replay(data):
    if data.get("family") == "foreign":
        return check_foreign(data["lit"], data["ctx"], data["kind"], data["entry"]) is None
    return check(data["lit"], data["ctx"], data["kind"], data["entry"])[1] is None


if __name__ == "__main__":
    tier = "quick"
    if "--tier" in sys.argv:
        tier = sys.argv[sys.argv.index("--tier") + 1]
    print(json.dumps(run(tier), indent=1, default=str))
