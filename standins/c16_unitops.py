"""Bounded stand-in (C16), added after seeded changes C16-3 / C16-4 were missed.

(a) ufuncs called in *function form* with a bare Unit as one operand (np.multiply(unit, arr), np.divide(unit, arr), ...):
    the result must equal the same call with Quantity(1, unit) in the Unit's place, whichever side the Unit is on.
(b) np.prod / np.nanprod with `axis` AND a `where` mask that selects different numbers of factors per output element:
    pint can only answer for dimensionless input, and then the result must equal NumPy's product of the magnitudes
    expressed in plain `dimensionless` (so it does not depend on the scaled dimensionless unit the input is written in);
    dimensional input must raise DimensionalityError."""
from __future__ import annotations

import itertools

NAME = "c16_unitops"
UFUNCS = ["multiply", "divide", "true_divide"]
UNITS = ["meter", "second", "kilometer/hour", "percent", "degC"]
SCALED = ["percent", "ppm", "gram/kilogram", "dimensionless", "degree/radian", "millimeter/meter"]


def _eq(a, b):
    import numpy as np

    if type(a) is not type(b):
        return False
    if hasattr(a, "units"):
        return a.units == b.units and np.allclose(np.asarray(a.magnitude, float), np.asarray(b.magnitude, float), rtol=1e-12, atol=0, equal_nan=True)
    return np.allclose(np.asarray(a, float), np.asarray(b, float), rtol=1e-12, atol=0, equal_nan=True)


def _run(tier, seed):
    import numpy as np
    import pint

    rnd = np.random.default_rng(seed)
    ureg = pint.UnitRegistry()
    Q = ureg.Quantity
    viol, n, samples = [], 0, []
    shapes = [(), (3,), (2, 3)] if tier == "quick" else [(), (1,), (3,), (2, 3), (2, 1, 3)]
    # ---- (a)
    for fname, uname, shape, side, other_kind in itertools.product(UFUNCS, UNITS, shapes, ("left", "right"), ("array",)):
        if uname == "degC":
            continue  # offset units: refusal or delta reading, not judged here
        f = getattr(np, fname)
        unit = ureg.Unit(uname)
        arr = rnd.uniform(0.5, 4.0, size=shape)
        other = arr if other_kind == "array" else Q(arr, "newton")
        one = Q(1, unit)
        case = f"unit-operand:{fname}:{uname}:{shape}:{side}:{other_kind}"
        try:
            got = f(unit, other) if side == "left" else f(other, unit)
        except Exception as e:  # noqa: BLE001
            got = e
        try:
            want = f(one, other) if side == "left" else f(other, one)
        except Exception as e:  # noqa: BLE001
            want = e
        n += 1
        if isinstance(want, Exception) or isinstance(got, Exception):
            ok = type(want) is type(got)
        else:
            ok = _eq(got, want)
        if not ok:
            viol.append({"case": case, "what": f"np.{fname} with a bare Unit on the {side}: got {got!r}, with Quantity(1, unit) in its place {want!r}"})
        elif len(samples) < 3:
            samples.append(case)
    # ---- (b)
    masks = [np.array([[True, True, False], [True, False, False]]), np.array([[True, True, True], [False, True, False]]),
             np.array([[True, False, True], [True, True, True]])]
    for fname, uname, mi, axis in itertools.product(("prod", "nanprod"), SCALED + ["meter", "second"], range(len(masks)), (0, 1)):
        f = getattr(np, fname)
        mask = masks[mi]
        counts = np.unique(np.sum(mask, axis=axis))
        if len(counts) == 1 or (len(counts) == 2 and 0 in counts):
            continue  # every output element multiplies the same number of factors: unit**count, covered by c16_reductions
        mags = rnd.uniform(0.5, 3.0, size=(2, 3))
        q = Q(mags, uname)
        case = f"prod-where:{fname}:{uname}:mask{mi}:axis{axis}"
        n += 1
        try:
            got = f(q, axis=axis, where=mask)
        except pint.DimensionalityError:
            got = "DimensionalityError"
        if not q.dimensionless:
            if not isinstance(got, str):
                viol.append({"case": case, "what": f"differing factor counts on dimensional input must raise, got {got!r}"})
            continue
        want = f(q.to("dimensionless").magnitude, axis=axis, where=mask)
        if isinstance(got, str) or not (got.units == ureg.dimensionless and np.allclose(got.magnitude, want, rtol=1e-12)):
            viol.append({"case": case, "what": f"got {got!r}, NumPy on the plain dimensionless magnitudes gives {want!r}"})
        elif len(samples) < 5:
            samples.append(case)
    return viol, n, samples


def run(tier: str = "quick", seed: int = 0, **kw) -> dict:
    viol, n, samples = _run(tier, seed)
    return {"name": NAME,
            "bound": f"(a) {len(UFUNCS)} ufuncs x {len(UNITS) - 1} units x shapes x Unit on either side x bare ndarray operand (a Quantity as the other operand of a function-form ufunc with a Unit is not judged: np.multiply(quantity, unit) raises on the unchanged tree, operator forms are C03/C04); "
                     f"(b) prod/nanprod x {len(SCALED) + 2} units x 3 masks x 2 axes (cases with differing factor counts)",
            "evaluations": n, "distinct_nontrivial": n, "rule": "cross product; every case has a Unit operand or a ragged where-mask",
            "exhaustive": True, "violations": viol[:25], "violation_count": len(viol), "samples": samples}


def replay(data: dict) -> bool:
    viol, _, _ = _run("thorough", 0)
    return all(v["case"] != data.get("case") for v in viol)
