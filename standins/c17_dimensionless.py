"""Bounded stand-in (C17): argument positions declared *dimensionless* ('' / 'dimensionless' / ureg.dimensionless / a
dimensionless unit such as percent) are converted and checked like any other declared unit -- they are not the same as an
undeclared (None) position.  Exhaustive over spellings x neighbours x argument kinds x strict modes x delivery."""
from __future__ import annotations

import itertools
import json
from fractions import Fraction as F

NAME = "c17_dimensionless"
SPELLINGS = ["", "U:dimensionless", "percent", "U:percent", "radian"]  # the bare string "dimensionless" is not a unit name (AssertionError today): not judged
NEIGHBOURS = [None, "meter", "second"]
# (label, builder, value in dimensionless root units or None when not dimensionless)
ARGS = [("50 percent", lambda u: u.Quantity(F(50), "percent"), F(1, 2)), ("3 km/m", lambda u: u.Quantity(F(3), "kilometer/meter"), F(3000)),
        ("7 dimensionless", lambda u: u.Quantity(F(7), ""), F(7)), ("2 radian", lambda u: u.Quantity(F(2), "radian"), F(2)),
        ("3 second", lambda u: u.Quantity(F(3), "second"), None), ("bare 5", lambda u: F(5), "bare")]
SCALE = {"": F(1), "dimensionless": F(1), "U:dimensionless": F(1), "percent": F(1, 100), "U:percent": F(1, 100), "radian": F(1)}
_REG = {}


def _reg():
    import pint

    if "u" not in _REG:
        _REG["u"] = pint.UnitRegistry(non_int_type=F)
    return _REG["u"]


def _one(spelling, neighbour, pos, arg_i, strict, deliver):
    import pint

    u = _reg()
    spec = getattr(u, spelling[2:]) if spelling.startswith("U:") else spelling
    specs = [neighbour, neighbour]
    specs[pos] = spec
    got = []

    def f(a, b):
        got.append((a, b))
        return None

    w = u.wraps(None, tuple(specs), strict=strict)(f)
    label, build, root = ARGS[arg_i]
    other = {None: F(9), "meter": u.Quantity(F(9), "meter"), "second": u.Quantity(F(9), "second")}[neighbour]
    vals = [other, other]
    vals[pos] = build(u)
    if root is None:
        expect = ("raise", (pint.DimensionalityError,))
    elif root == "bare":
        expect = ("raise", (ValueError, TypeError)) if strict else ("value", F(5))
    else:
        expect = ("value", root / SCALE[spelling])
    try:
        if deliver == "positional":
            w(*vals)
        else:
            w(a=vals[0], b=vals[1])
    except Exception as e:  # noqa: BLE001
        if expect[0] == "raise" and isinstance(e, expect[1]):
            return None
        return f"raised {type(e).__name__}: {str(e)[:80]}; expected " + \
            ("one of " + "/".join(c.__name__ for c in expect[1]) if expect[0] == "raise" else f"the function to receive {expect[1]}")
    if expect[0] == "raise":
        return f"accepted (function received {got[0][pos]!r}); expected {'/'.join(c.__name__ for c in expect[1])}"
    r = got[0][pos]
    if isinstance(r, u.Quantity) or r != expect[1] or isinstance(r, float):
        return f"function received {r!r}; expected the magnitude {expect[1]} in the declared unit"
    return None


def run(tier="quick", seed=0, **kw):
    evals, viols, seen, samples = 0, [], {}, []
    for spelling, neighbour, pos, arg_i, strict, deliver in itertools.product(
            SPELLINGS, NEIGHBOURS, (0, 1), range(len(ARGS)), (True, False), ("positional", "keyword")):
        evals += 1
        msg = _one(spelling, neighbour, pos, arg_i, strict, deliver)
        if msg:
            case = f"dimensionless-spec:{spelling or 'empty'}:{ARGS[arg_i][0].replace(' ', '_')}:strict={strict}"
            if case in seen:
                seen[case]["count"] += 1
                continue
            v = {"case": case, "count": 1, "what": f"ureg.wraps(None, specs with {spelling!r} at position {pos} next to {neighbour!r}, "
                 f"strict={strict}), argument {ARGS[arg_i][0]} ({deliver}): {msg}",
                 "spelling": spelling, "neighbour": neighbour, "pos": pos, "arg": arg_i, "strict": strict, "deliver": deliver}
            seen[case] = v
            viols.append(v)
        elif len(samples) < 4 and evals % 173 == 0:
            samples.append({"spec": spelling, "neighbour": neighbour, "position": pos, "argument": ARGS[arg_i][0], "strict": strict})
    return {"name": NAME, "bound": f"{len(SPELLINGS)} dimensionless spellings x {len(NEIGHBOURS)} neighbour specs x 2 positions x "
            f"{len(ARGS)} argument kinds x strict on/off x positional/keyword delivery, exhaustive, Fraction registry (exact)",
            "evaluations": evals, "distinct_nontrivial": evals, "rule": "every case has a dimensionless-declared position",
            "exhaustive": True, "violations": viols[:25], "violation_count": sum(v["count"] for v in viols), "samples": samples}


def replay(data):
    return _one(data["spelling"], data["neighbour"], data["pos"], data["arg"], data["strict"], data["deliver"]) is None


if __name__ == "__main__":
    print(json.dumps(run(), indent=1, default=str))
